#!/venv/bin/python
"""C08 — Vi operators act exactly on the motion's span; yanking never edits.

Correspondence: the real editor (PromptSession in Vi navigation mode, keys fed through the real
Vt100Parser / KeyProcessor) and direct calls of TextObject.operator_range / get_line_numbers /
cut, against the Lean model `Ptk.Model.C08` (driver drv_c08).

Oracle: the property restated over the real editor only (no model): yank leaves the text alone;
d / c remove one contiguous span touching the cursor and the register holds exactly the removed
characters (whole lines for linewise motions); case / indent operators change nothing outside the
span that `d` + the same motion removes; failing motions (independent spec of "fails") change
nothing; for the simple motions the span itself is compared with a from-the-Vi-manual spec.
"""
from __future__ import annotations

import codecs
import itertools
import os
import sys

sys.path.insert(0, os.path.dirname(os.path.abspath(__file__)))
import core
from core import enc_str

from prompt_toolkit.clipboard import ClipboardData
from prompt_toolkit.document import Document
from prompt_toolkit.key_binding.bindings.vi import TextObject, TextObjectType
from prompt_toolkit.key_binding.vi_state import CharacterFind, InputMode
from prompt_toolkit.selection import SelectionType

import editor as _editor

ID = "C08"
DRIVER = "drv_c08"
PROPS = ["Ptk.Props.C08", "Ptk.Props.C08Motions", "Ptk.Props.C08Session", "Ptk.Props.C08Visual"]
LEVEL_TEXT = ("Lean 4 theorems over an executable model of (1) TextObject (sorted / operator_range / spans_nothing / "
              "get_line_numbers / cut through Document.cut_selection incl. the per-line BLOCK ranges) and the Vi "
              "operators d c y g? gu gU g~ ~ > < gq with registers: yank never edits, delete/change removes exactly "
              "text[from:to) and stores exactly it (whole lines, trailing newline convention, for linewise), "
              "case/indent/reshape operators frame, empty span or failing motion => no-op for every operator, "
              "operator_range in bounds for EVERY text object of vi.py except n/N (h l 0 $ ^ w W b B e E f F t T ; , "
              "iw aw iW aW i( a( .. i\" a\" .. j k G gg ge gE g_ | % N% { } ap H M L gm); (2) a Vi SESSION: the ViState "
              "(operator_func, operator_arg, last_character_find, registers, input mode, temporary navigation mode) "
              "and KeyProcessor.arg threaded through arbitrary key sequences (counts, operators, text objects, Escape, "
              "c-o, unknown keys, typed text, >> << guu gUU g~~): operator_arg is set only while an operator is "
              "pending, every completed or failed text object and Escape clear operator and counts, a command typed "
              "into any quiet state refines the one-command model with its OWN counts (2d3w = 6 words), the future "
              "of a session depends only on buffer, registers, last find and mode; (3) visual mode "
              "(_operator_in_selection on CHARACTERS / LINES / BLOCK selections, movements in selection mode): "
              "exact spans for d c y, per-row ranges that partition the text for BLOCK, frame for case/indent. The "
              "model is tied to /repo on every run by an end-to-end differential correspondence through the real "
              "key processor (single commands, multi-command sessions comparing the whole ViState, visual "
              "excursions, direct TextObject calls) and by a model-independent property oracle incl. history "
              "independence (the same keys in a fresh editor with the same visible state give the same result)")
LEVEL_NOTE = ("trusted: Lean kernel, axioms propext/Classical.choice/Quot.sound only; the hand-written model "
              "(validated by the correspondence, not proved equal to the Python); CPython str/re semantics; "
              "Window.render_info is replaced by a stub (rows / width are parameters of H M L gm); two known "
              "findings in visual mode (v$> indents one line too many, visual block + case operator transforms "
              "the whole range) are modelled as the code behaves, each with a Lean witness and a partial theorem; "
              "two defects found in round 2 are repaired in /repo (71bdcd7 gm stays on the line, 46db376 d / c "
              "into an unknown register do nothing) and the theorems about them are full strength")
RULE = ("exhaustive: every text over {a,B,space,\\n,(,)} up to the tier's length bound x every cursor x every "
        "modelled motion/text object (with counts none/2/3 and operator counts; H M L gm with a stubbed "
        "render_info) under d and typed alone, plus every operator (d c y g? gu gU g~ > < gq, \"x register "
        "variants incl. the unknown register \"A) on a rotating motion subset; every TextObject(start,end,type) with "
        "in-range offsets called directly; sessions: all pairs over a 35-group session alphabet (counted / "
        "uncounted commands of every operator class, failing motions, movements, lone counts, lone operators, "
        "Escape, c-o, unknown key, typed text, doubled forms) and counted-start x separator x uncounted-operator "
        "triples, alternately typed with a flush after every group (whole ViState compared each time) and "
        "naturally (buffer state compared each time, ViState at the end); visual mode: v / V / c-v x <= 2 "
        "movements from a 13-movement alphabet x 11 terminals (operators, Escape); then seeded random texts "
        "(<= 40 chars, quotes, brackets, wide chars, tabs) with random operator x motion x counts (incl. ~ with "
        "tilde_operator, gq, counts >= 10^6), `<f|F|t|T c> <operator> ;|,` sequences, random sessions of 2-8 "
        "groups from navigation / insert / temporary-navigation mode, random visual excursions; texts with the "
        "length-changing case mappings (sharp s, fi ligature, dotted capital I, j with caron) under g? gu gU g~ ~ "
        "x 12 motions on spans followed by characters and by line breaks (model and oracle); operator + [count] "
        "n / N with loaded history (oracle only); a case is "
        "non-trivial when the text is non-empty")
EXHAUSTIVE = True
EXHAUSTIVE_SCOPE = {"quick": "alphabet {a,B,space,\\n,(,)}: len 0 full product operators x motion instances; len 1 all motion instances x d, 60 rotating per other operator; len 2 120 rotating instances x d, 5 per other operator; len 3 all states, 10 x d + 1 per other operator; raw TextObjects over {a,space,\\n} len<=4, all in-range offsets x 3 types; sessions: all admissible pairs over the 35-group alphabet on 2 texts x 3 cursors, triples 12x10x12 on 1 text x 2 cursors, doubled forms on 6 texts; visual: 2 texts x <=4 cursors x 3 selection types x (11 terminals x (1 + 13 movements) + 169 movement pairs)",
                    "thorough": "alphabet {a,B,space,\\n,(,)}: len<=1 full product operators x motions x counts, all cursors; len 2 all motions x d, 60 rotating motions per other operator; len 3 all motions x d, 10 rotating motions per other operator; len 4 all states, rotating subsets (12 motions x d, 1 per other operator); raw TextObjects len<=5; sessions: all admissible pairs on 6 texts x 3 cursors, triples on 5 texts x 3 cursors; visual: 5 texts x all cursors x 3 selection types x (11 terminals x (1 + 13 movements) + 169 movement pairs)"}
TRUSTED = ["harness/c08.py compares text, cursor, clipboard (with type), named registers, input mode and - in sessions - "
           "operator pending / operator_arg / KeyProcessor.arg / temporary_navigation_mode / last_character_find",
           "Ptk/Model/C08.lean, C08Session.lean, C08Visual.lean are hand translations of vi.py (TextObject, operator "
           "and text-object decorators, operators, text objects), vi_state.py (input_mode setter), key_processor.py "
           "(_call_handler, arg handling, cursor fix, temporary navigation mode), filters/app.py (vi_*_mode) and the "
           "Document / Buffer functions they use (see MODELLED)",
           "harness/c08.py track() (key grammar used only to keep generated / shrunk sessions inside the modelled key set)"]
ASSUMPTIONS = ["CPython str slicing semantics; `re` on the word patterns == maximal class runs (differentially checked)",
               "str.isspace / regex \\s tables regenerated from the interpreter",
               "transform callbacks = ASCII rot13/lower/upper/swapcase plus CPython's four length-changing mappings "
               "(U+00DF, U+FB01, U+01F0 upper, U+0130 lower) in the correspondence; theorems hold for every callback, "
               "also length-changing ones (transform_frame: take a ++ f(span) ++ drop b)",
               "the buffer is not read-only, no digraph is being entered, Buffer.text_width = 0 (gq wraps at 80)",
               "gq: the only line separator in the text is \\n (str.splitlines also splits at \\r \\v \\f \\x1c-\\x1e \\x85 "
               "\\u2028 \\u2029, which the generators do not produce)",
               "int((N * line_count - 1) / 100) of N% and int(min(width / 2, len)) of gm equal the integer "
               "divisions of the model (exact for operands < 2^53)",
               "sessions: operator keys typed while another operator is pending carry no register prefix (a "
               "register name could itself be a text object key); `dd` `cc` `yy` typed without a pause are other "
               "bindings (C09) and are not generated"]
PARTIAL_SCOPE = ["n N (search motions, Buffer._search / get_search_position over the history entries) are not in the Lean model: oracle only (operator + [count] n / N with 0-2 loaded history entries: the count-th match must lie in the edited text, else nothing changes; else the span is exactly cursor..match); `(` `)` are no text objects in vi.py",
                 "H M L gm: Window.render_info is a stub in the correspondence (rows and width are parameters of the theorems)",
                 "gq: frame and no-op theorems only (that the words are preserved is checked by the oracle, not proved); other line separators than \\n not modelled",
                 "visual mode: j/k and all text objects as movements, one excursion from a fresh state (not threaded through the session model); visual J / x / I / A, `aw` auto-word, macros, digraphs, replace modes, dot-repeat are not modelled; observed, not judged: a text object typed in visual mode (viw, vi( ...) selects one character past its end",
                 "sessions: keys outside the modelled set (i a x p u . etc.) are not modelled; `j` `k` typed as movements (no operator pending) use Buffer.cursor_down and are only modelled in visual mode",
                 "the cursor position after y / case operators (not part of the property) is compared with the model only",
                 "dd / cc / yy / D / C / x are separate bindings, not operator+motion (C09); their doubled case/indent relatives >> << guu gUU g~~ are modelled here",
                 "KNOWN FINDINGS (modelled as the code behaves): visual > < indent one line too many when the selection ends on a newline; visual BLOCK + g? gu gU g~ transform the whole range between the corners"]
ANCHORS = ["src/prompt_toolkit/key_binding/bindings/vi.py", "src/prompt_toolkit/key_binding/vi_state.py",
           "src/prompt_toolkit/key_binding/key_processor.py", "src/prompt_toolkit/filters/app.py",
           "src/prompt_toolkit/document.py", "src/prompt_toolkit/buffer.py"]
_VI = "load_vi_bindings."
_TOD = "create_text_object_decorator.text_object_decorator.decorator."
_OPD = "create_operator_decorator.operator_decorator.decorator."
MODELLED = {
    "src/prompt_toolkit/key_binding/bindings/vi.py": [
        "TextObject.selection_type", "TextObject.sorted", "TextObject.operator_range", "TextObject.spans_nothing",
        "TextObject.get_line_numbers", "TextObject.cut",
        _TOD + "_apply_operator_to_text_object", _TOD + "_move_in_navigation_mode", _TOD + "_move_in_selection_mode",
        _OPD + "_operator_in_navigation", _OPD + "_operator_in_selection",
        _VI + "_back_to_navigation", _VI + "_quick_normal_mode", _VI + "_unknown_text_object", _VI + "_0_arg",
        _VI + "create_delete_and_change_operators.delete_or_change_operator", _VI + "create_transform_handler._",
        _VI + "_yank", _VI + "_yank_to_register", _VI + "_indent_text_object", _VI + "_unindent_text_object",
        _VI + "_reshape", _VI + "_indent", _VI + "_unindent", _VI + "_lowercase_line", _VI + "_uppercase_line",
        _VI + "_swapcase_line", _VI + "_visual", _VI + "_visual_line", _VI + "_visual_block",
        _VI + "_up_in_selection", _VI + "_down_in_selection",
        _VI + "_b", _VI + "_B", _VI + "_dollar", _VI + "_word_forward", _VI + "_WORD_forward", _VI + "_end_of_word",
        _VI + "_end_of_WORD", _VI + "_inner_word", _VI + "_a_word", _VI + "_inner_WORD", _VI + "_a_WORD",
        _VI + "_paragraph", _VI + "_start_of_line", _VI + "_hard_start_of_line", _VI + "create_ci_ca_handles.handler",
        _VI + "_previous_section", _VI + "_next_section", _VI + "_find_next_occurrence",
        _VI + "_find_previous_occurrence", _VI + "_t", _VI + "_T", _VI + "repeat._", _VI + "_left", _VI + "_down",
        _VI + "_up", _VI + "_right", _VI + "_top_of_screen", _VI + "_middle_of_screen", _VI + "_end_of_screen",
        _VI + "_goto_corresponding_bracket", _VI + "_to_column", _VI + "_goto_first_line", _VI + "_goto_last_line",
        _VI + "_ge", _VI + "_gE", _VI + "_gm", _VI + "_last_line"],
    "src/prompt_toolkit/key_binding/vi_state.py": ["ViState.input_mode"],
    "src/prompt_toolkit/key_binding/key_processor.py": [
        "KeyProcessor._call_handler", "KeyProcessor._fix_vi_cursor_position",
        "KeyProcessor._leave_vi_temp_navigation_mode", "KeyPressEvent.arg", "KeyPressEvent.arg_present",
        "KeyPressEvent.append_to_arg_count"],
    "src/prompt_toolkit/filters/app.py": ["vi_navigation_mode", "vi_insert_mode", "vi_selection_mode",
                                          "vi_waiting_for_text_object_mode"],
    "src/prompt_toolkit/document.py": [
        "Document.current_char", "Document.current_line_before_cursor", "Document.current_line_after_cursor",
        "Document.current_line", "Document.cursor_position_row", "Document.cursor_position_col",
        "Document.translate_index_to_position", "Document.translate_row_col_to_index", "Document.on_first_line",
        "Document.on_last_line", "Document.is_cursor_at_the_end_of_line",
        "Document.find", "Document.find_backwards", "Document.find_start_of_previous_word",
        "Document.find_next_word_beginning", "Document.find_next_word_ending", "Document.find_previous_word_ending",
        "Document.find_boundaries_of_current_word", "Document.find_next_matching_line",
        "Document.find_previous_matching_line", "Document.get_cursor_left_position",
        "Document.get_cursor_right_position", "Document.get_cursor_up_position", "Document.get_cursor_down_position",
        "Document.find_enclosing_bracket_right", "Document.find_enclosing_bracket_left",
        "Document.find_matching_bracket_position", "Document.get_start_of_document_position",
        "Document.get_end_of_document_position", "Document.get_start_of_line_position",
        "Document.get_end_of_line_position", "Document.last_non_blank_of_current_line_position",
        "Document.get_column_cursor_position", "Document.selection_ranges", "Document.cut_selection",
        "Document.start_of_paragraph", "Document.end_of_paragraph"],
    "src/prompt_toolkit/buffer.py": [
        "Buffer.transform_lines", "Buffer.transform_current_line", "Buffer.transform_region", "Buffer.cursor_up",
        "Buffer.cursor_down", "Buffer.start_selection", "Buffer.exit_selection", "indent", "unindent", "reshape_text"],
}

ALPHA = ["a", "B", " ", "\n", "(", ")"]
RAND_ALPHA = ["a", "B", "c", "d", " ", " ", "\n", "\n", "(", ")", "'", "\"", ".", ",", "_", "9", "\t", "世", "[", "]", "x"]

OPS = ["d", "c", "y", "g?", "gu", "gU", "g~", ">", "<"]
COUNT_SENSITIVE = {"h", "l", "w", "W", "b", "B", "e", "E", "f", "F", "t", "T", "j", "k", "gg", "ge", "gE", "|", "%", "{", "}", "ap"}
REPEAT = {";", ","}   # motion = [";"|","] (no previous find) or [";"|",", findkey, findchar, findcount|None]
NO_MOVE = {"iw", "iW", "aw", "aW", "j", "k", "ib", "ab", "iq", "aq", "ap"}
LINEWISE = {"j", "k", "G", "gg", "H", "M", "L"}
SCREEN = {"H": 0, "M": 1, "L": 2}   # index into case["screen"] = [top row, centre row, bottom row, window width]
# motions that came into the Lean model in round 2 (before: oracle only)
NEW_MOTIONS = ["ge", "gE", "g_", "|", "%", "{", "}", "ap", "H", "M", "L", "gm"]
# oracle-only motions (key strings); not sent to the model
EXTRA_MOTIONS = []


# ------------------------------------------------------------------ real editor (one per process)
_ED = {}


def get_editor():
    pid = os.getpid()
    ed = _ED.get(pid)
    if ed is None:
        cm = _editor.editor(vi=True, multiline=True)
        ed = cm.__enter__()
        _ED.clear()
        _ED[pid] = ed
        _ED["cm"] = cm
    return ed


def clip_of(t, lines):
    return ClipboardData(t, SelectionType.LINES if lines else SelectionType.CHARACTERS)


class RenderInfoStub:
    """what `H` `M` `L` `gm` read from `Window.render_info` (the harness never renders)"""

    def __init__(self, top, mid, bot, width):
        self.top, self.mid, self.bot, self.window_width = top, mid, bot, width

    def first_visible_line(self, after_scroll_offset=False):
        return self.top

    def center_visible_line(self, before_scroll_offset=False, after_scroll_offset=False):
        return self.mid

    def last_visible_line(self, before_scroll_offset=False):
        return self.bot


def setup(text, cur, clip, tilde=False, regs=None, lf=None, mode="nav", screen=None):
    """put the (one per process) real editor into a given state; returns (ed, app, vi_state)"""
    ed = get_editor()
    app = ed.app
    app.layout.current_window.render_info = None if screen is None else RenderInfoStub(*screen)
    ed.buffer.reset(Document(text, cur))
    vs = app.vi_state
    vs.reset()
    vs.named_registers = {k: clip_of(v[0], v[1]) for k, v in (regs or {}).items()}
    vs.last_character_find = None if lf is None else CharacterFind(lf[0], bool(lf[1]))
    vs.tilde_operator = tilde
    vs.input_mode = InputMode.NAVIGATION if mode == "nav" else InputMode.INSERT
    vs.temporary_navigation_mode = (mode == "tmp")
    app.clipboard.set_data(clip_of(clip[0], clip[1]))
    app.key_processor.reset()
    return ed, app, vs


def snap(ed, app, vs, err=None):
    cd = app.clipboard.get_data()
    lf = vs.last_character_find
    return {
        "text": ed.buffer.text, "cur": ed.buffer.cursor_position,
        "clip": (cd.text, 1 if cd.type == SelectionType.LINES else 0, cd.type.name),
        "regs": {k: (v.text, 1 if v.type == SelectionType.LINES else 0) for k, v in vs.named_registers.items()},
        "insert": vs.input_mode == InputMode.INSERT,
        "pending": vs.operator_func is not None,
        "oparg": vs.operator_arg, "arg": app.key_processor.arg, "tmp": vs.temporary_navigation_mode,
        "lf": None if lf is None else (lf.character, 1 if lf.backwards else 0),
        "kbuf": len(app.key_processor.key_buffer),
        "err": err,
    }


def drive(text, cur, clip, keys, tilde=False, regs=None, lf=None, mode="nav", flush=False, screen=None):
    """fresh state (text, cur, clipboard[, registers, last find, mode]) -> feed raw keys -> observable state"""
    ed, app, vs = setup(text, cur, clip, tilde, regs, lf, mode, screen)
    err = None
    try:
        ed.feed(keys)
        if flush:
            ed.flush()
    except Exception as e:  # a handler raised
        err = type(e).__name__
        app.key_processor.reset()
    return snap(ed, app, vs, err)


# ------------------------------------------------------------------ ops
# an op is [opArg|None, opName, reg|None, motArg|None, motion...]; motion = token list
def prefix_keys(m):
    """keys typed BEFORE the operator: the character find that `;` / `,` repeat"""
    if m[0] in REPEAT and len(m) == 4:
        return ("" if m[3] is None else str(m[3])) + m[1] + m[2]
    return ""


def motion_keys(m):
    k = m[0]
    if k in ("f", "F", "t", "T"):
        return k + m[1]
    if k in ("ib", "ab"):
        return k[0] + m[3]
    if k in ("iq", "aq"):
        return k[0] + m[1]
    return k


def op_keys(op):
    oa, name, reg, ma, m = op[0], op[1], op[2], op[3], op[4:]
    s = prefix_keys(m)
    if oa is not None:
        s += str(oa)
    if reg is not None:
        s += '"' + reg
    s += name
    if ma is not None:
        s += str(ma)
    return s + motion_keys(m)


def motion_tokens(m, screen=None):
    k = m[0]
    if k in SCREEN:
        return f"{k} {opt(None if screen is None else screen[SCREEN[k]])}"
    if k == "gm":
        return f"gm {opt(None if screen is None else screen[3])}"
    if k in REPEAT:
        return f"rep {1 if k == ',' else 0}"
    if k in ("f", "F", "t", "T", "iq", "aq"):
        return f"{k} {ord(m[1])}"
    if k in ("ib", "ab"):
        return f"{k} {ord(m[1])} {ord(m[2])}"
    return k


def opt(v):
    return "N" if v is None else str(v)


def is_extra(op):
    # gq after `;` / `,` with a remembered find goes through the e2ep protocol, which has no gq
    return (op[1] == "gq" and op[4] in REPEAT and len(op) == 8) or op[4] in EXTRA_MOTIONS


def base_motions():
    ms = [[k] for k in ["h", "l", "0", "$", "^", "w", "W", "b", "B", "e", "E", "iw", "iW", "aw", "aW",
                        "j", "k", "G", "gg"]]
    for k in "fFtT":
        for ch in ["a", ")", "x", " "]:
            ms.append([k, ch])
    for key in ["(", ")", "b"]:
        ms.append(["ib", "(", ")", key])
        ms.append(["ab", "(", ")", key])
    ms.append(["ib", "[", "]", "["])
    ms.append(["iq", "'"])
    ms += [[k] for k in NEW_MOTIONS]
    # repeat motions: without and with a remembered character find
    ms.append([";"])
    ms.append([","])
    for fk in "fFtT":
        for ch in ["a", " "]:
            for k in (";", ","):
                ms.append([k, fk, ch, None])
    for fk in "fF":
        for k in (";", ","):
            ms.append([k, fk, "a", 2])
    return ms


BASE = base_motions()
ARGS = [(None, None), (2, None), (None, 2), (2, 2), (3, None), (None, 3)]


def motion_instances():
    inst = []
    for m in BASE:
        inst.append((None, None, m))
        if m[0] in COUNT_SENSITIVE:
            for oa, ma in ARGS[1:]:
                inst.append((oa, ma, m))
        elif m[0] in REPEAT and len(m) == 4:
            for oa, ma in ARGS[1:3]:
                inst.append((oa, ma, m))
    return inst


INST = motion_instances()


def op_variants():
    out = []
    for name in OPS + ["gq"]:
        for reg in ([None, "a", "A"] if name in ("d", "y") else [None, "a"] if name == "c" else [None]):
            if not (name == "d" and reg is None):
                out.append((name, reg))
    return out


VARIANTS = op_variants()


def state_ops(salt, n_d, n_other):
    """the op list for one state: `d` on n_d motion instances (None = all), every other operator
    variant on n_other instances (None = all); subsets rotate with `salt`"""
    ops = []
    n = len(INST)
    sel = INST if n_d is None else [INST[(salt * 5 + i * 7) % n] for i in range(n_d)]
    for oa, ma, m in sel:
        ops.append([oa, "d", None, ma] + m)
    for j, (name, reg) in enumerate(VARIANTS):
        sel = INST if n_other is None else [INST[(salt * 7 + j * 13 + i * 11) % n] for i in range(n_other)]
        for oa, ma, m in sel:
            ops.append([oa, name, reg, ma] + m)
    return ops


def rand_motion(rng):
    r = rng.randrange(12)
    if r < 6:
        return list(rng.choice(BASE))
    if r < 8:
        return [rng.choice("fFtT"), rng.choice(RAND_ALPHA[:21])] if True else None
    if r < 9:
        l, rr = rng.choice([("(", ")"), ("[", "]"), ("{", "}"), ("<", ">")])
        keys = [l, rr] + (["b"] if l == "(" else ["B"] if l == "{" else [])
        return [rng.choice(["ib", "ab"]), l, rr, rng.choice(keys)]
    if r < 10:
        return [rng.choice(["iq", "aq"]), rng.choice(["'", '"', "`"])]
    if rng.randrange(3) == 0:
        if rng.randrange(6) == 0:
            return [rng.choice(";,")]
        ch = rng.choice([c for c in RAND_ALPHA if c not in ("\n", "\t")])
        return [rng.choice(";,"), rng.choice("fFtT"), ch, rng.choice([None, None, 2, 3])]
    return [rng.choice(NEW_MOTIONS)]


def rand_op(rng):
    m = rand_motion(rng)
    while m[0] in ("f", "F", "t", "T") and m[1] in ("\n", "\t"):
        m = rand_motion(rng)
    name = rng.choice(OPS + ["d", "d", "c", "y", "gq", "~"])
    reg = rng.choice([None, None, None, None, "a", "a", "z", "0", "7", "A", "-"]) if name in ("d", "c", "y") else None
    oa = rng.choice([None, None, None, 2, 3, 5, 12, 1000, 1000000])
    ma = rng.choice([None, None, None, 2, 3, 4, 11, 1000, 2000000])
    if m[0] in ("0", "G"):
        ma = None   # `20` is a count; `3G` is bound to go-to-history-line
    return [oa, name, reg, ma] + m


def rand_screen(rng):
    if rng.randrange(3) == 0:
        return None
    return [rng.randrange(0, 6), rng.randrange(0, 6), rng.randrange(0, 8), rng.choice([0, 1, 2, 5, 9, 80])]


def rand_text(rng):
    n = rng.choice([0, 1, 2, 3, 5, 8, 13, 21, 40])
    kind = rng.randrange(4)
    if kind == 0:
        return "".join(rng.choice(RAND_ALPHA) for _ in range(n))
    if kind == 1:  # word-ish lines
        words = ["ab", "B", "a_9", "..", "(", ")", "'a'", "x", "世", "a.b", ""]
        out = []
        while sum(len(w) + 1 for w in out) < n:
            out.append(rng.choice(words))
        s = ""
        for w in out:
            s += w + rng.choice([" ", " ", "  ", "\n", "\n\n", "\t", ""])
        return s[:max(n, 1)]
    if kind == 2:  # nested brackets / quotes
        return "".join(rng.choice(["(", ")", "a", " ", "\n", "'", "[", "]"]) for _ in range(n))
    return "".join(rng.choice(["a", " ", "\n", "\n", "    ", "B"]) for _ in range(n))


def raw_tos(n, cur):
    """every TextObject whose offsets stay inside the text, all three types"""
    out = []
    for s in range(-cur, n - cur + 1):
        for e in range(-cur, n - cur + 1):
            for ty in (0, 1, 2):
                out.append([s, e, ty])
    return out


# per tier: text length -> (number of `d` motion instances, instances per other operator); None = all
PLAN = {"quick": {0: (None, None), 1: (None, 60), 2: (120, 5), 3: (10, 1)},
        "thorough": {0: (None, None), 1: (None, None), 2: (None, 60), 3: (None, 10), 4: (12, 1)}}


def interleave(a, b):
    """merge two case lists so that both are spread evenly over the result (core evaluates
    consecutive chunks in parallel: the expensive cases must not sit in one chunk)"""
    out, i, j = [], 0, 0
    na, nb = len(a), len(b)
    while i < na or j < nb:
        if j >= nb or (i < na and i * nb <= j * na):
            out.append(a[i])
            i += 1
        else:
            out.append(b[j])
            j += 1
    return out


_CASES_CALLS = [0]
SEARCH_CAP = 15000


def cases(tier, rng):
    """the first call is the run itself; core calls cases("thorough") once more, oracle only, when
    a proof or the correspondence broke and no violation was seen: that search is capped (an evenly
    spread sample of the thorough generator) so that the verdict comes within minutes"""
    _CASES_CALLS[0] += 1
    full = all_cases(tier, rng)
    if tier == "thorough" and _CASES_CALLS[0] > 1 and len(full) > SEARCH_CAP:
        k = -(-len(full) // SEARCH_CAP)
        return full[::k]
    return full


def all_cases(tier, rng):
    salt = rng.randrange(1000)
    single = list(cases_single(tier, rng))
    # sessions: several commands typed into one editor / one ViState
    sess = list(sess_exhaustive(tier, salt)) + list(sess_random(rng, 600 if tier == "quick" else 12000))
    # visual mode: one excursion  v|V|c-v  movements  operator|Escape
    vis = list(vis_exhaustive(tier, salt)) + list(vis_random(rng, 500 if tier == "quick" else 10000))
    # length-changing case mappings under the transform operators; operator + n / N with history
    extra = list(uni_cases(tier, rng)) + list(srch_cases(tier, rng))
    return interleave(interleave(single, extra), interleave(sess, vis))


def cases_single(tier, rng):
    quick = tier == "quick"
    plan = PLAN[tier]
    salt = rng.randrange(1000)
    for n in sorted(plan):
        n_d, n_other = plan[n]
        for tup in itertools.product(ALPHA, repeat=n):
            text = "".join(tup)
            for cur in range(n + 1):
                salt += 1
                yield {"k": "e2e", "text": text, "cur": cur, "clip": ["zz", 0],
                       "screen": [None, [0, 1, 2, 3], [1, 1, 3, 0], [2, 0, 1, 5]][salt % 4],
                       "ops": state_ops(salt, n_d, n_other)}
    # direct TextObject calls
    rawlen = 4 if quick else 5
    for n in range(rawlen + 1):
        for tup in itertools.product(["a", " ", "\n"], repeat=n):
            text = "".join(tup)
            for cur in range(n + 1):
                yield {"k": "raw", "text": text, "cur": cur, "tos": raw_tos(n, cur)}
    nrand = 1000 if quick else 14000
    for _ in range(nrand):
        text = rand_text(rng)
        cur = rng.choice([0, len(text), rng.randrange(0, len(text) + 1), rng.randrange(0, len(text) + 1)])
        clip = rng.choice([["zz", 0], ["", 0], ["old\nline", 1]])
        ops = [rand_op(rng) for _ in range(rng.randrange(4, 12))]
        yield {"k": "e2e", "text": text, "cur": cur, "clip": clip, "screen": rand_screen(rng), "ops": ops}
    for _ in range(200 if quick else 3000):
        text = rand_text(rng)[:12]
        cur = rng.randrange(0, len(text) + 1)
        tos = raw_tos(len(text), cur)
        rng.shuffle(tos)
        yield {"k": "raw", "text": text, "cur": cur, "tos": tos[:40]}


# ------------------------------------------------------------------ correspondence
def model_lines(case):
    out = []
    if case["k"] == "sess":
        return [sess_model_line(case)] if track(case) else []
    if case["k"] == "vis":
        return [vis_model_line(case)] if vis_split(case) is not None else []
    if case["k"] == "srch":
        return []
    t, c = enc_str(case["text"]), case["cur"]
    if case["k"] == "raw":
        for s, e, ty in case["tos"]:
            out.append(f"raw {t} {c} {s} {e} {ty}")
        return out
    clip = case["clip"]
    scr = case.get("screen")
    for op in case["ops"]:
        if is_extra(op):
            continue
        m = op[4:]
        regtok = opt(None if op[2] is None else ord(op[2]))
        if m[0] in REPEAT and len(m) == 4:
            rev = 1 if m[0] == "," else 0
            out.append(f"e2ep {t} {c} {enc_str(clip[0])} {clip[1]} {opt(m[3])} {m[1]} {ord(m[2])} "
                       f"{opt(op[0])} {op[1]} {regtok} {opt(op[3])} {rev}")
            if op[1] == "d" and op[2] is None and op[0] is None:
                out.append(f"mvp {t} {c} {opt(m[3])} {m[1]} {ord(m[2])} {opt(op[3])} {rev}")
            continue
        out.append(f"e2e {t} {c} {enc_str(clip[0])} {clip[1]} {opt(op[0])} {op[1]} "
                   f"{regtok} {opt(op[3])} {motion_tokens(m, scr)}")
        if op[1] == "d" and op[2] is None and op[0] is None and m[0] not in NO_MOVE:
            out.append(f"mv {t} {c} {opt(op[3])} {motion_tokens(m, scr)}")
    return out


def st_line(r):
    if r["err"]:
        return "err"
    regs = sorted(r["regs"].items())
    items = [f"{ord(k)} {enc_str(v[0])} {v[1]}" for k, v in regs]
    return (f"{enc_str(r['text'])} {r['cur']} {enc_str(r['clip'][0])} {r['clip'][1]} "
            + " ".join([str(len(items))] + items) + f" {1 if r['insert'] else 0}")


_TYPES = [TextObjectType.EXCLUSIVE, TextObjectType.INCLUSIVE, TextObjectType.LINEWISE]

_CACHE = {"case": None, "res": None}


def run_case(case):
    """run every op of an e2e case on the real editor: list of (result, move_result|None)"""
    if _CACHE["case"] is case:
        return _CACHE["res"]
    res = []
    for op in case["ops"]:
        scr = case.get("screen")
        r = drive(case["text"], case["cur"], case["clip"], op_keys(op), tilde=(op[1] == "~"), screen=scr)
        mvr = None
        m = op[4:]
        pre = prefix_keys(m)
        # the state the operator starts from: after the character find typed as a movement
        r["base_cur"] = drive(case["text"], case["cur"], case["clip"], pre)["cur"] if pre else case["cur"]
        if op[1] == "d" and op[2] is None and op[0] is None and m[0] not in NO_MOVE:
            mvr = drive(case["text"], case["cur"], case["clip"],
                        pre + ("" if op[3] is None else str(op[3])) + motion_keys(m), screen=scr)
        res.append((r, mvr))
    _CACHE["case"], _CACHE["res"] = case, res
    return res


def impl_lines(case):
    out = []
    if case["k"] == "sess":
        return [sess_impl_line(case)] if track(case) else []
    if case["k"] == "vis":
        return [vis_impl_line(case)] if vis_split(case) is not None else []
    if case["k"] == "srch":
        return []
    if case["k"] == "raw":
        ed = get_editor()
        for s, e, ty in case["tos"]:
            ed.buffer.reset(Document(case["text"], case["cur"]))
            to = TextObject(s, e, _TYPES[ty])
            doc = ed.buffer.document
            a, b = to.operator_range(doc)
            l1, l2 = to.get_line_numbers(ed.buffer)
            sn = 1 if to.spans_nothing(doc) else 0
            try:
                nd, cd = to.cut(ed.buffer)
                cut = f"{enc_str(nd.text)} {nd.cursor_position} {enc_str(cd.text)} {1 if cd.type == SelectionType.LINES else 0}"
            except AssertionError:
                cut = "err"
            out.append(f"{a} {b} {l1} {l2} {sn} {cut}")
        return out
    for op, (r, mvr) in zip(case["ops"], run_case(case)):
        if is_extra(op):
            continue
        out.append(st_line(r))
        if mvr is not None:
            out.append(str(mvr["cur"]))
    return out


# ------------------------------------------------------------------ oracle
def line_start(t, i):
    return t.rfind("\n", 0, i) + 1


def line_end(t, i):
    j = t.find("\n", i)
    return len(t) if j < 0 else j


def row_of(t, i):
    return t.count("\n", 0, i)


def norm_count(oa, ma):
    def n1(v):
        if v is None:
            return 1
        return 1 if v >= 1000000 else v
    c = n1(oa) * n1(ma)
    return 1 if c >= 1000000 else c


def fails(text, cur, m, count, has_count=False):
    """independent (Vi manual) notion of 'the motion fails or spans nothing'; None = no opinion"""
    k = m[0]
    ls, le = line_start(text, cur), line_end(text, cur)
    if k == "|":
        return ls + min(count - 1, le - ls) == cur
    if k == "h" or k == "0":
        return cur == ls
    if k in ("l", "$"):
        return cur == le
    if k == "^":
        line = text[ls:le]
        return ls + (len(line) - len(line.lstrip())) == cur
    if k in ("f", "t"):
        return text[cur + 1:le].count(m[1]) < count if cur < le else True
    if k in ("F", "T"):
        return text[ls:cur].count(m[1]) < count
    if k in ("b", "B"):
        return text[:cur].strip() == ""
    if k in ("w", "W"):
        return cur == len(text)
    if k == "j":
        return "\n" not in text[cur:]
    if k == "k":
        return "\n" not in text[:cur]
    if k in ("iw", "iW", "aw", "aW"):
        return True if ls == le else None
    if k in ("ib", "ab"):
        return True if (m[1] not in text or m[2] not in text) else None
    if k in ("iq", "aq"):
        return True if (m[1] not in text[:cur] or m[1] not in text[cur + 1:]) else None
    if k in ("ge", "gE"):
        return True if text[:cur].strip() == "" else None
    if k == "g_":
        return True if ls == le else None
    if k == "%":
        if has_count:
            return None   # N% : jump to a percentage of the file (linewise), never fails
        return True if text[cur:cur + 1] not in tuple("()[]{}<>") or text[cur:cur + 1] == "" else None
    if k in REPEAT:
        if len(m) < 4:
            return True   # no previous f/F/t/T in a fresh state
        backwards = (m[1] in "FT") != (k == ",")
        if backwards:
            return text[ls:cur].count(m[2]) < count
        return text[cur + 1:le].count(m[2]) < count if cur < le else True
    return None


def span_spec(text, cur, m, count, screen=None):
    """(a, b, linewise) the Vi manual gives for the simple motions; None = no opinion.
    Only called when the motion does not fail."""
    k = m[0]
    ls, le = line_start(text, cur), line_end(text, cur)
    if k == "|":
        tgt = ls + min(count - 1, le - ls)
        return (min(cur, tgt), max(cur, tgt), False)
    if k == "h":
        return (max(ls, cur - count), cur, False)
    if k == "l":
        return (cur, min(le, cur + count), False)
    if k == "0":
        return (ls, cur, False)
    if k == "$":
        return (cur, le, False)
    if k in ("f", "t"):
        idx = cur
        for _ in range(count):
            idx = text.index(m[1], idx + 1, le)
        return (cur, idx + 1 if k == "f" else idx, False)
    if k in ("F", "T"):
        idx = cur
        for _ in range(count):
            idx = text.rindex(m[1], ls, idx)
        return (idx if k == "F" else idx + 1, cur, False)
    if k in REPEAT and len(m) == 4:
        # `;` repeats the find in its direction, `,` in the opposite one; a backward repeat is an
        # exclusive motion (up to, not including, the cursor), a forward one includes the target
        backwards = (m[1] in "FT") != (k == ",")
        idx = cur
        for _ in range(count):
            idx = text.rindex(m[2], ls, idx) if backwards else text.index(m[2], idx + 1, le)
        return (idx, cur, False) if backwards else (cur, idx + 1, False)
    if k in LINEWISE:
        row = row_of(text, cur)
        last = text.count("\n")
        if k == "j":
            r1, r2 = row, min(last, row + count)
        elif k == "k":
            r1, r2 = max(0, row - count), row
        elif k == "G":
            r1, r2 = row, last
        elif k in SCREEN:
            # the line the window reports (top / centre / bottom); without a rendered window:
            # the first line for H and M, the last line for L
            tgt = (last if k == "L" else 0) if screen is None else min(last, screen[SCREEN[k]])
            r1, r2 = min(row, tgt), max(row, tgt)
        else:
            tgt = min(last, count - 1)
            r1, r2 = min(row, tgt), max(row, tgt)
        lines = text.split("\n")
        a = sum(len(x) + 1 for x in lines[:r1])
        b = sum(len(x) + 1 for x in lines[:r2 + 1])
        return (a, min(b, len(text)), True)
    return None


TF = {"g?": lambda s: codecs.encode(s, "rot_13"), "gu": str.lower, "gU": str.upper, "g~": str.swapcase,
      "~": str.swapcase}


TEXT_OBJECTS = {"ib", "ab", "iq", "aq", "iw", "iW", "aw", "aW", "ap"}


def removed_spans(text, new, cur, slack=0):
    """all (a, b) with new == text[:a] + text[b:], a <= cur + slack, cur <= b
    (slack = 1 for text objects: `i(` with the cursor on the bracket starts behind it)"""
    k = len(text) - len(new)
    out = []
    if k < 0:
        return out
    # (also: an exclusive motion that ends in column 0 stops at the end of the previous line,
    #  so a backward span may be separated from the cursor by exactly that newline)
    for a in range(max(0, cur - k - 1), min(cur + slack, len(new)) + 1):
        b = a + k
        if text[:a] + text[b:] == new and (b >= cur or (b == cur - 1 and text[b] == "\n" and k > 0)):
            out.append((a, b))
    return out


def vi_fix(text, cur):
    """navigation mode never leaves the cursor behind the last character of a non-empty line
    (KeyProcessor._fix_vi_cursor_position runs after every key handler)"""
    ls, le = line_start(text, cur), line_end(text, cur)
    return cur - 1 if (cur == le and le > ls) else cur


def d_spans(text, cur, d, reg=None):
    """spans (a, b) compatible with a `d` run: new text == text[:a]+text[b:], a <= cur <= b"""
    return removed_spans(text, d["text"], cur)


def check_op(case, op, r, dref, keys=None):
    """violations of the property for one operator run; dref() = result of d + the same motion;
    case["regs0"] = named registers before the run (default: none)"""
    text, clip = case["text"], case["clip"]
    regs0 = {k: tuple(x) for k, x in case.get("regs0", {}).items()}
    oa, name, reg, ma, m = op[0], op[1], op[2], op[3], op[4:]
    # a leading count is a key handler of its own: the cursor is normalised after it
    base = r.get("base_cur", case["cur"])
    cur = vi_fix(text, base) if oa is not None else base
    v = []
    keys = keys or op_keys(op)

    def bad(site, cond, msg):
        v.append({"signature": f"{site} | {cond}",
                  "msg": f"{msg}: text={text!r} cur={case['cur']}(->{cur}) keys={keys!r} -> text={r['text']!r} "
                         f"cur={r['cur']} clip={r['clip']!r} regs={r['regs']!r}"})

    site = {"d": "delete_or_change_operator", "c": "delete_or_change_operator", "y": "yank operator",
            ">": "indent operator", "<": "unindent operator", "gq": "reshape operator"}.get(name, "transform operator")
    if r["err"]:
        bad(site, "exception " + r["err"], "handler raised")
        return v
    if r["pending"]:
        return v  # the key sequence was not a complete operator+motion (e.g. unknown text object)
    nt, nc = r["text"], r["cur"]
    if not (0 <= nc <= len(nt)):
        bad(site, "cursor out of range", "cursor outside 0..len(text)")
    count = norm_count(oa, ma)
    lw = m[0] in LINEWISE or (m[0] == "%" and (oa is not None or ma is not None))
    clip_before = (clip[0], clip[1])
    new_clip = (r["clip"][0], r["clip"][1])
    stored = new_clip if reg is None else r["regs"].get(reg)
    stored_before = clip_before if reg is None else regs0.get(reg)
    others_ok = (r["regs"] == regs0 if reg is None else
                 (new_clip == clip_before and
                  {k: x for k, x in r["regs"].items() if k != reg} == {k: x for k, x in regs0.items() if k != reg}))
    untouched = (new_clip == clip_before and r["regs"] == regs0)

    def cur_ok(expected):
        return nc == expected or (not r["insert"] and nc == vi_fix(nt, expected))

    f = fails(text, cur, m, count, oa is not None or ma is not None)
    if f is True:
        if nt != text or not cur_ok(cur) or not untouched:
            bad(site, "failing motion " + m[0], "the motion fails / spans nothing but the operator changed something")
        return v

    if name == "y":
        if nt != text:
            bad(site, "text edited", "yank changed the text")
        if not others_ok:
            bad(site, "other register touched", "yank wrote to a register it was not asked to")
        return v

    if name in ("d", "c"):
        if not others_ok:
            bad(site, "other register touched", "delete wrote to a register it was not asked to")
        spans = removed_spans(text, nt, cur, 1 if m[0] in TEXT_OBJECTS else 0)
        if m[0] == "gm" and vi_fix(text, cur) == cur and spans and all("\n" in text[a:b] for a, b in spans):
            # `gm` is a motion inside the cursor line; from a navigation-mode cursor (on a character
            # of the line, or on an empty line) its span cannot contain a line break
            bad("gm text object", "the inclusive span runs past the last character of the line",
                "gm never leaves the line, but the operator removed a line break")
            return v
        if not spans:
            bad(site, "not one contiguous span at the cursor", "new text is not text[:a]+text[b:] with a<=cursor<=b")
            return v
        ok = False
        stale = False
        for a, b in spans:
            rem = text[a:b]
            if a == b:
                # (nothing removed; a linewise operator on an empty last line remembers that line)
                if cur_ok(cur) and (untouched or (lw and others_ok and stored == ("", 1))):
                    ok = True
                continue
            if not cur_ok(a):
                continue
            unchanged = (stored is None) or (stored == stored_before)
            at_ls = a == 0 or text[a - 1] == "\n"
            at_le = b == len(text) or text[b - 1] == "\n"
            if lw or (stored is not None and stored[1] == 1):
                # the register holds the removed lines without the newline that terminates the last
                # of them; a span that reaches the end of the text may instead end with a removed
                # EMPTY last line (then the final "\n" is kept)
                exps = [rem[:-1]] if rem.endswith("\n") else [rem]
                if b == len(text) and rem.endswith("\n"):
                    exps.append(rem)
                if (at_ls and at_le and stored is not None and stored[1] == 1 and stored[0] in exps
                        and not (unchanged and stored[0] == "")):
                    ok = True
                elif rem == "\n" and at_ls and unchanged:
                    stale = True
            elif stored is not None and stored == (rem, 0):
                ok = True
        if not ok:
            if stale:
                bad(site, "linewise span is one empty line: register not updated",
                    "a linewise delete removed an empty line but left the register stale")
            else:
                bad(site, "register != removed characters",
                    "register/clipboard does not hold exactly the removed span, or cursor not at its start")
        sp = span_spec(text, cur, m, count, case.get("screen")) if (f is False or m[0] in SCREEN) else None
        if sp is not None:
            a, b, _ = sp
            if nt != text[:a] + text[b:]:
                bad(site, "span of " + m[0], f"removed span differs from the Vi span [{a},{b})")
        return v

    # transform / indent / reshape: the span is what `d` + the same motion removes
    d = dref()
    if d is None or d["err"] or d["pending"]:
        return v
    spans = removed_spans(text, d["text"], cur, 1 if m[0] in TEXT_OBJECTS else 0)
    if not spans:
        return v  # d itself is off; reported at the d run
    if not untouched:
        bad(site, "register touched", "a case/indent operator wrote to a register")
    if spans[0][0] == spans[0][1]:
        if lw and name in (">", "<", "gq"):
            # a linewise span that holds no character is the (empty) line of the cursor
            row = row_of(text, cur)
            lines, nlines = text.split("\n"), nt.split("\n")
            if name != "gq" and (len(lines) != len(nlines) or
                                 any(l0 != l1 for i, (l0, l1) in enumerate(zip(lines, nlines)) if i != row)):
                bad(site, "outside span changed", f"a line other than the cursor line {row} changed")
            return v
        if nt != text or not cur_ok(cur):
            bad(site, "empty span", "the motion spans nothing but the operator changed text or cursor")
        return v
    problems = []
    for a, b in spans:
        p = frame_problem(name, text, nt, a, b, lw, count)
        if p is None:
            return v
        problems.append(p)
    bad(site, problems[0][0], problems[0][1])
    return v


def check_move(case, op, r, mvr):
    """`d<motion>` removes the text between the cursor and the place where the same motion,
    typed alone, puts the cursor (observe_at: 'the cursor movement of the same motion typed
    alone'); +-1 for inclusive motions, the column-0 rule and the navigation-mode cursor fix."""
    if mvr is None or mvr["err"] or r["err"] or r["pending"] or op[4] in LINEWISE:
        return []
    if op[4] == "%" and op[3] is not None:
        return []   # N% is a linewise jump to a percentage of the file
    text, cur = case["text"], r.get("base_cur", case["cur"])
    if vi_fix(text, cur) != cur:
        return []   # not a navigation-mode cursor: the key processor moves it after the motion / count key
    p = mvr["cur"]
    spans = removed_spans(text, r["text"], cur)
    ok = False
    for a, b in spans:
        if a == b:
            ok = ok or abs(p - cur) <= 1
        elif a >= cur:
            ok = ok or abs(b - p) <= 1
        else:
            ok = ok or (abs(a - p) <= 1 and b <= cur + 1)   # (backward inclusive: + the cursor char)
    if spans and not ok:
        return [{"signature": "delete_or_change_operator | span differs from the motion typed alone",
                 "msg": f"text={text!r} cur={cur} keys={op_keys(op)!r} -> text={r['text']!r}; the motion alone moves the cursor to {p}"}]
    return []


def frame_problem(name, text, nt, a, b, lw, count):
    """None when `nt` differs from `text` only inside the span [a, b) (its lines for > < gq)"""
    if name in TF:
        tail = len(text) - b
        if nt[:a] != text[:a] or (tail and nt[-tail:] != text[b:]) or len(nt) < a + tail:
            return ("outside span changed", f"characters outside [{a},{b}) changed")
        if nt[a:len(nt) - tail] != TF[name](text[a:b]):
            return ("inside span", f"text[{a}:{b}] is not the transformed span")
        return None
    # > < gq : lines outside the rows of the span are unchanged
    r1 = row_of(text, a)
    r2req = row_of(text, b - 1)
    # (a linewise span that reaches the end of the text may include an empty last line that
    #  contributes no character)
    r2 = row_of(text, b) if (not lw or b == len(text)) else r2req
    lines, nlines = text.split("\n"), nt.split("\n")
    if name == "gq":
        head, tail = lines[:r1], lines[r2 + 1:]
        if nlines[:len(head)] != head or (tail and nlines[-len(tail):] != tail):
            return ("outside span changed", f"lines outside rows {r1}..{r2} changed")
        return None
    if len(lines) != len(nlines):
        return ("line count", "indent changed the number of lines")
    ic = "    " * count
    for i, (l0, l1) in enumerate(zip(lines, nlines)):
        inside = r1 <= i <= r2
        required = r1 <= i <= r2req
        if not inside:
            if l0 != l1:
                return ("outside span changed", f"line {i} outside rows {r1}..{r2} changed")
        elif name == ">":
            if l1 != ic + l0 and (required or l1 != l0):
                return ("inside span", f"line {i} is not indent+line")
        else:
            if not l0.endswith(l1) or l0[:len(l0) - len(l1)].strip() != "":
                return ("inside span", f"unindent removed non-blank characters on line {i}")
    return None


def oracle_raw(case):
    """TextObject called directly: the documented contract of operator_range ('a (start, end)
    tuple with start <= end'), and cut() removes exactly what it returns"""
    v = []
    ed = get_editor()
    text, cur = case["text"], case["cur"]
    for s, e, ty in case["tos"]:
        ed.buffer.reset(Document(text, cur))
        to = TextObject(s, e, _TYPES[ty])
        a, b = to.operator_range(ed.buffer.document)
        if a > b:
            v.append({"signature": "TextObject.operator_range | start > end",
                      "msg": f"text={text!r} cur={cur} TextObject({s},{e},{_TYPES[ty].name}).operator_range -> ({a},{b})"})
        if not (0 <= cur + a and cur + b <= len(text) + 1):
            v.append({"signature": "TextObject.operator_range | outside the text",
                      "msg": f"text={text!r} cur={cur} TextObject({s},{e},{_TYPES[ty].name}).operator_range -> ({a},{b})"})
        try:
            nd, cd = to.cut(ed.buffer)
        except AssertionError as ex:
            v.append({"signature": "TextObject.cut | AssertionError",
                      "msg": f"text={text!r} cur={cur} TextObject({s},{e},{_TYPES[ty].name}).cut raised {ex}"})
            continue
        k = len(text) - len(nd.text)
        p = nd.cursor_position
        removed = text[p:p + k]
        ok = k >= 0 and text[:p] + text[p + k:] == nd.text and (
            cd.text == removed or (ty == 2 and removed.endswith("\n") and cd.text == removed[:-1]))
        if not ok:
            v.append({"signature": "TextObject.cut | clipboard != removed text",
                      "msg": f"text={text!r} cur={cur} TextObject({s},{e},{_TYPES[ty].name}).cut -> {nd.text!r},{p} clip={cd.text!r}"})
    seen, out = set(), []
    for x in v:
        if x["signature"] not in seen:
            seen.add(x["signature"])
            out.append(x)
    return out


def is_reg_name(ch):
    return len(ch) == 1 and (ch in "abcdefghijklmnopqrstuvwxyz" or ch in "0123456789")


def check_bad_register(case, op, r, keys=None, regs0=None):
    """`"X<operator><motion>` with a register name that does not exist: whatever is removed from
    the text must be kept somewhere (the property: 'places exactly the removed characters in the
    register'); a yank must not edit"""
    if r["err"] or r["pending"]:
        return []
    text, nt = case["text"], r["text"]
    regs0 = regs0 or {}
    keys = keys or op_keys(op)
    if op[1] == "y":
        if nt != text:
            return [{"signature": "yank operator | text edited",
                     "msg": f"text={text!r} cur={case['cur']} keys={keys!r} -> text={nt!r}"}]
        return []
    if nt != text and (r["clip"][0], r["clip"][1]) == tuple(case["clip"]) and \
            {k: tuple(x) for k, x in r["regs"].items()} == {k: tuple(x) for k, x in regs0.items()}:
        return [{"signature": "delete_or_change_operator | unknown register name: the removed text is stored nowhere",
                 "msg": f"text={text!r} cur={case['cur']} keys={keys!r} -> text={nt!r} clip={r['clip']!r} regs={r['regs']!r}"}]
    return []


def oracle(case):
    if case["k"] == "sess":
        return oracle_sess(case)
    if case["k"] == "vis":
        return oracle_vis(case)
    if case["k"] == "srch":
        return oracle_srch(case)
    if case["k"] != "e2e":
        return oracle_raw(case)
    res = run_case(case)
    dcache = {}
    v = []
    for op, (r, mvr) in zip(case["ops"], res):
        if op[2] is not None and not is_reg_name(op[2]):
            v += check_bad_register(case, op, r)
            continue

        def dref(op=op):
            key = (op[0], op[3], tuple(op[4:]))
            if key not in dcache:
                dop = [op[0], "d", None, op[3]] + op[4:]
                hit = None
                for o2, (r2, _) in zip(case["ops"], res):
                    if o2 == dop:
                        hit = r2
                        break
                if hit is None:
                    hit = drive(case["text"], case["cur"], case["clip"], op_keys(dop), screen=case.get("screen"))
                dcache[key] = hit
            return dcache[key]

        v += check_op(case, op, r, dref)
        v += check_move(case, op, r, mvr)
        # the motion typed alone lands where the text object starts: inside the text
        if mvr is not None and not mvr["err"]:
            if mvr["text"] != case["text"] or not (0 <= mvr["cur"] <= len(case["text"])):
                v.append({"signature": "move handler | text changed or cursor out of range",
                          "msg": f"text={case['text']!r} cur={case['cur']} keys={motion_keys(op[4:])!r} -> {mvr}"})
    seen, out = set(), []
    for x in v:
        if x["signature"] not in seen:
            seen.add(x["signature"])
            out.append(x)
    return out


# ------------------------------------------------------------------ sessions (several commands, one ViState)
# a session case: {"k": "sess", "text", "cur", "clip", "lf": None|[c, bw], "mode": "nav"|"ins"|"tmp",
#                  "flush": 0|1, "ops": [group, ...]}
# groups:  ["cmd", opArg, opName, reg, motArg, *motion]   a whole  [count]["x]operator[count]motion
#          ["o", opName, reg]      the operator key sequence alone
#          ["mv", motArg, *motion] [count] text-object keys (a movement, or the text object of a pending operator)
#          ["n", int]              count digits alone
#          ["esc"] ["co"] ["Z"]    Escape, c-o, a key without binding
#          ["ins", str]            printable text (insert mode)
# flush = 1: a flush (what the `timeoutlen` timer does) follows every group, so that the handler of
# an operator key that is also a prefix of a longer binding (d of dd, gu of guu) has run and the
# whole ViState can be compared after every group; flush = 0: natural typing, the internal state is
# compared after the final flush only.
PREFIX_OPS = {"d", "c", "y", ">", "<", "gu", "gU", "g~"}   # operator keys that start a longer binding


def group_keys(g):
    k = g[0]
    if k == "cmd":
        return op_keys(g[1:])
    if k == "o":
        return ('"' + g[2] if g[2] is not None else "") + g[1]
    if k == "mv":
        return ("" if g[1] is None else str(g[1])) + motion_keys(g[2:])
    if k == "n":
        return str(g[1])
    if k == "esc":
        return "\x1b"
    if k == "co":
        return "\x0f"
    if k == "Z":
        return "Z"
    if k == "ins":
        return g[1]
    if k == "dbl":
        return ("" if g[1] is None else str(g[1])) + g[2]
    raise ValueError(g)


def digit_pieces(n):
    return [] if n is None else [f"D {d}" for d in str(n)]


def group_pieces(g, scr=None):
    """model keys of a group (driver tokens, one piece per key binding)"""
    k = g[0]
    if k == "cmd":
        oa, name, reg, ma, m = g[1], g[2], g[3], g[4], g[5:]
        return (digit_pieces(oa) + [f"O {name} {opt(None if reg is None else ord(reg))}"] + digit_pieces(ma)
                + ["M " + motion_tokens(m, scr)])
    if k == "o":
        return [f"O {g[1]} {opt(None if g[2] is None else ord(g[2]))}"]
    if k == "mv":
        return digit_pieces(g[1]) + ["M " + motion_tokens(g[2:], scr)]
    if k == "n":
        return digit_pieces(g[1])
    if k == "dbl":
        return digit_pieces(g[1]) + ["B " + g[2]]
    return {"esc": ["E"], "co": ["C"], "Z": ["U"]}.get(k) or ["T " + enc_str(g[1])]


def track(case):
    """which groups the key model covers, decided from the key grammar alone (used to keep generated
    and shrunk sessions inside the modelled key set): returns False when some group is typed in a
    state where it means something else (`iw` without operator = `i` + `w`, text in navigation
    mode, an operator key in insert mode, `dd`)."""
    mode, pend, arg, last = case.get("mode", "nav"), None, False, None
    for g in case["ops"]:
        k = g[0]
        if k in ("cmd", "o"):
            name, reg = (g[2], g[3]) if k == "cmd" else (g[1], g[2])
            if name in ("gq", "~") or (k == "cmd" and is_extra(g[1:])):   # (`~` needs tilde_operator)
                return False
            if pend or mode == "ins":
                if not (pend and k == "o" and reg is None):
                    return False
                if not case.get("flush") and last is not None and last[0] == "o" and last[2] is None \
                        and last[1] in PREFIX_OPS:
                    return False   # typed without a pause, `d` `d` is the binding `dd`
                arg = False        # _unknown_text_object: the count is consumed
            else:
                # (46db376: `"Xc` with a name that is no register does nothing, also no insert mode)
                pend, arg = (name if (name != "c" or reg is None or is_reg_name(reg)) else "c-noop"), False
        if k in ("cmd", "mv"):
            m = g[5:] if k == "cmd" else g[2:]
            cnt = g[4] if k == "cmd" else g[1]
            if m[0] in EXTRA_MOTIONS or (m[0] in REPEAT and len(m) != 1):
                return False
            if m[0] == "0" and (cnt is not None or arg):
                return False       # `0` after digits is one more digit
            if m[0] == "G" and (cnt is not None or arg or (k == "cmd" and g[1] is not None)):
                return False       # <count>G is go-to-history-line
            if pend:
                mode = "ins" if (pend == "c" or mode in ("tmp", "ins")) else "nav"
                pend = None
            else:
                if mode == "ins" or m[0] in NO_MOVE:
                    return False
                if mode == "tmp":
                    mode = "ins"
            arg = False
        elif k == "n":
            if mode == "ins" and not pend:
                return False
            arg = True
        elif k == "esc":
            mode, pend, arg = "nav", None, False
        elif k == "co":
            if not pend:
                mode = {"ins": "tmp", "tmp": "ins", "nav": "nav"}[mode]
            arg = False
        elif k == "Z":
            if pend:
                arg = False
            elif mode == "ins":
                return False
        elif k == "ins":
            if pend or mode != "ins":
                return False
        elif k == "dbl":
            if mode == "ins" and not pend:
                return False
            if pend and not case.get("flush") and last is not None and last[0] == "o" and last[2] is None \
                    and last[1] in PREFIX_OPS:
                return False
            if not pend and mode == "tmp":
                mode = "ins"
            arg = False
        last = g
    return True


def sess_model_line(case):
    lf = case.get("lf")
    mode = case.get("mode", "nav")
    head = (f"sess {1 if case.get('flush') else 0} {enc_str(case['text'])} {case['cur']} "
            f"{enc_str(case['clip'][0])} {case['clip'][1]} "
            + ("N 0" if lf is None else f"{ord(lf[0])} {1 if lf[1] else 0}")
            + f" {0 if mode == 'nav' else 1} {1 if mode == 'tmp' else 0}")
    pieces = []
    for g in case["ops"]:
        pieces += group_pieces(g, case.get("screen")) + ["."]
    pieces.append(".")
    return head + " / " + " / ".join(pieces)


def sess_state(r, full):
    if r["err"]:
        return "err"
    s = st_line(r)
    if full:
        lf = r["lf"]
        s += (f" P{1 if r['pending'] else 0} {opt(r['oparg'])} {opt(r['arg'])} {1 if r['tmp'] else 0} "
              + ("N" if lf is None else f"{ord(lf[0])}:{lf[1]}"))
    return s


_SCACHE = {"case": None, "res": None}


def run_session(case):
    """the session on the real editor: the state after every group + after the final flush"""
    if _SCACHE["case"] is case:
        return _SCACHE["res"]
    ed, app, vs = setup(case["text"], case["cur"], case["clip"], lf=case.get("lf"), mode=case.get("mode", "nav"),
                        screen=case.get("screen"))
    snaps = [snap(ed, app, vs)]
    err = None
    for g in case["ops"]:
        if err is None:
            try:
                ed.feed(group_keys(g))
                if case.get("flush"):
                    ed.flush()
            except Exception as e:
                err = type(e).__name__
                app.key_processor.reset()
        snaps.append(snap(ed, app, vs, err))
    if err is None:
        try:
            ed.flush()
        except Exception as e:
            err = type(e).__name__
            app.key_processor.reset()
    snaps.append(snap(ed, app, vs, err))
    _SCACHE["case"], _SCACHE["res"] = case, snaps
    return snaps


def drive_groups(text, cur, clip, groups, flush, regs=None, lf=None, mode="nav", screen=None):
    """the key groups typed into a fresh editor in the given state, with the same flush discipline
    as a session (flush after every group, or only at the end)"""
    ed, app, vs = setup(text, cur, clip, False, regs, lf, mode, screen)
    err = None
    try:
        for g in groups:
            ed.feed(group_keys(g))
            if flush:
                ed.flush()
        ed.flush()
    except Exception as e:
        err = type(e).__name__
        app.key_processor.reset()
    return snap(ed, app, vs, err)


def sess_impl_line(case):
    snaps = run_session(case)
    full = bool(case.get("flush"))
    out = [sess_state(r, full) for r in snaps[1:-1]] + [sess_state(snaps[-1], True)]
    return " | ".join(out)


def quiescent(r):
    return not r["err"] and not r["pending"] and r["arg"] is None and r["kbuf"] == 0


def snap_mode(r):
    return "tmp" if r["tmp"] else ("ins" if r["insert"] else "nav")


def same_visible(a, b):
    return all(a[k] == b[k] for k in ("text", "cur", "clip", "regs", "insert", "tmp", "pending", "err"))


def check_double(before, g, after, keys):
    """`N>>` `N<<`: only the lines [row, row + N) change (one indent unit); `guu` `gUU` `g~~`: only
    the cursor line changes, into its image; clipboard and registers untouched"""
    text, cur, nt = before["text"], before["cur"], after["text"]
    count = 1 if g[1] is None or g[1] >= 1000000 else g[1]
    v = []

    def bad(cond, msg):
        v.append({"signature": f"doubled operator {g[2]} | {cond}",
                  "msg": f"{msg}: text={text!r} cur={cur} keys={keys!r} -> text={nt!r} cur={after['cur']}"})

    if after["clip"] != before["clip"] or after["regs"] != before["regs"]:
        bad("register touched", "a case/indent command wrote to a register")
    row = row_of(text, cur)
    lines, nlines = text.split("\n"), nt.split("\n")
    if len(lines) != len(nlines):
        bad("line count", "the number of lines changed")
        return v
    for i, (l0, l1) in enumerate(zip(lines, nlines)):
        if g[2] in (">>", "<<"):
            inside = row <= i < row + count
        else:
            inside = i == row
        if not inside:
            if l0 != l1:
                bad("outside span changed", f"line {i} outside the addressed lines changed")
                break
        elif g[2] == ">>":
            if l1 != "    " + l0:
                bad("inside span", f"line {i} is not indent+line")
                break
        elif g[2] == "<<":
            if not l0.endswith(l1) or l0[:len(l0) - len(l1)].strip() != "":
                bad("inside span", f"unindent removed non-blank characters on line {i}")
                break
        elif l1 != TF[{"guu": "gu", "gUU": "gU", "g~~": "g~"}[g[2]]](l0):
            bad("inside span", f"line {i} is not the transformed line")
            break
    return v


def oracle_sess(case):
    """the property over one session on the real editor, no model involved:
      (1) history independence: the keys typed between two points where no operator is pending and
          no count has been started do to the buffer exactly what the same keys do when typed into
          a fresh editor holding the same text, cursor, clipboard, registers, last character find
          and mode (the span of an operator is a function of the document and the command's own
          counts and motion, not of earlier commands);
      (2) every whole `[count]["x]operator[count]motion` group that starts at such a point satisfies
          the single-command property (check_op) with respect to the state it started from.
    (That Escape / a completed or failed text object leave no operator and no count behind is
    internal state: compared with the model in the correspondence, visible here through (1).)"""
    if not track(case):
        return []
    snaps = run_session(case)
    groups = case["ops"]
    v = []
    if any(r["err"] for r in snaps):
        r = next(r for r in snaps if r["err"])
        return [{"signature": "vi session | exception " + r["err"],
                 "msg": f"text={case['text']!r} cur={case['cur']} keys={[group_keys(g) for g in groups]!r} raised {r['err']}"}]
    # (1) and (2): segments between quiescent points
    start = 0
    for i in range(len(groups)):
        end_snap = snaps[i + 1] if i + 1 < len(groups) else snaps[-1]
        if not quiescent(end_snap):
            continue
        seg = groups[start:i + 1]
        before = snaps[start]
        start0, start = start, i + 1
        keys = "".join(group_keys(g) for g in seg)
        regs0 = dict(before["regs"])
        clip0 = [before["clip"][0], before["clip"][1]]
        if start0 > 0:
            fresh = drive_groups(before["text"], before["cur"], clip0, seg, bool(case.get("flush")), regs=regs0,
                                 lf=before["lf"], mode=snap_mode(before), screen=case.get("screen"))
            if not same_visible(fresh, end_snap):
                v.append({"signature": "vi session | the result depends on earlier commands",
                          "msg": f"text={before['text']!r} cur={before['cur']} keys={keys!r} typed after "
                                 f"{[group_keys(g) for g in groups[:start0]]!r} -> text={end_snap['text']!r} cur={end_snap['cur']} "
                                 f"clip={end_snap['clip']!r} regs={end_snap['regs']!r}; the same keys in a fresh editor with the same "
                                 f"text, cursor and registers -> text={fresh['text']!r} cur={fresh['cur']} clip={fresh['clip']!r} "
                                 f"regs={fresh['regs']!r}"})
        if len(seg) == 1 and seg[0][0] == "dbl" and snap_mode(before) == "nav":
            v += check_double(before, seg[0], end_snap, keys)
        if len(seg) == 1 and seg[0][0] == "cmd" and snap_mode(before) == "nav":
            op = list(seg[0][1:])
            m = op[4:]
            if m[0] in REPEAT and before["lf"] is not None:
                # the last character find as the single-command checks name it: [;|, f|F c count]
                op = op[:4] + [m[0], "F" if before["lf"][1] else "f", before["lf"][0], None]
            elif m[0] in REPEAT:
                op = op[:4] + [m[0]]
            if op[2] is not None and not is_reg_name(op[2]):
                v += check_bad_register({"text": before["text"], "cur": before["cur"], "clip": clip0}, op, end_snap,
                                        keys=keys, regs0=regs0)
                continue
            pc = {"text": before["text"], "cur": before["cur"], "clip": clip0, "regs0": regs0,
                  "screen": case.get("screen")}
            r = dict(end_snap, base_cur=before["cur"])

            def dref(op=op, before=before, clip0=clip0, regs0=regs0):
                dop = [op[0], "d", None, op[3]] + list(seg[0][5:])
                return drive(before["text"], before["cur"], clip0, op_keys(dop), regs=regs0, lf=before["lf"],
                             screen=case.get("screen"))

            v += check_op(pc, op, r, dref, keys=keys)
    seen, out = set(), []
    for x in v:
        if x["signature"] not in seen:
            seen.add(x["signature"])
            out.append(x)
    return out


# ------------------------------------------------------------------ visual mode (one excursion)
# {"k": "vis", "text", "cur", "clip", "lf", "screen", "ty": 0|1|2 (v / V / c-v),
#  "ops": [["mv", count|None, *motion] | ["j"|"k", count|None] ..., ["op", count|None, name, reg] | ["esc"]]}
VIS_ENTER = ["v", "V", "\x16"]
SEL_TYPES = {SelectionType.CHARACTERS: 0, SelectionType.LINES: 1, SelectionType.BLOCK: 2}


def vis_split(case):
    """(moves, terminal) ; a missing terminal counts as Escape; None when malformed"""
    ops = case["ops"]
    term = ["esc"]
    moves = ops
    if ops and ops[-1][0] in ("op", "esc"):
        term, moves = ops[-1], ops[:-1]
    for g in moves:
        if g[0] not in ("mv", "j", "k"):
            return None
        if g[0] == "mv":
            m = g[2:]
            if m[0] in ("j", "k") or (m[0] in REPEAT and len(m) != 1):
                return None
            if m[0] in ("0", "G") and g[1] is not None:
                return None
    if term[0] == "op" and term[2] in ("gq", "~"):
        return None
    return moves, term


def vis_move_keys(g):
    cnt = "" if g[1] is None else str(g[1])
    return cnt + (g[0] if g[0] in ("j", "k") else motion_keys(g[2:]))


def vis_term_keys(term):
    if term[0] == "esc":
        return "\x1b"
    return ("" if term[1] is None else str(term[1])) + ('"' + term[3] if term[3] is not None else "") + term[2]


def vis_model_line(case):
    moves, term = vis_split(case)
    lf = case.get("lf")
    head = (f"vis {enc_str(case['text'])} {case['cur']} {enc_str(case['clip'][0])} {case['clip'][1]} "
            + ("N 0" if lf is None else f"{ord(lf[0])} {1 if lf[1] else 0}") + f" {case['ty']}")
    pieces = []
    for g in moves:
        pieces += digit_pieces(g[1])
        pieces.append("J" if g[0] == "j" else "K" if g[0] == "k" else "M " + motion_tokens(g[2:], case.get("screen")))
    if term[0] == "esc":
        pieces.append("E")
    else:
        pieces += digit_pieces(term[1])
        pieces.append(f"O {term[2]} {opt(None if term[3] is None else ord(term[3]))}")
    return head + " / " + " / ".join(pieces)


_VCACHE = {"case": None, "res": None}


def run_vis(case):
    """(state just before the terminal key incl. the selection, state after it)"""
    if _VCACHE["case"] is case:
        return _VCACHE["res"]
    moves, term = vis_split(case)
    ed, app, vs = setup(case["text"], case["cur"], case["clip"], lf=case.get("lf"), screen=case.get("screen"))
    err = None
    mid = after = None
    try:
        ed.feed(VIS_ENTER[case["ty"]])
        for g in moves:
            ed.feed(vis_move_keys(g))
        sel = ed.buffer.selection_state
        mid = snap(ed, app, vs)
        mid["sel"] = None if sel is None else (sel.original_cursor_position, SEL_TYPES[sel.type])
        ed.feed(vis_term_keys(term))
        ed.flush()
    except Exception as e:
        err = type(e).__name__
        app.key_processor.reset()
        ed.buffer.exit_selection()
    after = snap(ed, app, vs, err)
    after["sel"] = ed.buffer.selection_state is not None
    ed.buffer.exit_selection()
    _VCACHE["case"], _VCACHE["res"] = case, (mid, after)
    return mid, after


def clip3(cd):
    return (cd[0], {"CHARACTERS": 0, "LINES": 1, "BLOCK": 2}[cd[2]])


def vis_impl_line(case):
    mid, r = run_vis(case)
    if r["err"]:
        return "err"
    ed = get_editor()
    regs = sorted(ed.app.vi_state.named_registers.items())
    items = [f"{ord(k)} {enc_str(v.text)} {SEL_TYPES[v.type]}" for k, v in regs]
    c = clip3(r["clip"])
    return (f"{enc_str(r['text'])} {r['cur']} {enc_str(c[0])} {c[1]} "
            + " ".join([str(len(items))] + items) + f" {1 if r['insert'] else 0} S{1 if r['sel'] else 0}")


def selection_spans(text, cur, orig, ty):
    """the character ranges a Vi selection covers (independent of the code under test):
    CHARACTERS: both ends included; LINES: whole lines; BLOCK: the columns between the corners,
    both included, on every row of the block that is long enough"""
    a, b = min(cur, orig), max(cur, orig)
    if ty == 0:
        return [(a, min(b + 1, len(text)))]
    if ty == 1:
        return [(line_start(text, a), line_end(text, b))]
    r1, r2 = row_of(text, a), row_of(text, b)
    c1, c2 = sorted([a - line_start(text, a), b - line_start(text, b)])
    out = []
    start = 0
    for i, line in enumerate(text.split("\n")):
        if r1 <= i <= r2 and c1 <= len(line):
            out.append((start + c1, start + min(len(line), c2 + 1)))
        start += len(line) + 1
    return out


def oracle_vis(case):
    """an operator in visual mode acts on exactly the selected characters: y / d / c store the
    selection (LINES: the lines without the final newline; BLOCK: the row pieces joined by newlines,
    type BLOCK) and d / c remove exactly it; case operators change nothing outside the selection
    (BLOCK: outside the range between its corners -- the code transforms that whole range, see the
    observation in the report) and indent operators nothing outside its rows; afterwards no
    selection is left. Escape changes nothing but the cursor."""
    sp = vis_split(case)
    if sp is None:
        return []
    moves, term = sp
    mid, r = run_vis(case)
    keys = VIS_ENTER[case["ty"]] + "".join(vis_move_keys(g) for g in moves) + vis_term_keys(term)
    v = []

    def bad(site, cond, msg):
        v.append({"signature": f"{site} | {cond}",
                  "msg": f"{msg}: text={case['text']!r} cur={case['cur']} keys={keys!r} selection={mid and mid.get('sel')} "
                         f"cursor={mid and mid['cur']} -> text={r['text']!r} cur={r['cur']} clip={r['clip']!r} regs={r['regs']!r}"})

    if r["err"]:
        bad("visual mode", "exception " + r["err"], "handler raised")
        return v
    if mid is None or mid["sel"] is None:
        return v
    text = case["text"]
    if mid["text"] != text:
        bad("visual mode", "movement edited the text", "a movement in selection mode changed the text")
        return v
    if r["sel"]:
        bad("visual mode", "selection still active", "the selection survived the operator / Escape")
    clip_before = (mid["clip"][0], mid["clip"][1])
    if term[0] == "esc":
        if r["text"] != text or clip3(r["clip"]) != clip3(mid["clip"]) or r["regs"] != mid["regs"]:
            bad("visual mode", "Escape changed something", "Escape changed text or registers")
        return v
    name, reg = term[2], term[3]
    orig, ty = mid["sel"]
    spans = selection_spans(text, mid["cur"], orig, ty)
    sel_text = "\n".join(text[a:b] for a, b in spans) if ty == 2 else "".join(text[a:b] for a, b in spans)
    removed = text
    for a, b in reversed(spans):
        removed = removed[:a] + removed[b:]
    if ty == 1:
        # whole lines: the newline that ends the last selected line goes with them (or, at the
        # end of the text, the one before the first)
        a, b = spans[0]
        if b < len(text):
            removed = text[:a] + text[b + 1:]
        else:
            removed = text[:a]
    site = "visual " + {"d": "delete", "c": "change", "y": "yank"}.get(name, name)
    new_clip = clip3(r["clip"])
    if name in ("d", "c", "y"):
        if reg is not None and not is_reg_name(reg):
            return v      # (unknown register names: the known finding of navigation mode)
        # (named registers are snapshot as (text, LINES?); the clipboard with its full type)
        stored = new_clip if reg is None else r["regs"].get(reg)
        if sel_text == "" and ty != 1:
            pass    # nothing selected (block beyond the line ends): nothing is stored
        elif stored is None or stored[0] != sel_text or (reg is None and stored[1] != ty) or \
                (reg is not None and stored[1] != (1 if ty == 1 else 0)):
            bad(site, "register != selected characters", "the register does not hold exactly the selection")
        if name == "y":
            if r["text"] != text:
                bad(site, "text edited", "yank changed the text")
        else:
            if r["text"] != removed:
                bad(site, "removed != selection", "the text is not the old text minus the selection")
        return v
    if new_clip != clip3(mid["clip"]) or r["regs"] != mid["regs"]:
        bad(site, "register touched", "a case/indent operator wrote to a register")
    nt = r["text"]
    if name in TF:
        if ty == 2:
            want = text
            for a, b in spans:
                want = want[:a] + TF[name](want[a:b]) + want[b:]
            a, b = min(mid["cur"], orig), min(max(mid["cur"], orig) + 1, len(text))
            if nt != want:
                if nt == text[:a] + TF[name](text[a:b]) + text[b:]:
                    bad("visual block case operator", "characters between the corners outside the block are transformed",
                        "the whole range between the corners of the block was transformed")
                else:
                    bad(site, "outside span changed", "the text is not the old text with the block transformed")
            return v
        a, b = spans[0]
        b = min(b, len(text))
        tail = len(text) - b
        if nt[:a] != text[:a] or (tail and nt[-tail:] != text[b:]) or len(nt) < a + tail:
            bad(site, "outside span changed", f"characters outside the selection [{a},{b}) changed")
        elif nt[a:len(nt) - tail] != TF[name](text[a:b]):
            bad(site, "inside span", "the selection is not the transformed selection")
        return v
    # > <
    if ty != 1 and min(mid["cur"], orig) >= len(text):
        # the selection holds no character (cursor behind the last character): nothing happens
        if nt != text:
            bad(site, "empty span", "the selection holds no character but the text changed")
        return v
    r1, r2 = row_of(text, min(mid["cur"], orig)), row_of(text, max(mid["cur"], orig))
    lines, nlines = text.split("\n"), nt.split("\n")
    if len(lines) != len(nlines):
        bad(site, "line count", "indent changed the number of lines")
        return v
    cnt = 1 if term[1] is None or term[1] >= 1000000 else term[1]
    bmax = max(mid["cur"], orig)
    for i, (l0, l1) in enumerate(zip(lines, nlines)):
        if not (r1 <= i <= r2):
            if l0 != l1:
                if ty != 1 and i == r2 + 1 and text[bmax:bmax + 1] == "\n":
                    bad("visual indent", "the selection ends on a line break: the following line is indented too",
                        f"line {i} below the selected rows {r1}..{r2} changed")
                else:
                    bad(site, "outside span changed", f"line {i} outside the selected rows {r1}..{r2} changed")
                break
        elif name == ">":
            if l1 != "    " * cnt + l0:
                bad(site, "inside span", f"line {i} is not indent+line")
                break
        elif not l0.endswith(l1) or l0[:len(l0) - len(l1)].strip() != "":
            bad(site, "inside span", f"unindent removed non-blank characters on line {i}")
            break
    return v


# ------------------------------------------------------------------ length-changing case mappings
# 'ß'.upper() == 'SS', 'ﬁ'.upper() == 'FI', 'ǰ'.upper() == 'J̌', 'İ'.lower() == 'i̇': the transformed span is
# longer than the span (Buffer.transform_region must take the tail from `to`, not from the new length)
UNI_TEXTS = ["straße und weg", "maße\nzweite zeile\n", "ﬁn aﬁ b\nc", "İİ x\ny", "aǰ ǰb c", "ßß", "ß\nß\nab", "aİßﬁǰ b c"]
UNI_MOTIONS = [["e"], ["E"], ["$"], ["w"], ["l"], ["iw"], ["aw"], ["j"], ["b"], ["0"], ["f", " "], ["t", "b"]]


def uni_cases(tier, rng):
    tf_ops = ["gU", "gu", "g~", "g?"]
    for text in UNI_TEXTS:
        curs = range(len(text) + 1) if tier != "quick" else sorted({0, 1, 2, len(text) // 2, max(0, len(text) - 2)})
        for cur in curs:
            ops = []
            for name in tf_ops:
                for m in UNI_MOTIONS:
                    ops.append([None, name, None, None] + m)
                ops.append([None, name, None, 2, "l"])
                ops.append([2, name, None, None, "w"])
            ops.append([None, "d", None, None, "e"])
            yield {"k": "e2e", "text": text, "cur": cur, "clip": ["zz", 0], "screen": None, "ops": ops}
    for _ in range(60 if tier == "quick" else 1500):
        text = "".join(rng.choice(["ß", "ﬁ", "İ", "ǰ", "a", "B", " ", " ", "\n", "."]) for _ in range(rng.randrange(1, 14)))
        cur = rng.randrange(0, len(text) + 1)
        ops = []
        for _ in range(8):
            op = rand_op(rng)
            while is_extra(op) or op[1] == "gq":
                op = rand_op(rng)
            if rng.randrange(3):
                op[1] = rng.choice(tf_ops + ["~"])
                op[2] = None
            ops.append(op)
        yield {"k": "e2e", "text": text, "cur": cur, "clip": ["zz", 0], "screen": None, "ops": ops}


# ------------------------------------------------------------------ operator + n / N (search motion, history loaded)
# {"k": "srch", "hist": [older, ..., newer], "text", "cur", "pat", "ops": [[opArg, name, reg, motArg, "n"|"N"], ...]}
# oracle only (n / N are not in the Lean model): the count-th match of the walk "rest of the edited text,
# then the other history entries in order, then around" must lie in the edited text, else the motion fails
# and the operator changes nothing; if it does, the span is exactly cursor .. match.
def srch_setup(case):
    from collections import deque
    ed, app, vs = setup(case["text"], case["cur"], case.get("clip", ["zz", 0]))
    buf = ed.buffer
    buf._working_lines = deque(list(case["hist"]) + [case["text"]])
    buf._Buffer__working_index = len(case["hist"])
    st = app.current_search_state
    st.text = case["pat"]
    from prompt_toolkit.search import SearchDirection
    st.direction = SearchDirection.FORWARD
    return ed, app, vs


def srch_run(case, op):
    ed, app, vs = srch_setup(case)
    err = None
    try:
        ed.feed(op_keys(op))
        ed.flush()
    except Exception as e:
        err = type(e).__name__
        app.key_processor.reset()
    r = snap(ed, app, vs, err)
    r["widx"] = ed.buffer.working_index
    ed.buffer.reset(Document("", 0))
    return r


def nth_match(lines, wi, cur, pat, count, forward):
    """reference walk of a repeated search: (entry index, position) of the count-th match or None"""
    idx, pos, n = wi, cur, len(lines)
    for _ in range(count):
        t = lines[idx]
        p = t.find(pat, pos + 1) if forward else (t.rfind(pat, 0, pos) if pos >= len(pat) else -1)
        if not forward and p >= 0 and p + len(pat) > pos:
            p = t.rfind(pat, 0, max(0, pos - len(pat)) + len(pat))
            if p >= 0 and p + len(pat) > pos:
                p = -1
        if p >= 0:
            pos = p
            continue
        found = None
        # the entries behind (before) this one, then the first (last) entry once more: with a single
        # entry that is the wrap-around inside the text
        order = [i % n for i in range(idx + 1, n + 1)] if forward else [i % n for i in range(idx - 1, -2, -1)]
        for i in order:
            q = lines[i].find(pat) if forward else lines[i].rfind(pat)
            if q >= 0:
                found = (i, q)
                break
        if found is None:
            return None
        idx, pos = found
    return idx, pos


def oracle_srch(case):
    v = []
    text, cur, pat = case["text"], case["cur"], case["pat"]
    lines = list(case["hist"]) + [text]
    wi = len(case["hist"])
    clip0 = tuple(case.get("clip", ["zz", 0]))
    for op in case["ops"]:
        oa, name, reg, ma, k = op[0], op[1], op[2], op[3], op[4]
        r = srch_run(case, op)
        keys = op_keys(op)

        def bad(cond, msg):
            v.append({"signature": f"operator + search motion {k} | {cond}",
                      "msg": f"{msg}: history={case['hist']!r} text={text!r} cur={cur} pattern={pat!r} keys={keys!r} -> "
                             f"text={r['text']!r} cur={r['cur']} clip={r['clip']!r} regs={r['regs']!r}"})

        if r["err"]:
            bad("exception " + r["err"], "handler raised")
            continue
        if r["pending"]:
            continue
        base = vi_fix(text, cur) if oa is not None else cur
        m = nth_match(lines, wi, base, pat, norm_count(oa, ma), k == "n")
        new_clip = (r["clip"][0], r["clip"][1])
        stored = new_clip if reg is None else r["regs"].get(reg)
        if r["widx"] != wi:
            bad("history entry changed", "the operator moved to another history entry")
            continue
        if m is None or m[0] != wi or m[1] == base:
            if r["text"] != text or new_clip != clip0 or r["regs"]:
                bad("failing motion", "the count-th match is not in the edited text but the operator changed something")
            continue
        a, b = min(base, m[1]), max(base, m[1])
        if text[b - 1] == "\n":
            b -= 1          # an exclusive span that ends in column 0 stops at the end of the previous line
        if a == b:
            if r["text"] != text or new_clip != clip0 or r["regs"]:
                bad("failing motion", "the span holds no character but the operator changed something")
            continue
        span = text[a:b]
        if name in ("d", "c"):
            if r["text"] != text[:a] + text[b:] or stored != (span, 0):
                bad("span != cursor..match", f"expected the span [{a},{b}) = {span!r} to be removed and stored")
        elif name == "y":
            if r["text"] != text or stored != (span, 0):
                bad("span != cursor..match", f"expected the span [{a},{b}) = {span!r} to be stored, text unchanged")
        elif name in TF:
            if r["text"] != text[:a] + TF[name](span) + text[b:] or new_clip != clip0 or r["regs"]:
                bad("span != cursor..match", f"expected exactly the span [{a},{b}) to be transformed")
    seen, out = set(), []
    for x in v:
        if x["signature"] not in seen:
            seen.add(x["signature"])
            out.append(x)
    return out


SRCH_ENTRIES = ["xx needle yy needle zz", "needle", "no match here", "a needle\nb needle", ""]
SRCH_TEXTS = ["alpha beta gamma delta epsilon", "one needle two needle three", "needle at start\nand needle here\nneedle",
              "ab needle", ""]


def srch_cases(tier, rng):
    ops = []
    for name, reg in [("d", None), ("y", None), ("c", None), ("g~", None), ("gU", None), ("d", "a"), ("y", "a")]:
        for k in ("n", "N"):
            for oa, ma in [(None, None), (None, 2), (2, None), (None, 3)]:
                if name in ("d", "y") and reg is None or (oa, ma) in [(None, None), (None, 2)]:
                    ops.append([oa, name, reg, ma, k])
    hists = [[], [SRCH_ENTRIES[0]], [SRCH_ENTRIES[1]], [SRCH_ENTRIES[2]], [SRCH_ENTRIES[0], SRCH_ENTRIES[2]],
             [SRCH_ENTRIES[3], SRCH_ENTRIES[1]], [SRCH_ENTRIES[4], SRCH_ENTRIES[0]]]
    for hist in hists:
        for text in SRCH_TEXTS:
            curs = sorted({0, len(text) // 3, len(text) // 2, max(0, len(text) - 1)}) if tier == "quick" \
                else range(0, len(text) + 1, 2)
            for cur in curs:
                yield {"k": "srch", "hist": hist, "text": text, "cur": cur, "pat": "needle", "clip": ["zz", 0], "ops": ops}
    for _ in range(100 if tier == "quick" else 3000):
        pat = rng.choice(["ab", "a", "x y", "needle"])
        mk = lambda: "".join(rng.choice(["a", "b", "x", " ", "y", "\n", "ab", pat]) for _ in range(rng.randrange(0, 8)))
        hist = [mk() for _ in range(rng.randrange(0, 3))]
        text = mk()
        cur = rng.randrange(0, len(text) + 1)
        sub = [list(rng.choice(ops)) for _ in range(6)]
        yield {"k": "srch", "hist": hist, "text": text, "cur": cur, "pat": pat, "clip": ["zz", 0], "ops": sub}


# ------------------------------------------------------------------ visual-mode generators
VIS_TEXTS = ["abc\ndef\nghi", "ab cd\n\nef g", "a(b c)d", "ab\n", ""]
VIS_MOVES = [["mv", None, "l"], ["mv", None, "h"], ["mv", None, "w"], ["mv", None, "e"], ["mv", None, "$"],
             ["mv", None, "0"], ["j", None], ["k", None], ["j", 2], ["mv", None, "iw"], ["mv", None, "ib", "(", ")", "("],
             ["mv", None, "G"], ["mv", 2, "l"]]
VIS_TERMS = [["op", None, "d", None], ["op", None, "y", None], ["op", None, "c", None], ["op", None, "y", "a"],
             ["op", None, "d", "a"], ["op", None, "gU", None], ["op", None, "g~", None], ["op", None, ">", None],
             ["op", 2, ">", None], ["op", None, "<", None], ["esc"]]


def vis_case(text, cur, ty, ops, lf=None, screen=None, clip=None):
    return {"k": "vis", "text": text, "cur": cur, "clip": clip or ["zz", 0], "lf": lf, "screen": screen, "ty": ty,
            "ops": [list(g) for g in ops]}


def vis_exhaustive(tier, salt):
    texts = VIS_TEXTS[:2] if tier == "quick" else VIS_TEXTS
    i = salt
    for text in texts:
        curs = range(len(text) + 1) if tier != "quick" else sorted({0, 1, len(text) // 2, max(0, len(text) - 1)})
        for cur in curs:
            for ty in (0, 1, 2):
                for term in VIS_TERMS:
                    yield vis_case(text, cur, ty, [term])
                    for m in VIS_MOVES:
                        yield vis_case(text, cur, ty, [m, term])
                for m1 in VIS_MOVES:
                    for m2 in VIS_MOVES:
                        i += 1
                        yield vis_case(text, cur, ty, [m1, m2, VIS_TERMS[i % len(VIS_TERMS)]])


def vis_random(rng, n):
    for _ in range(n):
        text = rand_text(rng)
        cur = rng.choice([0, len(text), rng.randrange(0, len(text) + 1), rng.randrange(0, len(text) + 1)])
        moves = []
        for _ in range(rng.randrange(0, 5)):
            r = rng.randrange(6)
            if r < 2:
                moves.append([rng.choice(["j", "k"]), rng.choice([None, None, 2, 3])])
            else:
                m = rand_motion(rng)
                while m[0] in ("j", "k") or (m[0] in REPEAT and len(m) != 1) or \
                        (m[0] in "fFtT" and len(m) == 2 and m[1] in ("\n", "\t")):
                    m = rand_motion(rng)
                moves.append(["mv", None if m[0] in ("0", "G") else rng.choice([None, None, 2, 3])] + m)
        if rng.randrange(8) == 0:
            term = ["esc"]
        else:
            name = rng.choice(OPS)
            term = ["op", rng.choice([None, None, 2, 3]), name,
                    rng.choice([None, None, "a", "7", "A"]) if name in ("d", "c", "y") else None]
        lf = rng.choice([None, None, [rng.choice(["a", "x", " ", "."]), rng.randrange(2)]])
        clip = rng.choice([["zz", 0], ["", 0], ["old\nline", 1]])
        yield vis_case(text, cur, rng.randrange(3), moves + [term], lf, rand_screen(rng), clip)


# ------------------------------------------------------------------ session generators
SESS_TEXTS = ["ab cd ef gh ij kl", "a b\nc d\ne f\ng h", "x.x.x.x x", "ab\n\n  cd\nef", "(a) (b) c", ""]


def _cmd(oa, name, reg, ma, *m):
    return ["cmd", oa, name, reg, ma] + list(m)


# the session alphabet: counted / uncounted commands of every operator class, failing motions,
# movements, and the pieces of aborted commands
SESS_CMDS = [_cmd(None, "d", None, None, "w"), _cmd(2, "d", None, None, "w"), _cmd(None, "d", None, 2, "w"),
             _cmd(2, "d", None, 3, "w"), _cmd(3, "y", None, None, "l"), _cmd(None, "g~", None, None, "l"),
             _cmd(2, ">", None, None, "j"), _cmd(None, ">", None, None, "j"), _cmd(None, "<", None, None, "j"),
             _cmd(2, "y", "a", None, "w"), _cmd(None, "d", "a", None, "w"), _cmd(None, "c", None, None, "w"),
             _cmd(2, "c", None, None, "l"), _cmd(None, "d", None, None, "f", "x"), _cmd(3, "d", None, None, "f", "x"),
             _cmd(None, "d", None, None, ";"), _cmd(None, "y", None, None, ","), _cmd(2, "gU", None, None, "e"),
             _cmd(None, "d", None, None, "h"), _cmd(None, "d", None, None, "k"), _cmd(None, "y", None, None, "$"),
             _cmd(None, "g?", None, None, "iw"), _cmd(None, "d", None, None, "ib", "(", ")", "(")]
SESS_MOVES = [["mv", None, "w"], ["mv", 2, "l"], ["mv", None, "f", "x"], ["mv", None, ";"], ["mv", None, "b"]]
SESS_DOUBLES = [["dbl", None, ">>"], ["dbl", 2, ">>"], ["dbl", None, "<<"], ["dbl", None, "gUU"], ["dbl", 3, "g~~"],
                ["dbl", None, "guu"]]
SESS_PARTS = [["n", 2], ["o", "d", None], ["o", "y", None], ["o", "gu", None], ["o", "c", "b"], ["esc"], ["co"],
              ["Z"], ["ins", "x y"]]
SESS_ALPHA = SESS_CMDS + SESS_MOVES + SESS_PARTS + SESS_DOUBLES[:3]
# triples: a counted start, something in between, an uncounted operator
SESS_FIRST = [g for g in SESS_CMDS if g[1] is not None or g[4] is not None] + [["n", 3], ["o", "d", None]]
SESS_MID = [["Z"], ["co"], ["n", 2], ["o", "y", None], ["esc"], ["mv", None, "w"], _cmd(None, "d", None, None, "k"),
            _cmd(None, "y", None, None, "f", "q"), ["mv", None, "f", "x"], _cmd(None, "c", None, None, "l")]
SESS_LAST = [g for g in SESS_CMDS if g[1] is None and g[4] is None] + [["mv", None, "w"], ["mv", None, "iw"], ["esc"]]


def sess_case(text, cur, ops, flush, lf=None, mode="nav", clip=None, screen=None):
    return {"k": "sess", "text": text, "cur": cur, "clip": clip or ["zz", 0], "lf": lf, "mode": mode,
            "flush": flush, "screen": screen, "ops": [list(g) for g in ops]}


def sess_cursors(text):
    n = len(text)
    return sorted({0, n // 3, max(0, n - 1)})


def sess_exhaustive(tier, salt):
    texts = SESS_TEXTS[:2] if tier == "quick" else SESS_TEXTS
    i = salt
    for text in texts:
        for cur in sess_cursors(text):
            for a in SESS_ALPHA:
                for b in SESS_ALPHA:
                    i += 1
                    c = sess_case(text, cur, [a, b], i % 2)
                    if track(c):
                        yield c
    # the doubled forms, alone and after a counted operator / a dropped count
    for text in SESS_TEXTS:
        for cur in sess_cursors(text):
            for dbl in SESS_DOUBLES:
                for pre in ([], [_cmd(3, "y", None, None, "l")], [["n", 3], ["co"]], [["o", "d", None], ["esc"]]):
                    i += 1
                    c = sess_case(text, cur, pre + [dbl], i % 2)
                    if track(c):
                        yield c
    texts = SESS_TEXTS[:1] if tier == "quick" else SESS_TEXTS[:5]
    for text in texts:
        for cur in sess_cursors(text)[:2 if tier == "quick" else 3]:
            for a in SESS_FIRST:
                for b in SESS_MID:
                    for c3 in SESS_LAST:
                        i += 1
                        c = sess_case(text, cur, [a, b, c3], i % 2)
                        if track(c):
                            yield c


def rand_group(rng):
    r = rng.randrange(20)
    if r < 9:
        op = rand_op(rng)
        while is_extra(op) or (op[4] in REPEAT and len(op) != 5):
            op = rand_op(rng)
        if rng.randrange(3):
            op[0] = rng.choice([None, None, 2, 3])
            op[3] = rng.choice([None, None, 2, 3]) if op[4] not in ("0", "G") else None
        return ["cmd"] + op
    if r < 12:
        m = rand_motion(rng)
        while m[0] in EXTRA_MOTIONS or (m[0] in REPEAT and len(m) != 1) or \
                (m[0] in "fFtT" and len(m) == 2 and m[1] in ("\n", "\t")):
            m = rand_motion(rng)
        return ["mv", None if m[0] in ("0", "G") else rng.choice([None, None, 2, 3, 10])] + m
    if r < 14:
        return ["n", rng.choice([2, 3, 4, 10, 25])]
    if r < 16:
        name = rng.choice(OPS)
        return ["o", name, rng.choice([None, None, "a", "q", "Q"]) if name in ("d", "c", "y") else None]
    if r < 17:
        return ["esc"]
    if r < 18:
        return ["co"]
    if r < 19:
        return rng.choice([["Z"], [rng.choice(["dbl"]), rng.choice([None, None, 2, 3]),
                                   rng.choice([">>", "<<", "guu", "gUU", "g~~"])]])
    return ["ins", "".join(rng.choice(["x", "y", " ", "Q", ".", "("]) for _ in range(rng.randrange(1, 4)))]


def sess_random(rng, n):
    made = 0
    while made < n:
        text = rand_text(rng)
        cur = rng.choice([0, len(text), rng.randrange(0, len(text) + 1), rng.randrange(0, len(text) + 1)])
        flush = rng.randrange(2)
        mode = rng.choice(["nav"] * 6 + ["ins", "tmp"])
        lf = rng.choice([None, None, [rng.choice(["a", "x", " ", "."]), rng.randrange(2)]])
        clip = rng.choice([["zz", 0], ["", 0], ["old\nline", 1]])
        scr = rand_screen(rng)
        ops = []
        want = rng.randrange(2, 9)
        tries = 0
        while len(ops) < want and tries < 60:
            tries += 1
            g = rand_group(rng)
            if track(sess_case(text, cur, ops + [g], flush, lf, mode, clip)):
                ops.append(g)
        if len(ops) >= 2:
            made += 1
            yield sess_case(text, cur, ops, flush, lf, mode, clip, scr)


def sample_view(case):
    if case["k"] == "srch":
        return dict(case, ops=[op_keys(o) for o in case["ops"][:8]])
    if case["k"] == "vis":
        sp = vis_split(case)
        return dict(case, keys=None if sp is None else
                    VIS_ENTER[case["ty"]] + "".join(vis_move_keys(g) for g in sp[0]) + vis_term_keys(sp[1]))
    if case["k"] == "sess":
        return dict(case, ops=[group_keys(g) for g in case["ops"]])
    if case["k"] == "raw":
        return dict(case, tos=case["tos"][:4] + [f"... {len(case['tos'])} TextObjects"])
    return dict(case, ops=[op_keys(o) for o in case["ops"][:6]] + [f"... {len(case['ops'])} operator runs, each from a fresh state"])


def nontrivial(case):
    return len(case["text"]) > 0


def distribution(cases):
    d = {"kind": {}, "text_len": {}, "operators": {}, "motions": {}}
    for c in cases:
        d["kind"][c["k"]] = d["kind"].get(c["k"], 0) + 1
        n = len(c["text"])
        key = str(n) if n < 6 else "6+"
        d["text_len"][key] = d["text_len"].get(key, 0) + 1
        if c["k"] == "srch":
            d.setdefault("search_motion", {})
            for op in c["ops"]:
                d["search_motion"][op[1] + op[4]] = d["search_motion"].get(op[1] + op[4], 0) + 1
        elif c["k"] == "vis":
            d.setdefault("visual", {})
            sp = vis_split(c)
            key = ["v", "V", "c-v"][c["ty"]] + " " + ("?" if sp is None else sp[1][0] if sp[1][0] == "esc" else sp[1][2])
            d["visual"][key] = d["visual"].get(key, 0) + 1
        elif c["k"] == "sess":
            d.setdefault("session_groups", {})
            d.setdefault("session_len", {})
            d["session_len"][str(len(c["ops"]))] = d["session_len"].get(str(len(c["ops"])), 0) + 1
            for g in c["ops"]:
                d["session_groups"][g[0]] = d["session_groups"].get(g[0], 0) + 1
                if g[0] == "cmd":
                    d["operators"][g[2] + ('"' if g[3] else "")] = d["operators"].get(g[2] + ('"' if g[3] else ""), 0) + 1
                    d["motions"][g[5]] = d["motions"].get(g[5], 0) + 1
        elif c["k"] == "e2e":
            for op in c["ops"]:
                d["operators"][op[1] + ('"' if op[2] else "")] = d["operators"].get(op[1] + ('"' if op[2] else ""), 0) + 1
                d["motions"][op[4]] = d["motions"].get(op[4], 0) + 1
        else:
            d["operators"]["raw TextObject"] = d["operators"].get("raw TextObject", 0) + len(c["tos"])
    return d


if __name__ == "__main__":
    sys.exit(core.main(sys.modules[__name__]))
