#!/venv/bin/python
"""
C04 constants re-extracted from the CURRENT tree on every run -> lean/Ptk/Gen/C04.lean:
the two SimpleCache sizes of KeyBindings (key_binding/key_bindings.py KeyBindings.__init__),
the values of the `Keys` enumeration in definition order and `KEY_ALIASES` (keys.py) that
`key_bindings._parse_key` consults, and the cap of `KeyPressEvent.arg` (key_processor.py).
"""
from __future__ import annotations

import gen_tables as G


def _arg_cap() -> int:
    """smallest n with KeyPressEvent(arg=str(n)).arg == 1 (n > 1), found by bisection on the real property"""
    try:
        from prompt_toolkit.key_binding.key_processor import KeyPressEvent

        class _E(KeyPressEvent):
            def __init__(self, a):
                self._arg = a

        def capped(n):
            return _E(str(n)).arg == 1

        lo, hi = 2, 10 ** 12
        if not capped(hi):
            return 0
        while lo < hi:
            mid = (lo + hi) // 2
            if capped(mid):
                hi = mid
            else:
                lo = mid + 1
        return lo
    except Exception:
        return 1000000


def _rmk_value_error() -> bool:
    try:
        from prompt_toolkit.key_binding.key_bindings import KeyBindings

        try:
            KeyBindings().remove("a")
        except ValueError:
            return True
        except Exception:
            return False
    except Exception:
        pass
    return False


def generate() -> None:
    try:
        from prompt_toolkit.key_binding.key_bindings import KeyBindings

        kb = KeyBindings()
        max_for = int(kb._get_bindings_for_keys_cache.maxsize)
        max_start = int(kb._get_bindings_starting_with_keys_cache.maxsize)
    except Exception:  # the tree is broken: keep the model compilable, the correspondence reports it
        max_for, max_start = 10000, 1000
    body = "namespace Ptk.Gen.C04\n\n"
    body += "/-- KeyBindings._get_bindings_for_keys_cache.maxsize -/\n"
    body += f"def maxFor : Nat := {max_for}\n\n"
    body += "/-- KeyBindings._get_bindings_starting_with_keys_cache.maxsize -/\n"
    body += f"def maxStart : Nat := {max_start}\n\n"
    try:
        from prompt_toolkit.keys import KEY_ALIASES, Keys

        values = [k.value for k in Keys]
        aliases = list(KEY_ALIASES.items())
    except Exception:
        values, aliases = [], []
    body += "/-- `[k.value for k in Keys]` (definition order; enum aliases collapse) -/\n"
    body += "def keyValues : List (List Char) := [\n  " + ",\n  ".join(G.ltext(v) for v in values) + "]\n\n"
    body += "/-- `KEY_ALIASES.items()` -/\n"
    body += ("def keyAliases : List (List Char × List Char) := [\n  "
             + ",\n  ".join("(%s, %s)" % (G.ltext(a), G.ltext(t)) for a, t in aliases) + "]\n\n")
    body += ("/-- `KeyBindings().remove('a')` (nothing bound) raises the documented ValueError "
             "(False: UnboundLocalError, the behaviour before proposed_fixes/C04-remove-unknown-keys.diff); probed -/\n")
    body += f"def rmkValueError : Bool := {'true' if _rmk_value_error() else 'false'}\n\n"
    body += "/-- the threshold in `KeyPressEvent.arg` (`if int(result) >= N: result = 1`), probed -/\n"
    body += f"def argCap : Nat := {_arg_cap()}\n\n"
    body += "end Ptk.Gen.C04\n"
    G.write("C04.lean", body)
