#!/venv/bin/python
"""
C04 constants re-extracted from the CURRENT tree on every run -> lean/Ptk/Gen/C04.lean:
the two SimpleCache sizes of KeyBindings (key_binding/key_bindings.py KeyBindings.__init__).
"""
from __future__ import annotations

import gen_tables as G


def generate() -> None:
    try:
        from prompt_toolkit.key_binding.key_bindings import KeyBindings

        kb = KeyBindings()
        max_for = int(kb._get_bindings_for_keys_cache.maxsize)
        max_start = int(kb._get_bindings_starting_with_keys_cache.maxsize)
    except Exception:  # the tree is broken: keep the model compilable, the correspondence reports it
        max_for, max_start = 10000, 1000
    body = "namespace Ptk.Gen.C04\n\n"
    body += "/-- KeyBindings._get_bindings_for_keys_cache.maxsize -/\n"
    body += f"def maxFor : Nat := {max_for}\n\n"
    body += "/-- KeyBindings._get_bindings_starting_with_keys_cache.maxsize -/\n"
    body += f"def maxStart : Nat := {max_start}\n\n"
    body += "end Ptk.Gen.C04\n"
    G.write("C04.lean", body)
