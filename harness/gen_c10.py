#!/venv/bin/python
"""
C10 tables, re-extracted on every run and written to lean/Ptk/Gen/C10Display.lean
(only rewritten when the content changes):

  layout/screen.py   Char.display_mappings  (dict order; keys and values as code points)
  output/vt100.py    the literal strings the emitter methods of Vt100_Output send through
                     write_raw (obtained by CALLING each method of a real Vt100_Output on a
                     StringIO and reading what it buffered); the parametrised cursor moves are
                     split into prefix / suffix around the decimal amount
  the running interpreter's `wcwidth` (the function prompt_toolkit.utils.get_cwidth wraps):
                     inclusive code point ranges whose wcwidth is not 1, as (lo, hi, w)
  the running interpreter's `str.isprintable` (fast path of layout/screen.py get_display_width):
                     inclusive code point ranges that are not printable

The wcwidth scan over all 1 114 112 code points takes ~3 s, so it is cached in
/verif/.work keyed on the hash of the wcwidth package's source files (it is not part of /repo).
"""
from __future__ import annotations

import hashlib
import io
import json
import os

import gen_tables as G


def ltext(s: str) -> str:
    """a Python str as a Lean `List Nat` of CODE POINTS (lone surrogates are code points too)"""
    return "[" + ", ".join(str(ord(c)) for c in s) + "]"


def wc_ranges() -> list[tuple[int, int, int]]:
    import wcwidth

    pkg = os.path.dirname(wcwidth.__file__)
    h = hashlib.sha256()
    for fn in sorted(os.listdir(pkg)):
        if fn.endswith(".py"):
            h.update(fn.encode())
            h.update(open(os.path.join(pkg, fn), "rb").read())
    key = h.hexdigest()[:20]
    work = os.path.join(G.ROOT, ".work")
    os.makedirs(work, exist_ok=True)
    cache = os.path.join(work, f"c10_wcwidth2_{key}.json")
    if os.path.exists(cache):
        try:
            return [tuple(x) for x in json.load(open(cache))]
        except Exception:
            pass
    out: list[tuple[int, int, int]] = []
    start = prev = None
    cur = 1
    f = wcwidth.wcwidth
    for cp in range(0x110000):
        w = f(chr(cp))  # lone surrogates are Python characters too (measured, not assumed)
        if w != cur or (start is not None and cp != prev + 1):
            if start is not None and cur != 1:
                out.append((start, prev, cur))
            start, cur = cp, w
        prev = cp
    if start is not None and cur != 1:
        out.append((start, prev, cur))
    tmp = cache + ".tmp%d" % os.getpid()
    with open(tmp, "w") as fh:
        json.dump(out, fh)
    os.replace(tmp, cache)
    return out


def nonprintable_ranges() -> list[tuple[int, int]]:
    """inclusive code point ranges where `str.isprintable()` is False (running interpreter; cached on
    the interpreter's Unicode database version)"""
    import sys
    import unicodedata

    work = os.path.join(G.ROOT, ".work")
    os.makedirs(work, exist_ok=True)
    key = hashlib.sha256((sys.version + unicodedata.unidata_version).encode()).hexdigest()[:20]
    cache = os.path.join(work, f"c10_isprintable2_{key}.json")
    if os.path.exists(cache):
        try:
            return [tuple(x) for x in json.load(open(cache))]
        except Exception:
            pass
    out = []
    start = prev = None
    for cp in range(0x110000):  # lone surrogates included (they are not printable)
        if not chr(cp).isprintable():
            if start is None:
                start = cp
            prev = cp
        elif start is not None:
            out.append((start, prev))
            start = None
    if start is not None:
        out.append((start, prev))
    tmp = cache + ".tmp%d" % os.getpid()
    with open(tmp, "w") as fh:
        json.dump(out, fh)
    os.replace(tmp, cache)
    return out


def emitted(call) -> str:
    """what one emitter call of a REAL Vt100_Output buffers (fresh object per call)"""
    from prompt_toolkit.data_structures import Size
    from prompt_toolkit.output.vt100 import Vt100_Output

    sio = io.StringIO()
    o = Vt100_Output(sio, lambda: Size(rows=24, columns=80), term="xterm")
    call(o)
    # (ask_for_cpr and bell flush by themselves: what was flushed + what is still buffered)
    return sio.getvalue() + "".join(o._buffer)


def split_amount(f) -> tuple[str, str]:
    """prefix/suffix of a parametrised emitter around the decimal amount (checked on 3 amounts)"""
    s2 = emitted(lambda o: f(o, 2))
    i = s2.index("2")
    pre, suf = s2[:i], s2[i + 1:]
    for n in (10, 123, 4096):
        if emitted(lambda o: f(o, n)) != pre + str(n) + suf:
            raise ValueError("parametrised emitter is not prefix+decimal+suffix: %r" % s2)
    return pre, suf


def generate() -> None:
    from prompt_toolkit.layout.screen import Char

    dm = Char.display_mappings
    body = "namespace Ptk.Gen.C10\n\n"
    body += "/-- `Char.display_mappings` in dict order: (key, display string), both as code points -/\n"
    body += "def displayMappings : List (List Nat × List Nat) := [\n"
    rows = []
    for k, v in dm.items():
        if not isinstance(k, str) or not isinstance(v, str):
            raise TypeError(f"display_mappings entry is not str -> str: {k!r}: {v!r}")
        rows.append("  (" + ltext(k) + ", " + ltext(v) + ")")
    body += ",\n".join(rows) + "\n]\n\n"

    body += "/-- inclusive code point ranges whose `wcwidth.wcwidth` is not 1: (lo, hi, w) -/\n"
    rs = wc_ranges()
    body += "def wcRanges : List (Nat × Nat × Int) := [\n  "
    body += ",\n  ".join(", ".join(f"({a}, {b}, {w})" for a, b, w in rs[i:i + 8]) for i in range(0, len(rs), 8))
    body += "]\n\n"
    body += ("def wcFind : List (Nat × Nat × Int) → Nat → Int\n"
             "  | [], _ => 1\n"
             "  | (a, b, w) :: rest, n => if n < a then 1 else if n ≤ b then w else wcFind rest n\n\n")
    body += "/-- `wcwidth.wcwidth(c)` of the running interpreter (ranges are sorted, so the scan stops early) -/\n"
    body += "def wcwidth (c : Nat) : Int := wcFind wcRanges c\n\n"

    body += "/-- inclusive code point ranges where `str.isprintable()` is False (lone surrogates included) -/\n"
    nps = nonprintable_ranges()
    body += "def nonPrintableRanges : List (Nat × Nat) := [\n  "
    body += ",\n  ".join(", ".join(f"({a}, {b})" for a, b in nps[i:i + 10]) for i in range(0, len(nps), 10))
    body += "]\n\n"
    body += ("def npFind : List (Nat × Nat) → Nat → Bool\n"
             "  | [], _ => false\n"
             "  | (a, b) :: rest, n => if n < a then false else if n ≤ b then true else npFind rest n\n\n")
    body += "/-- `c.isprintable()` of the running interpreter -/\n"
    body += "def isPrintable (c : Nat) : Bool := !npFind nonPrintableRanges c\n\n"

    from prompt_toolkit.output.vt100 import Vt100_Output as V

    simple = [
        ("hideCursor", lambda o: o.hide_cursor()),
        ("showCursor", lambda o: o.show_cursor()),
        ("eraseEol", lambda o: o.erase_end_of_line()),
        ("eraseDown", lambda o: o.erase_down()),
        ("resetAttrs", lambda o: o.reset_attributes()),
        ("disableAutowrap", lambda o: o.disable_autowrap()),
        ("enableAutowrap", lambda o: o.enable_autowrap()),
        ("cursorUp1", lambda o: o.cursor_up(1)),
        ("cursorDown1", lambda o: o.cursor_down(1)),
        ("cursorFwd1", lambda o: o.cursor_forward(1)),
        ("cursorBack1", lambda o: o.cursor_backward(1)),
        ("cursorUp0", lambda o: o.cursor_up(0)),
        ("cursorFwd0", lambda o: o.cursor_forward(0)),
        ("cursorBack0", lambda o: o.cursor_backward(0)),
    ]
    body += "/-! what the emitter methods of a real `Vt100_Output` hand to `write_raw` -/\n"
    for nm, f in simple:
        body += f"def {nm} : List Nat := {ltext(emitted(f))}\n"
    for nm, f in [("cursorUp", V.cursor_up), ("cursorFwd", V.cursor_forward), ("cursorBack", V.cursor_backward)]:
        pre, suf = split_amount(f)
        body += f"def {nm}Pre : List Nat := {ltext(pre)}\n"
        body += f"def {nm}Suf : List Nat := {ltext(suf)}\n"
    # hide/show are stateful: second call in the same state emits nothing
    def twice(o):
        o.hide_cursor()
        o._buffer.clear()
        o.hide_cursor()
    body += f"def hideCursorAgain : List Nat := {ltext(emitted(twice))}\n"
    body += "\n/-! the other emitters of `Vt100_Output` (mode switches, CPR request, bell, cursor shapes, title) -/\n"
    from prompt_toolkit.cursor_shapes import CursorShape

    more = [
        ("eraseScreen", lambda o: o.erase_screen()),
        ("enterAltScreen", lambda o: o.enter_alternate_screen()),
        ("quitAltScreen", lambda o: o.quit_alternate_screen()),
        ("enableMouse", lambda o: o.enable_mouse_support()),
        ("disableMouse", lambda o: o.disable_mouse_support()),
        ("enableBracketedPaste", lambda o: o.enable_bracketed_paste()),
        ("disableBracketedPaste", lambda o: o.disable_bracketed_paste()),
        ("resetCursorKeyMode", lambda o: o.reset_cursor_key_mode()),
        ("askCpr", lambda o: o.ask_for_cpr()),
        ("bell", lambda o: o.bell()),
        ("cursorDown0", lambda o: o.cursor_down(0)),
    ]
    for nm, f in more:
        body += f"def {nm} : List Nat := {ltext(emitted(f))}\n"
    pre, suf = split_amount(V.cursor_down)
    body += f"def cursorDownPre : List Nat := {ltext(pre)}\n"
    body += f"def cursorDownSuf : List Nat := {ltext(suf)}\n"
    # cursor_goto(row, column): prefix, separator, suffix around the two decimals
    g = emitted(lambda o: o.cursor_goto(23, 45))
    i, j = g.index("23"), g.index("45")
    gp, gm, gs = g[:i], g[i + 2:j], g[j + 2:]
    for r, c in ((0, 0), (1, 7), (120, 3000)):
        if emitted(lambda o: o.cursor_goto(r, c)) != gp + str(r) + gm + str(c) + gs:
            raise ValueError("cursor_goto is not prefix+row+sep+column+suffix: %r" % g)
    body += f"def gotoPre : List Nat := {ltext(gp)}\n"
    body += f"def gotoMid : List Nat := {ltext(gm)}\n"
    body += f"def gotoSuf : List Nat := {ltext(gs)}\n"
    # cursor shapes, in enum order; `_NEVER_CHANGE` writes nothing and does not mark the shape as changed
    shapes = [sh for sh in CursorShape]
    body += "/-- `set_cursor_shape(shape)` for every member of `CursorShape`, in enum order -/\n"
    body += "def cursorShapes : List (List Nat) := [" + ", ".join(
        ltext(emitted(lambda o, sh=sh: o.set_cursor_shape(sh))) for sh in shapes) + "]\n"
    body += "/-- does `set_cursor_shape(shape)` set `_cursor_shape_changed`? (same order) -/\n"

    def marks(sh):
        from prompt_toolkit.data_structures import Size
        o = V(io.StringIO(), lambda: Size(rows=24, columns=80), term="xterm")
        o.set_cursor_shape(sh)
        return bool(o._cursor_shape_changed)
    body += "def cursorShapeMarks : List Bool := [" + ", ".join("true" if marks(sh) else "false" for sh in shapes) + "]\n"

    def reset_after(o):
        o.set_cursor_shape(CursorShape.BEAM)
        o._buffer.clear()
        o.reset_cursor_shape()
    body += f"def resetCursorShape : List Nat := {ltext(emitted(reset_after))}\n"
    body += f"def resetCursorShapeUnchanged : List Nat := {ltext(emitted(lambda o: o.reset_cursor_shape()))}\n"
    # set_title: prefix / suffix around the title and the `term` values for which nothing is written
    # (WHICH characters set_title deletes is the model's business: C0, DEL, C1; correspondence-checked)
    t = emitted(lambda o: o.set_title("Tt"))
    k = t.index("Tt")
    tpre, tsuf = t[:k], t[k + 2:]
    body += f"def titlePre : List Nat := {ltext(tpre)}\n"
    body += f"def titleSuf : List Nat := {ltext(tsuf)}\n"
    def title_for_term(term):
        from prompt_toolkit.data_structures import Size
        o = V(io.StringIO(), lambda: Size(rows=24, columns=80), term=term)
        o.set_title("Tt")
        return "".join(o._buffer)
    silent = [tm for tm in ("linux", "eterm-color", "xterm", "dumb", "unknown", "screen", "vt100", "xterm-256color")
              if title_for_term(tm) == ""]
    body += "/-- `term` values (of the probed ones) for which `set_title` writes nothing -/\n"
    body += "def titleSilentTerms : List String := [" + ", ".join(G.lstr(x) for x in silent) + "]\n"
    body += "\nend Ptk.Gen.C10\n"
    G.write("C10Display.lean", body)
    generate_codecs()
    generate_select()


# ------------------------------------------------------------------ codecs (the byte level)
#: single-byte codecs the byte-level theorems are instantiated with (canonical `codecs.lookup(...).name`)
CHARMAPS = ["ascii", "iso8859-1", "iso8859-15", "cp1252", "cp437", "cp850", "koi8-r", "mac-roman"]


def charmap_tables(name: str):
    """(encode table [(code point, byte)] sorted by code point, decode table [code point | None] * 256)
    of the RUNNING interpreter's codec, by trying every code point / byte (cached on the interpreter version)"""
    import sys

    work = os.path.join(G.ROOT, ".work")
    os.makedirs(work, exist_ok=True)
    key = hashlib.sha256((sys.version + name).encode()).hexdigest()[:20]
    cache = os.path.join(work, f"c10_codec_{name}_{key}.json")
    if os.path.exists(cache):
        try:
            e, d = json.load(open(cache))
            return [tuple(x) for x in e], d
        except Exception:
            pass
    enc = []
    for cp in range(0x110000):
        try:
            b = chr(cp).encode(name)
        except UnicodeEncodeError:
            continue
        if len(b) != 1:
            raise ValueError(f"{name} is not a single-byte codec: U+{cp:04X} -> {b!r}")
        enc.append((cp, b[0]))
    dec = []
    for b in range(256):
        try:
            u = bytes([b]).decode(name)
            dec.append(ord(u) if len(u) == 1 else None)
        except UnicodeDecodeError:
            dec.append(None)
    tmp = cache + ".tmp%d" % os.getpid()
    with open(tmp, "w") as fh:
        json.dump([enc, dec], fh)
    os.replace(tmp, cache)
    return enc, dec


def lean_ident(name: str) -> str:
    return "".join(ch if ch.isalnum() else "_" for ch in name)


def generate_codecs() -> None:
    body = "namespace Ptk.Gen.C10\n\n"
    body += ("/-! single-byte codecs of the running interpreter: `enc_*` = every (code point, byte) the codec\n"
             "    encodes (sorted by code point), `dec_*` = what each byte 0..255 decodes to (`none` = undefined) -/\n")
    for nm in CHARMAPS:
        enc, dec = charmap_tables(nm)
        idn = lean_ident(nm)
        body += f"def enc_{idn} : List (Nat × Nat) := [\n  "
        body += ",\n  ".join(", ".join(f"({a}, {b})" for a, b in enc[i:i + 12]) for i in range(0, len(enc), 12))
        body += "]\n"
        body += f"def dec_{idn} : List (Option Nat) := [\n  "
        body += ",\n  ".join(", ".join("none" if x is None else f"some {x}" for x in dec[i:i + 12])
                              for i in range(0, len(dec), 12))
        body += "]\n\n"
    body += "/-- (canonical codec name, encode table, decode table) -/\n"
    body += "def charmaps : List (String × List (Nat × Nat) × List (Option Nat)) := [\n  "
    body += ",\n  ".join(f"({G.lstr(nm)}, enc_{lean_ident(nm)}, dec_{lean_ident(nm)})" for nm in CHARMAPS)
    body += "]\n"
    body += "\nend Ptk.Gen.C10\n"
    G.write("C10Codecs.lean", body)


if __name__ == "__main__":
    generate()


# ------------------------------------------------------------------ create_output(): decision table
class FakeStream:
    """a stream object as far as create_output / Vt100_Output.from_pty look at it"""

    def __init__(self, tty):
        self.tty = tty
        self.encoding = "utf-8"

    def isatty(self):
        return self.tty

    def fileno(self):
        raise io.UnsupportedOperation("fileno")

    def write(self, s):
        pass

    def flush(self):
        pass


def select_probe(arg, sys_out, sys_err, prefer, term):
    """class name of the real create_output() for one combination (None / True / False = absent / tty / no tty)"""
    import sys

    from prompt_toolkit.output.defaults import create_output

    def mk(x):
        return None if x is None else FakeStream(x)

    old = (sys.stdout, sys.stderr, os.environ.get("TERM"))
    try:
        sys.stdout, sys.stderr = mk(sys_out), mk(sys_err)
        if term is None:
            os.environ.pop("TERM", None)
        else:
            os.environ["TERM"] = term
        return type(create_output(stdout=mk(arg), always_prefer_tty=prefer)).__name__
    finally:
        sys.stdout, sys.stderr = old[0], old[1]
        if old[2] is None:
            os.environ.pop("TERM", None)
        else:
            os.environ["TERM"] = old[2]


SELECT_TERMS = ["xterm", "dumb", "unknown", "DUMB", None]


def select_rows():
    from prompt_toolkit.utils import is_dumb_terminal
    rows = []
    for arg in (None, True, False):
        for so in (None, True, False):
            for se in (None, True, False):
                for prefer in (False, True):
                    for term in SELECT_TERMS:
                        rows.append((arg, so, se, prefer, bool(is_dumb_terminal(term or "")),
                                     select_probe(arg, so, se, prefer, term)))
    return rows


def generate_select() -> None:
    """never raises (this generator runs inside every property's check): a failing probe yields an empty
    table and `createOutputProbeOk := false`"""
    def ob(x):
        return "none" if x is None else ("some true" if x else "some false")
    try:
        rows, ok = select_rows(), True
    except Exception:
        rows, ok = [], False
    names = {"DummyOutput": 0, "PlainTextOutput": 1, "Vt100_Output": 2}
    body = "namespace Ptk.Gen.C10\n\n"
    body += ("/-- the real `create_output()` probed with fake stream objects: (stdout argument, sys.stdout, sys.stderr,\n"
             "    always_prefer_tty, is_dumb_terminal($TERM), class returned: 0 DummyOutput, 1 PlainTextOutput,\n"
             "    2 Vt100_Output, 9 anything else); a stream is `none` (None) or `some isatty` -/\n")
    body += "def createOutputTable : List (Option Bool × Option Bool × Option Bool × Bool × Bool × Nat) := [\n  "
    body += ",\n  ".join(f"({ob(a)}, {ob(so)}, {ob(se)}, {'true' if p else 'false'}, {'true' if d else 'false'}, "
                          f"{names.get(cls, 9)})" for a, so, se, p, d, cls in rows)
    body += "]\n"
    body += f"def createOutputProbeOk : Bool := {'true' if ok else 'false'}\n"
    body += "\nend Ptk.Gen.C10\n"
    G.write("C10Select.lean", body)
