#!/venv/bin/python
"""
C10 tables, re-extracted on every run and written to lean/Ptk/Gen/C10Display.lean
(only rewritten when the content changes):

  layout/screen.py   Char.display_mappings  (dict order; keys and values as code points)
  output/vt100.py    the literal strings the emitter methods of Vt100_Output send through
                     write_raw (obtained by CALLING each method of a real Vt100_Output on a
                     StringIO and reading what it buffered); the parametrised cursor moves are
                     split into prefix / suffix around the decimal amount
  the running interpreter's `wcwidth` (the function prompt_toolkit.utils.get_cwidth wraps):
                     inclusive code point ranges whose wcwidth is not 1, as (lo, hi, w)
  the running interpreter's `str.isprintable` (fast path of layout/screen.py get_display_width):
                     inclusive code point ranges that are not printable

The wcwidth scan over all 1 114 112 code points takes ~3 s, so it is cached in
/verif/.work keyed on the hash of the wcwidth package's source files (it is not part of /repo).
"""
from __future__ import annotations

import hashlib
import io
import json
import os

import gen_tables as G


def ltext(s: str) -> str:
    return "[" + ", ".join(f"Char.ofNat {ord(c)}" for c in s) + "]"


def wc_ranges() -> list[tuple[int, int, int]]:
    import wcwidth

    pkg = os.path.dirname(wcwidth.__file__)
    h = hashlib.sha256()
    for fn in sorted(os.listdir(pkg)):
        if fn.endswith(".py"):
            h.update(fn.encode())
            h.update(open(os.path.join(pkg, fn), "rb").read())
    key = h.hexdigest()[:20]
    work = os.path.join(G.ROOT, ".work")
    os.makedirs(work, exist_ok=True)
    cache = os.path.join(work, f"c10_wcwidth_{key}.json")
    if os.path.exists(cache):
        try:
            return [tuple(x) for x in json.load(open(cache))]
        except Exception:
            pass
    out: list[tuple[int, int, int]] = []
    start = prev = None
    cur = 1
    f = wcwidth.wcwidth
    for cp in range(0x110000):
        w = 1 if 0xD800 <= cp <= 0xDFFF else f(chr(cp))
        if w != cur or (start is not None and cp != prev + 1):
            if start is not None and cur != 1:
                out.append((start, prev, cur))
            start, cur = cp, w
        prev = cp
    if start is not None and cur != 1:
        out.append((start, prev, cur))
    tmp = cache + ".tmp%d" % os.getpid()
    with open(tmp, "w") as fh:
        json.dump(out, fh)
    os.replace(tmp, cache)
    return out


def nonprintable_ranges() -> list[tuple[int, int]]:
    """inclusive code point ranges where `str.isprintable()` is False (running interpreter; cached on
    the interpreter's Unicode database version)"""
    import sys
    import unicodedata

    work = os.path.join(G.ROOT, ".work")
    os.makedirs(work, exist_ok=True)
    key = hashlib.sha256((sys.version + unicodedata.unidata_version).encode()).hexdigest()[:20]
    cache = os.path.join(work, f"c10_isprintable_{key}.json")
    if os.path.exists(cache):
        try:
            return [tuple(x) for x in json.load(open(cache))]
        except Exception:
            pass
    out = G.ranges(lambda c: not c.isprintable())
    tmp = cache + ".tmp%d" % os.getpid()
    with open(tmp, "w") as fh:
        json.dump(out, fh)
    os.replace(tmp, cache)
    return out


def emitted(call) -> str:
    """what one emitter call of a REAL Vt100_Output buffers (fresh object per call)"""
    from prompt_toolkit.data_structures import Size
    from prompt_toolkit.output.vt100 import Vt100_Output

    o = Vt100_Output(io.StringIO(), lambda: Size(rows=24, columns=80), term="xterm")
    call(o)
    return "".join(o._buffer)


def split_amount(f) -> tuple[str, str]:
    """prefix/suffix of a parametrised emitter around the decimal amount (checked on 3 amounts)"""
    s2 = emitted(lambda o: f(o, 2))
    i = s2.index("2")
    pre, suf = s2[:i], s2[i + 1:]
    for n in (10, 123, 4096):
        if emitted(lambda o: f(o, n)) != pre + str(n) + suf:
            raise ValueError("parametrised emitter is not prefix+decimal+suffix: %r" % s2)
    return pre, suf


def generate() -> None:
    from prompt_toolkit.layout.screen import Char

    dm = Char.display_mappings
    body = "namespace Ptk.Gen.C10\n\n"
    body += "/-- `Char.display_mappings` in dict order: (key, display string), both as code points -/\n"
    body += "def displayMappings : List (List Char × List Char) := [\n"
    rows = []
    for k, v in dm.items():
        if not isinstance(k, str) or not isinstance(v, str):
            raise TypeError(f"display_mappings entry is not str -> str: {k!r}: {v!r}")
        rows.append("  (" + ltext(k) + ", " + ltext(v) + ")")
    body += ",\n".join(rows) + "\n]\n\n"

    body += "/-- inclusive code point ranges whose `wcwidth.wcwidth` is not 1: (lo, hi, w) -/\n"
    rs = wc_ranges()
    body += "def wcRanges : List (Nat × Nat × Int) := [\n  "
    body += ",\n  ".join(", ".join(f"({a}, {b}, {w})" for a, b, w in rs[i:i + 8]) for i in range(0, len(rs), 8))
    body += "]\n\n"
    body += ("def wcFind : List (Nat × Nat × Int) → Nat → Int\n"
             "  | [], _ => 1\n"
             "  | (a, b, w) :: rest, n => if n < a then 1 else if n ≤ b then w else wcFind rest n\n\n")
    body += "/-- `wcwidth.wcwidth(c)` of the running interpreter (ranges are sorted, so the scan stops early) -/\n"
    body += "def wcwidth (c : Char) : Int := wcFind wcRanges c.toNat\n\n"

    body += "/-- inclusive code point ranges where `str.isprintable()` is False (surrogates not listed) -/\n"
    nps = nonprintable_ranges()
    body += "def nonPrintableRanges : List (Nat × Nat) := [\n  "
    body += ",\n  ".join(", ".join(f"({a}, {b})" for a, b in nps[i:i + 10]) for i in range(0, len(nps), 10))
    body += "]\n\n"
    body += ("def npFind : List (Nat × Nat) → Nat → Bool\n"
             "  | [], _ => false\n"
             "  | (a, b) :: rest, n => if n < a then false else if n ≤ b then true else npFind rest n\n\n")
    body += "/-- `c.isprintable()` of the running interpreter -/\n"
    body += "def isPrintable (c : Char) : Bool := !npFind nonPrintableRanges c.toNat\n\n"

    from prompt_toolkit.output.vt100 import Vt100_Output as V

    simple = [
        ("hideCursor", lambda o: o.hide_cursor()),
        ("showCursor", lambda o: o.show_cursor()),
        ("eraseEol", lambda o: o.erase_end_of_line()),
        ("eraseDown", lambda o: o.erase_down()),
        ("resetAttrs", lambda o: o.reset_attributes()),
        ("disableAutowrap", lambda o: o.disable_autowrap()),
        ("enableAutowrap", lambda o: o.enable_autowrap()),
        ("cursorUp1", lambda o: o.cursor_up(1)),
        ("cursorDown1", lambda o: o.cursor_down(1)),
        ("cursorFwd1", lambda o: o.cursor_forward(1)),
        ("cursorBack1", lambda o: o.cursor_backward(1)),
        ("cursorUp0", lambda o: o.cursor_up(0)),
        ("cursorFwd0", lambda o: o.cursor_forward(0)),
        ("cursorBack0", lambda o: o.cursor_backward(0)),
    ]
    body += "/-! what the emitter methods of a real `Vt100_Output` hand to `write_raw` -/\n"
    for nm, f in simple:
        body += f"def {nm} : List Char := {ltext(emitted(f))}\n"
    for nm, f in [("cursorUp", V.cursor_up), ("cursorFwd", V.cursor_forward), ("cursorBack", V.cursor_backward)]:
        pre, suf = split_amount(f)
        body += f"def {nm}Pre : List Char := {ltext(pre)}\n"
        body += f"def {nm}Suf : List Char := {ltext(suf)}\n"
    # hide/show are stateful: second call in the same state emits nothing
    def twice(o):
        o.hide_cursor()
        o._buffer.clear()
        o.hide_cursor()
    body += f"def hideCursorAgain : List Char := {ltext(emitted(twice))}\n"
    body += "\nend Ptk.Gen.C10\n"
    G.write("C10Display.lean", body)


if __name__ == "__main__":
    generate()
