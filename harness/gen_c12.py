#!/venv/bin/python
"""
C12 constants re-extracted from the CURRENT tree on every run -> lean/Ptk/Gen/C12.lean:
the defaults that `Dimension.__init__` substitutes for unspecified arguments
(layout/dimension.py).  The model's `mkDim` uses them; no theorem depends on their values.
"""
from __future__ import annotations

import gen_tables as G


def generate() -> None:
    try:
        from prompt_toolkit.layout.dimension import Dimension

        d = Dimension()
        dmin, dmax, dweight = int(d.min), int(d.max), int(d.weight)
    except Exception:  # broken tree: keep the model compilable, the correspondence reports it
        dmin, dmax, dweight = 0, 1000**10, 1
    body = "namespace Ptk.Gen.C12\n\n"
    body += "/-- `Dimension().min` : value used when `min` is not given -/\n"
    body += f"def defaultMin : Nat := {dmin}\n\n"
    body += "/-- `Dimension().max` : value used when `max` is not given (\"something huge\") -/\n"
    body += f"def defaultMax : Nat := {dmax}\n\n"
    body += "/-- `Dimension().weight` : value used when `weight` is not given -/\n"
    body += f"def defaultWeight : Nat := {dweight}\n\n"
    body += "end Ptk.Gen.C12\n"
    G.write("C12.lean", body)
