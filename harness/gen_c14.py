#!/venv/bin/python
"""
C14 tables re-extracted from the CURRENT tree on every run -> lean/Ptk/Gen/C14.lean:

  keyTable     (mode, key, handler): for every key that the key-level part of the model
               (Ptk.Model.C14: `keyOp`, `viHandler`) hard-codes, the handler that a real
               PromptSession dispatches in that mode — read from the session's merged key
               bindings with the filters evaluated on the live application (the LAST active
               binding wins, as in KeyProcessor).  Modes: emacs / emacs-ml (multiline prompt) /
               vi-ins / vi-nav / vi-nav-arg (a numeric argument typed) / vi-ins-ml / vi-nav-ml.
  cwtTable     (complete_while_typing, enable_history_search, readline_like, effective): the
               value of the default buffer's `complete_while_typing` filter for all 8 settings of
               the session (history search and complete-while-typing are exclusive).
  endHistCount the count `end-of-history` passes to `history_forward` (read from the AST of the
               named command)
  vstates      names of the members of `ValidationState`
  quotedWordsRe the pattern of `buffer._QUOTED_WORDS_RE` (yank-nth-arg's word splitter; the model's
               scanner `splitQuoted` is written for exactly this pattern)
  goToHistoryResetsSearch  which variant of `Buffer.go_to_history` the tree contains (behavioural probe):
               the model's key level and the driver follow the tree, the theorems cover both variants
  acceptKeeps  the PromptSession accept handler returns True (keep the text; reset happens at
               the next prompt) — read from the AST of `_create_default_buffer.accept`

Props/C14Gen.lean states its theorems over ANY tables satisfying decidable side conditions and
contains `gen_ok… := by decide` for the regenerated ones.
"""
from __future__ import annotations

import ast
import inspect
import textwrap

import gen_tables as G

EMACS_KEYS = [
    ("up", ("up",)), ("down", ("down",)), ("c-p", ("c-p",)), ("c-n", ("c-n",)),
    ("c-up", ("c-up",)), ("c-down", ("c-down",)), ("pageup", ("pageup",)), ("pagedown", ("pagedown",)),
    ("escape <", ("escape", "<")), ("escape >", ("escape", ">")),
    ("enter", ("c-m",)), ("escape enter", ("escape", "c-m")),
    ("backspace", ("c-h",)), ("left", ("left",)), ("right", ("right",)), ("c-a", ("c-a",)), ("c-e", ("c-e",)),
    ("c-o", ("c-o",)), ("escape c-y", ("escape", "c-y")), ("escape .", ("escape", ".")),
    ("escape _", ("escape", "_")), ("any", ("<any>",)),
]
VI_INS_KEYS = [("up", ("up",)), ("down", ("down",)), ("enter", ("c-m",)), ("backspace", ("c-h",)),
               ("escape", ("escape",)), ("any", ("<any>",))]
VI_NAV_KEYS = [("k", ("k",)), ("j", ("j",)), ("up", ("up",)), ("down", ("down",)), ("G", ("G",)),
               ("enter", ("c-m",)), ("escape", ("escape",)), ("i", ("i",)), ("a", ("a",))]


def handler_name(h) -> str:
    mod = (getattr(h, "__module__", None) or "?").split(".")[-1]
    qn = (getattr(h, "__qualname__", None) or type(h).__name__).replace(".<locals>", "")
    return mod + "." + qn


def probe_keys():
    from prompt_toolkit import PromptSession
    from prompt_toolkit.application.current import set_app
    from prompt_toolkit.enums import EditingMode
    from prompt_toolkit.input import DummyInput
    from prompt_toolkit.key_binding.vi_state import InputMode
    from prompt_toolkit.keys import Keys
    from prompt_toolkit.output import DummyOutput

    rows = []

    def key_obj(k):
        if k == "<any>":
            return "x"
        return Keys(k) if k in [m.value for m in Keys] else k

    def dispatch(app, keys):
        ks = tuple(key_obj(k) for k in keys)
        bs = app.key_processor._bindings.get_bindings_for_keys(ks)
        live = [b for b in bs if b.filter()]
        return handler_name(live[-1].handler) if live else "-"

    for ml in (False, True):
        for mode, keys, vimode in (("emacs", EMACS_KEYS, None), ("vi-ins", VI_INS_KEYS, InputMode.INSERT),
                                   ("vi-nav", VI_NAV_KEYS, InputMode.NAVIGATION)):
            session = PromptSession(input=DummyInput(), output=DummyOutput(), multiline=ml,
                                    editing_mode=EditingMode.EMACS if vimode is None else EditingMode.VI)
            app = session.app
            with set_app(app):
                if vimode is not None:
                    app.vi_state.input_mode = vimode
                for name, ks in keys:
                    rows.append((mode + ("-ml" if ml else ""), name, dispatch(app, ks)))
                if mode == "vi-nav":
                    # `<n>G`: with a numeric argument typed
                    app.key_processor.arg = "2"
                    rows.append((mode + "-arg" + ("-ml" if ml else ""), "G", dispatch(app, ("G",))))
                    app.key_processor.arg = None
    return rows


def probe_cwt():
    from prompt_toolkit import PromptSession
    from prompt_toolkit.application.current import set_app
    from prompt_toolkit.input import DummyInput
    from prompt_toolkit.output import DummyOutput
    from prompt_toolkit.shortcuts import CompleteStyle

    rows = []
    for cwt in (False, True):
        for ehs in (False, True):
            for rl in (False, True):
                s = PromptSession(input=DummyInput(), output=DummyOutput(), complete_while_typing=cwt,
                                  enable_history_search=ehs,
                                  complete_style=CompleteStyle.READLINE_LIKE if rl else CompleteStyle.COLUMN)
                with set_app(s.app):
                    rows.append((cwt, ehs, rl, bool(s.default_buffer.complete_while_typing())))
    return rows


def probe_end_hist_count():
    from prompt_toolkit.key_binding.bindings import named_commands as nc

    fn = nc.get_by_name("end-of-history").handler
    tree = ast.parse(textwrap.dedent(inspect.getsource(fn)))
    for node in ast.walk(tree):
        if isinstance(node, ast.Call) and isinstance(node.func, ast.Attribute) and node.func.attr == "history_forward":
            for kw in node.keywords:
                if kw.arg == "count":
                    return int(eval(compile(ast.Expression(kw.value), "<count>", "eval"), {"__builtins__": {}}))
            if node.args:
                return int(eval(compile(ast.Expression(node.args[0]), "<count>", "eval"), {"__builtins__": {}}))
    return 1


def probe_accept_keeps():
    from prompt_toolkit.shortcuts.prompt import PromptSession

    tree = ast.parse(textwrap.dedent(inspect.getsource(PromptSession._create_default_buffer)))
    for node in ast.walk(tree):
        if isinstance(node, ast.FunctionDef) and node.name == "accept":
            rets = [n for n in ast.walk(node) if isinstance(n, ast.Return)]
            return bool(rets) and all(isinstance(r.value, ast.Constant) and r.value.value is True for r in rets)
    return False


def probe_goto_resets():
    """does Buffer.go_to_history forget the remembered search prefix? (behavioural probe)"""
    from collections import deque

    from prompt_toolkit.buffer import Buffer

    b = Buffer(enable_history_search=True)
    b._working_lines = deque(["ab", "cd", ""])
    b.working_index = 2
    b.history_search_text = "zz"
    b.go_to_history(0)
    return b.working_index == 0 and b.history_search_text is None


def lbool(b) -> str:
    return "true" if b else "false"


def generate() -> None:
    try:
        keys = probe_keys()
    except Exception as e:  # broken tree: keep the file well-formed, `gen_ok` then fails
        keys = [("error", type(e).__name__, str(e)[:60].replace("\n", " "))]
    try:
        cwt = probe_cwt()
    except Exception:
        cwt = []
    try:
        cnt = probe_end_hist_count()
    except Exception:
        cnt = 1
    try:
        keeps = probe_accept_keeps()
    except Exception:
        keeps = False
    try:
        from prompt_toolkit.buffer import ValidationState
        vstates = [m.name for m in ValidationState]
    except Exception:
        vstates = []
    body = "namespace Ptk.Gen.C14\n\n"
    body += "/-- (mode, key, handler dispatched by a real PromptSession) -/\n"
    body += "def keyTable : List (String × String × String) := [\n"
    body += ",\n".join(f"  ({G.lstr(m)}, {G.lstr(k)}, {G.lstr(h)})" for m, k, h in keys) + "]\n\n"
    body += ("/-- (complete_while_typing, enable_history_search, readline-like completion, value of the\n"
             "    default buffer's complete_while_typing filter) -/\n")
    body += "def cwtTable : List (Bool × Bool × Bool × Bool) := [\n"
    body += ",\n".join(f"  ({lbool(a)}, {lbool(b)}, {lbool(c)}, {lbool(d)})" for a, b, c, d in cwt) + "]\n\n"
    body += "/-- `count` of the `history_forward` call in the named command `end-of-history` -/\n"
    body += f"def endHistCount : Int := {cnt}\n\n"
    body += "/-- members of `ValidationState`, in definition order -/\n"
    body += "def vstates : List String := [" + ", ".join(G.lstr(x) for x in vstates) + "]\n\n"
    try:
        import prompt_toolkit.buffer as pb
        qre = pb._QUOTED_WORDS_RE.pattern
        qflags = int(pb._QUOTED_WORDS_RE.flags)
    except Exception:
        qre, qflags = "?", -1
    body += "/-- `_QUOTED_WORDS_RE.pattern` and `.flags` (32 = re.UNICODE only) -/\n"
    body += f"def quotedWordsRe : String := {G.lstr(qre)}\n"
    body += f"def quotedWordsFlags : Int := {qflags}\n\n"
    try:
        gfix = probe_goto_resets()
    except Exception:
        gfix = False
    body += ("/-- `Buffer.go_to_history` forgets `history_search_text` (true once\n"
             "    proposed_fixes/C14-go-to-history-resets-search.diff is applied; probed by behaviour) -/\n")
    body += f"def goToHistoryResetsSearch : Bool := {lbool(gfix)}\n\n"
    body += "/-- the PromptSession accept handler returns True (the text is kept until the next prompt resets it) -/\n"
    body += f"def acceptKeeps : Bool := {lbool(keeps)}\n\n"
    body += "end Ptk.Gen.C14\n"
    G.write("C14.lean", body)


if __name__ == "__main__":
    generate()
    for r in probe_keys():
        print(r)
    print(probe_cwt())
    print(probe_end_hist_count(), probe_accept_keeps())
