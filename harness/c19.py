#!/venv/bin/python
"""C19 — style cascade and colour encoding: correspondence with Ptk.Model.C19* + property oracle."""
from __future__ import annotations

import itertools
import os
import sys

sys.path.insert(0, os.path.dirname(os.path.abspath(__file__)))
import core
from core import enc_str, enc_bool

from prompt_toolkit.formatted_text import ANSI
from prompt_toolkit.output import ColorDepth
from prompt_toolkit.output import vt100
from prompt_toolkit.output.vt100 import (
    ANSI_COLORS_TO_RGB,
    BG_ANSI_COLORS,
    FG_ANSI_COLORS,
    _16ColorCache,
    _EscapeCodeCache,
    _get_closest_ansi_color,
)
from prompt_toolkit.styles import (ANSI_COLOR_NAMES, DEFAULT_ATTRS, Attrs, DummyStyle, DynamicStyle, Style,
                                   merge_styles)
from prompt_toolkit.styles import style as style_mod
from prompt_toolkit.styles import style_transformation as strans
from prompt_toolkit.styles import Priority, style_from_pygments_dict, pygments_token_to_classname
from prompt_toolkit.styles.style import _expand_classname, _parse_style_str, parse_color
from prompt_toolkit.styles.defaults import default_ui_style, default_pygments_style
from prompt_toolkit.styles.style_transformation import (
    AdjustBrightnessStyleTransformation, ConditionalStyleTransformation, DummyStyleTransformation,
    DynamicStyleTransformation, ReverseStyleTransformation, SetDefaultColorStyleTransformation,
    SwapLightAndDarkStyleTransformation, merge_style_transformations)

ID = "C19"
DRIVER = "drv_c19"
PROPS = ["Ptk.Props.C19", "Ptk.Props.C19Cascade", "Ptk.Props.C19Color", "Ptk.Props.C19Sgr", "Ptk.Props.C19Depth",
         "Ptk.Props.C19Style", "Ptk.Props.C19Valid", "Ptk.Props.C19Merge", "Ptk.Props.C19Ext", "Ptk.Props.C19Dict",
         "Ptk.Props.C19Obj", "Ptk.Props.C19Shadow", "Ptk.Props.C19Transform", "Ptk.Props.C19TrHash",
         "Ptk.Props.C19Pins", "Ptk.Props.C19Ext2", "Ptk.Props.C19Stream", "Ptk.Props.C19Expand",
         "Ptk.Props.C19Noinherit", "Ptk.Props.C19Pygments"]
LEVEL_TEXT = ("Lean 4 theorems over an executable model of styles/style.py (parse_color, _parse_style_str, Style, "
              "Style.from_dict + Priority, get_attrs_for_style_str with the combos construction, _merge_attrs, merge_styles, "
              "_MergedStyle with its one-entry cache, invalidation_hash), styles/base.py (DummyStyle, DynamicStyle), "
              "styles/pygments.py, styles/style_transformation.py (all transformations; the float HLS arithmetic is a "
              "parameter), Application._create_merged_style with the default sheets regenerated from styles/defaults.py, "
              "output/vt100.py (_get_closest_ansi_color, _16/_256ColorCache, _EscapeCodeCache) and formatted_text/ansi.py "
              "(ANSI parser, _select_graphic_rendition, _create_style_string): last-wins cascade with every attribute "
              "concrete; a rule takes part iff all its classes occur = iff each is a dotted prefix of a class named in the "
              "string; '[..]' parts ignored, 'noinherit' sets everything; MOST_PRECISE = THE stable sort by number of "
              "elements (uniqueness proved), most precise applicable rule applied last; merged sheets = concatenated rule "
              "tables over any object graph (Dummy/Dynamic/nested merges), merging is pure over shared sheet objects; "
              "equal invalidation_hash => equal rules, hence the merged style's cache is transparent for every call "
              "sequence with changing DynamicStyles; a user rule beats a default rule with the same classes in the "
              "application's style stack; transformations: merged = composition, frame (flags untouched, no None, colours "
              "stay valid so the transformed attributes still round-trip), Reverse / ANSI part of Swap are involutions, "
              "equal hash => equal transformation; argmin lemma for any palette (nearest, first on ties, exact colours "
              "fixed), an RGB background never collapses onto the ANSI colour of a different RGB foreground at 4 bit; "
              "24-bit escape -> ANSI -> style string -> Attrs is the identity on canonical attributes for every Attrs "
              "field, also for each sequence inside a stream; 8/4/1-bit escapes decode to the nearest palette colour / "
              "ANSI name / no colour. The if/elif chains of _parse_style_str, _EscapeCodeCache.__missing__, "
              "_select_graphic_rendition, _create_style_string are extracted from the AST of the current tree on every "
              "run and the kernel checks, for all inputs, that the model equals their interpretation; table side "
              "conditions are re-decided on regenerated tables; differential correspondence + property oracle")
LEVEL_NOTE = ("trusted: Lean kernel, axioms propext/Classical.choice/Quot.sound only; the hand-written model "
              "(validated by the correspondence, not proved equal to the Python; the four if/elif chains named above "
              "ARE proved equal to the interpretation of the extracted AST); CPython str/int/dict/sorted semantics; "
              "colorsys float arithmetic is outside the model (measured values are inputs)")
TECHNIQUE = "machine-checked proof (Lean 4) + generated tables + differential correspondence + property oracle"
RULE = ("exhaustive: every rule list up to the tier bound over 6 class-name sets x 3 attribute sets, every style "
        "string up to 3 parts over 7 parts (single, dotted, comma-combined classes, inline attributes), every "
        "contiguous split of the rule lists into 2-3 merged sheets; every session of <=3 merge/sheet queries over 10 "
        "targets sharing three Style objects; Style.from_dict for every ordered choice of 3 (thorough 4) of 9 keys x "
        "both priorities; every merge of <=2 of 11 style objects (Style / DummyStyle / DynamicStyle / nested / None) "
        "with rules, hash and queries; every sequence of <=2 (thorough 3) re-targetings of the DynamicStyle parts of 3 "
        "merged styles, queried after each step; the Application stack for 8 user styles x pygments on/off; every "
        "primitive transformation x 306 attribute tuples, every wrapper and every pair; streams of escape sequences "
        "with each flag on/off after each other; all 128 flag tuples x colour pairs x 4 depths; RGB grid + palette "
        "neighbourhoods (thorough: all 256^3 triples for the 256-colour map); then seeded random sheets / dicts / "
        "object graphs / transformation trees / style strings / attrs / streams / SGR parameter lists incl. malformed "
        "ones. A case is non-trivial when at least one rule or inline part applies, resp. the colour is not an exact "
        "palette entry, resp. the object / transformation is not a bare dummy")
EXHAUSTIVE = True
EXHAUSTIVE_SCOPE = {
    "quick": "rule lists <=1 over 18 rules x all style strings <=3 parts over 7 parts, rule lists of 2 x all style "
             "strings <=2 parts (+ every 5th of 3 parts); all splits into 2-3 sheets of lists <=2; from_dict: all "
             "3-permutations of 9 keys x 2 priorities; objects: 148 graphs; merged-style sessions: 3 tops x all <=2 "
             "re-targetings of 8; 19 primitive transformations x 306 attrs, 90 composites; 128 flag tuples "
             "x 14 colour pairs x depths {1,4,8,24}; RGB 17^3 grid for both maps",
    "thorough": "rule lists <=2 over 18 rules x all style strings <=3 parts over 7 parts (lists <=1: <=4 parts), rule "
                "lists of 3 x strings <=2 parts (+ sample); all splits into 2-3 sheets; from_dict: half of all "
                "4-permutations of 9 keys; sessions: all <=3 re-targetings; 128 flag tuples x 14 colour "
                "pairs x 4 depths; real code + oracle on ALL 256^3 RGB triples for the 256-colour map (model side on "
                "every 8th r-plane + grids); 52^3 grid x exclusion lists for the 16-colour map"}
TRUSTED = ["harness/c19.py compares Attrs / escape strings / fragments / palette indices / rule lists / canonicalised "
           "hashes line by line (id() values are renamed to the index of the Style object, transformation instance "
           "hashes to their class)",
           "harness/gen_c19.py prints the live colour tables of /repo into lean/Ptk/Gen/C19.lean, and the AST-extracted "
           "if/elif chains, Attrs._fields, CLASS_NAMES_RE, Priority, OPPOSITE_ANSI_COLOR_NAMES and the default style "
           "sheets into lean/Ptk/Gen/C19X.lean, plus two behaviour probes (does parse_color reject '#'+non-hex? does "
           "AdjustBrightness skip the colour 'default'?) that select the corresponding branch of the model",
           "Ptk/Model/C19*.lean are hand translations of styles/style.py, styles/base.py, styles/pygments.py, "
           "styles/style_transformation.py, output/vt100.py (colour part), formatted_text/ansi.py (correspondence-checked)"]
ASSUMPTIONS = ["CPython str.split/lower/int(s,16)/dict-order semantics; str.lower and int() modelled for ASCII input",
               "sorted(key=) is a stable sort (the model is proved to be the unique stable sorted permutation)",
               "str.isspace / regex \\s tables regenerated from the interpreter",
               "the colour caches (_EscapeCodeCache, _16ColorCache, _256ColorCache, memoized get_opposite_color) are "
               "memoisation of pure functions; exercised by repeated and interleaved queries. The SimpleCache(maxsize=1) "
               "of _MergedStyle IS modelled",
               "id() is unique among the Style objects alive (IdOk): a stale renderer cache keyed on a dead object's id "
               "is C06's subject, not claimed here",
               "colorsys.rgb_to_hls / hls_to_rgb / int(x*255) are not modelled: the text they produce is a parameter of the "
               "model (theorems: for every such function printing six hex digits); the correspondence feeds the driver the "
               "values measured on the real code, so it checks everything AROUND the float arithmetic, not the arithmetic",
               "RGB components are in 0..255 (the encoder guarantees it with & 0xFF)"]
PARTIAL_SCOPE = ["DummyStyle / DynamicStyle returning None queried DIRECTLY return the default argument untouched (inline "
                 "parts ignored, None fields kept) - by design 'a style that doesn't style anything'; the cascade theorems "
                 "apply to Style and merged styles (inside a merge a DummyStyle is the empty sheet: proved)",
                 "MOST_PRECISE orders the rule TABLE; across different class-name steps of one style string the later "
                 "step still wins (proved statement: within one step the most precise applicable rule is applied last)",
                 "a user rule beats a default rule WITH THE SAME CLASS SET in the attributes it sets (any style string); a "
                 "default rule triggered at a later class name of the string can still override an earlier user rule - "
                 "that is the left-to-right semantics of the style string, not modelled away",
                 "SwapLightAndDark on RGB colours and AdjustBrightness: only structure, exceptions and frame are proved; "
                 "numeric results are parameters. Observed on the real code (not a C19 violation): swapping twice is not "
                 "the identity on RGB ('010101' -> 'fefefe' -> '000000', float truncation)",
                 "finding outside the property's statement: AdjustBrightnessStyleTransformation raises ValueError on the "
                 "foreground colour 'default' (which parse_color hands out and SwapLightAndDark treats as no colour); Lean "
                 "witness adjust_raises_on_default, totality on every other valid colour adjust_total_gen; "
                 "proposed_fixes/C19-adjust-brightness-default-colour.diff (the model follows either behaviour via a probe)",
                 "style_from_pygments_cls is style_from_pygments_dict(cls.styles): only the dict part is modelled; "
                 "non-ASCII class names (str.lower beyond ASCII) are outside the model",
                 "the round trip is modulo the canonical form: None = ''/False, 'default' = '', hex digits lower-case "
                 "(the decoder prints lower-case hex)",
                 "parse_color validated hex digits are required for the round trip of every resolvable string "
                 "(gen_hexValidated; fixed in 5e50570 - if undone, the build breaks and the old witness '#zzzzzz' is replayed)",
                 "16-colour map: the saturation rule lists the obsolete names ansilightgray/ansidarkgray, so grays stay "
                 "admissible for saturated colours (modelled as is; nearest among the admissible set is proved)"]
ANCHORS = ["src/prompt_toolkit/styles/style.py", "src/prompt_toolkit/styles/base.py",
           "src/prompt_toolkit/styles/style_transformation.py", "src/prompt_toolkit/styles/pygments.py",
           "src/prompt_toolkit/styles/defaults.py", "src/prompt_toolkit/output/vt100.py",
           "src/prompt_toolkit/formatted_text/ansi.py", "src/prompt_toolkit/application/application.py",
           "src/prompt_toolkit/cache.py"]
MODELLED = {
    "src/prompt_toolkit/styles/style.py": [
        "_is_hex", "parse_color", "_expand_classname", "_parse_style_str", "Style.__init__", "Style.style_rules",
        "Style.from_dict", "Style.from_dict.key", "Style.get_attrs_for_style_str", "Style.invalidation_hash",
        "_merge_attrs", "_merge_attrs._or", "merge_styles", "_MergedStyle._merged_style",
        "_MergedStyle._merged_style.get", "_MergedStyle.style_rules", "_MergedStyle.get_attrs_for_style_str",
        "_MergedStyle.invalidation_hash"],
    "src/prompt_toolkit/styles/base.py": [
        "DummyStyle.get_attrs_for_style_str", "DummyStyle.invalidation_hash", "DummyStyle.style_rules",
        "DynamicStyle.get_attrs_for_style_str", "DynamicStyle.invalidation_hash", "DynamicStyle.style_rules"],
    "src/prompt_toolkit/styles/pygments.py": ["style_from_pygments_dict", "pygments_token_to_classname"],
    "src/prompt_toolkit/styles/defaults.py": ["default_ui_style", "default_pygments_style"],
    "src/prompt_toolkit/styles/style_transformation.py": [
        "StyleTransformation.invalidation_hash", "SwapLightAndDarkStyleTransformation.transform_attrs",
        "ReverseStyleTransformation.transform_attrs", "SetDefaultColorStyleTransformation.transform_attrs",
        "SetDefaultColorStyleTransformation.invalidation_hash", "AdjustBrightnessStyleTransformation.transform_attrs",
        "AdjustBrightnessStyleTransformation._color_to_rgb", "AdjustBrightnessStyleTransformation.invalidation_hash",
        "DummyStyleTransformation.transform_attrs", "DummyStyleTransformation.invalidation_hash",
        "DynamicStyleTransformation.transform_attrs", "DynamicStyleTransformation.invalidation_hash",
        "ConditionalStyleTransformation.transform_attrs", "ConditionalStyleTransformation.invalidation_hash",
        "_MergedStyleTransformation.transform_attrs", "_MergedStyleTransformation.invalidation_hash",
        "merge_style_transformations", "get_opposite_color"],
    "src/prompt_toolkit/output/vt100.py": [
        "_get_closest_ansi_color", "_16ColorCache.get_code", "_16ColorCache._get", "_256ColorCache.__missing__",
        "_EscapeCodeCache.__missing__", "_EscapeCodeCache._color_name_to_rgb", "_EscapeCodeCache._colors_to_code",
        "_EscapeCodeCache._colors_to_code.get"],
    "src/prompt_toolkit/formatted_text/ansi.py": [
        "ANSI.__init__", "ANSI._parse_corot", "ANSI._select_graphic_rendition", "ANSI._create_style_string"],
    "src/prompt_toolkit/application/application.py": [
        "Application._create_merged_style", "Application._create_merged_style.conditional_pygments_style"],
    "src/prompt_toolkit/cache.py": ["SimpleCache.get"],
}

DEPTHS = {1: ColorDepth.DEPTH_1_BIT, 4: ColorDepth.DEPTH_4_BIT, 8: ColorDepth.DEPTH_8_BIT,
          24: ColorDepth.DEPTH_24_BIT}
PALETTE = list(vt100._256_colors.colors)
HEX = "0123456789abcdefABCDEF"


# ------------------------------------------------------------------ encoding
def enc_opt_str(v):
    return "N" if v is None else enc_str(v)


def enc_opt_bool(v):
    return "N" if v is None else enc_bool(v)


def enc_attrs(a) -> str:
    a = list(a)
    return " ".join([enc_opt_str(a[0]), enc_opt_str(a[1])] + [enc_opt_bool(x) for x in a[2:9]])


def enc_sheets(sheets) -> str:
    toks = [str(len(sheets))]
    for s in sheets:
        if s is None:
            toks.append("N")
        else:
            toks.append(str(len(s)))
            for names, st in s:
                toks += [enc_str(names), enc_str(st)]
    return " ".join(toks)


def enc_frags(frags) -> str:
    return core.enc_list(frags, lambda f: enc_str(f[0]) + " " + enc_str(f[1]))


DEFAULT_LIST = list(DEFAULT_ATTRS)


# ------------------------------------------------------------------ model lines
def model_lines(case):
    k = case["k"]
    if k == "q":
        d = enc_attrs(case.get("default") or DEFAULT_LIST)
        sh = enc_sheets(case["sheets"])
        return [f"q {d} {sh} {enc_str(s)}" for s in case["strs"]]
    if k == "sess":
        d = enc_attrs(case.get("default") or DEFAULT_LIST)
        out = ["new"]
        for sh in case["sheets"]:
            out.append("sheet " + " ".join([str(len(sh))] + [enc_str(x) for r in sh for x in r]))
        for op in case["ops"]:
            tgt = op[1]
            t = f"S {tgt[1]}" if tgt[0] == "S" else \
                "M " + " ".join([str(len(tgt[1]))] + ["N" if i is None else str(i) for i in tgt[1]])
            out.append(f"sq {d} {t} {enc_str(op[2])}" if op[0] == "q" else f"srules {t}")
        return out
    if k in ("pc", "ps", "ex", "hex", "ansi"):
        return [f"{k} {enc_str(t)}" for t in case["texts"]]
    if k == "c256":
        return [f"c256 {r} {g} {b}" for r, g, b in case["rgbs"]]
    if k == "c256row":
        # the model side of the full sweep is run on every 8th r-plane (2.1 M triples); the real
        # code and the property oracle are evaluated on ALL 256^3 triples
        return [f"c256row {case['r']} {g}" for g in case["gs"]] if case.get("corr", True) else []
    if k == "c16":
        return [f"c16 {r} {g} {b} {core.enc_list(ex, enc_str)}" for (r, g, b, ex) in case["items"]]
    if k == "c16code":
        return [f"c16code {bg} {r} {g} {b} {core.enc_list(ex, enc_str)}" for (bg, r, g, b, ex) in case["items"]]
    if k in ("esc", "rt"):
        return [f"{k} {d} {enc_attrs(a)}" for d in case["depths"] for a in case["attrs"]]
    if k == "fd":
        d = enc_attrs(case.get("default") or DEFAULT_LIST)
        items = " ".join([str(len(case["items"]))] + [enc_str(x) for r in case["items"] for x in r])
        mp = 1 if case["mp"] else 0
        return [f"fd {mp} {items}"] + [f"fdq {mp} {d} {items} {enc_str(t)}" for t in case["strs"]]
    if k == "pyg":
        toks = [str(len(case["items"]))]
        for tok, st in case["items"]:
            toks += [str(len(tok))] + [enc_str(x) for x in tok] + [enc_str(st)]
        return ["pyg " + " ".join(toks)]
    if k == "obj":
        d = enc_attrs(case.get("default") or DEFAULT_LIST)
        out = []
        for spec in case["objs"]:
            e = enc_obj(spec, case["sheets"])
            out += [f"orules {e}", f"ohash {e}"] + [f"oq {d} {e} {enc_str(t)}" for t in case["strs"]]
        return out
    if k == "msess":
        d = enc_attrs(case.get("default") or DEFAULT_LIST)
        out = ["mnew"]
        cur = {}
        for st in case["steps"]:
            if st[0] == "set":
                cur[st[1]] = st[2]
            else:
                snap = [snapshot(p, cur) for p in case["top"]]
                e = " ".join([str(len(snap))] + [enc_obj(x, case["sheets"]) for x in snap])
                out += [f"mq {d} {e} {enc_str(st[1])}", f"ohash M {e}"]
        return out
    if k == "app":
        d = enc_attrs(case.get("default") or DEFAULT_LIST)
        u = "X" if case["user"] is None else "U " + enc_obj(case["user"], case["sheets"])
        return [f"app {1 if case['inc'] else 0} {d} {u} {enc_str(t)}" for t in case["strs"]]
    if k == "tr":
        e = enc_tr(case["t"])
        out = [f"trh {e}"]
        for a, (entries, _res) in zip(case["attrs"], tr_run(case)):
            fl = [str(len(entries))]
            for en in entries:
                if en[0] == "SW":
                    fl += ["SW", enc_str(en[1]), enc_str(en[2])]
                else:
                    fl += ["AD", str(en[1]), str(en[2]), enc_str(en[3]), enc_str(en[4])]
            out.append(f"tr {enc_attrs(a)} {' '.join(fl)} {e}")
        return out
    if k == "trs":
        out = []
        for snap in trs_snapshots(case):
            sub = {"k": "tr", "t": snap, "attrs": case["attrs"]}
            out += model_lines(sub)
        return out
    if k == "hex3":
        return [f"pc {enc_str('#' + c)}" for c in case["cols"]]
    if k == "xterm":
        return [f"c256 {r} {g} {b}" for (r, g, b) in (xterm_rgb(i) for i in case["idx"])]
    if k == "stream":
        return [f"stream {case['depth']} {len(case['attrs'])} " + " ".join(enc_attrs(a) for a in case["attrs"])]
    raise ValueError(k)


# ------------------------------------------------------------------ style objects / transformations
def enc_obj(spec, sheets) -> str:
    t = spec[0]
    if t == "S":
        sh = sheets[spec[1]]
        return " ".join(["S", str(spec[1]), str(len(sh))] + [enc_str(x) for r in sh for x in r])
    if t in ("D", "N"):
        return t
    if t == "Y":
        return "Y " + enc_obj(spec[1], sheets)
    if t == "M":
        kids = [x for x in spec[1] if x is not None]      # merge_styles drops None
        return " ".join(["M", str(len(kids))] + [enc_obj(x, sheets) for x in kids])
    raise ValueError(spec)


def snapshot(spec, cur):
    """replace every dynamic slot ['V', k] by what its getter returns now"""
    if spec is None:
        return None
    t = spec[0]
    if t == "V":
        tgt = cur.get(spec[1])
        return ["N"] if tgt is None else ["Y", snapshot(tgt, cur)]
    if t == "Y":
        return ["Y", snapshot(spec[1], cur)]
    if t == "M":
        return ["M", [snapshot(x, cur) for x in spec[1]]]
    return spec


class Builder:
    """real objects for specs; Style objects are shared by sheet index (one object = one identity)"""

    def __init__(self, sheets):
        self.sheets = [Style([tuple(r) for r in sh]) for sh in sheets]
        self.ids = {id(st.class_names_and_attrs): i for i, st in enumerate(self.sheets)}
        self.cur = {}
        self.memo = {}

    def build(self, spec):
        if spec is None:
            return None
        t = spec[0]
        if t == "S":
            return self.sheets[spec[1]]
        if t == "D":
            return DummyStyle()
        if t == "N":
            return DynamicStyle(lambda: None)
        if t == "Y":
            o = self.build(spec[1])
            return DynamicStyle(lambda o=o: o)
        if t == "V":
            k = spec[1]
            return DynamicStyle(lambda k=k: self.target(k))
        if t == "M":
            return merge_styles([self.build(x) for x in spec[1]])
        raise ValueError(spec)

    def target(self, k):
        spec = self.cur.get(k)
        if spec is None:
            return None
        key = (k, repr(spec))
        if key not in self.memo:
            self.memo[key] = self.build(spec)
        return self.memo[key]

    def canon_hash(self, h) -> str:
        if isinstance(h, tuple):
            return "(" + ",".join(self.canon_hash(x) for x in h) + ")"
        if h in self.ids:
            return f"I{self.ids[h]}"
        return str(h)


def spec_rules(spec, sheets):
    """the rule list the SPEC stands for (independent of the library's style_rules)"""
    if spec is None:
        return []
    t = spec[0]
    if t == "S":
        return [tuple(r) for r in sheets[spec[1]]]
    if t in ("D", "N"):
        return []
    if t == "Y":
        return spec_rules(spec[1], sheets)
    if t == "M":
        return [r for x in spec[1] for r in spec_rules(x, sheets)]
    raise ValueError(spec)


def q_or_err(obj, s, dflt):
    try:
        return obj.get_attrs_for_style_str(s, dflt)
    except ValueError:
        return "err:ValueError"
    except AssertionError:
        return "err:AssertionError"


def enc_res(r):
    return r if isinstance(r, str) else enc_attrs(r)


def enc_tr(t) -> str:
    k = t[0]
    if k in ("W", "R", "D", "N"):
        return k
    if k == "SD":
        return f"SD {enc_str(t[1])} {enc_str(t[2])}"
    if k == "AB":
        return f"AB {t[1]} {t[2]}"
    if k == "Y":
        return "Y " + enc_tr(t[1])
    if k == "C":
        return f"C {1 if t[2] else 0} " + enc_tr(t[1])
    if k == "M":
        return " ".join(["M", str(len(t[1]))] + [enc_tr(x) for x in t[1]])
    raise ValueError(t)


_FLT_LOG = []
_orig_opposite = strans.get_opposite_color


def _rec_opposite(colorname):
    r = _orig_opposite(colorname)
    if isinstance(colorname, str):
        _FLT_LOG.append(("SW", colorname, r))
    return r


strans.get_opposite_color = _rec_opposite


class _RecAdjust(AdjustBrightnessStyleTransformation):
    """the real transformation; only records what the float pipeline printed for which colour"""

    def transform_attrs(self, attrs):
        out = super().transform_attrs(attrs)
        from prompt_toolkit.utils import to_float
        _FLT_LOG.append(("AD", round(to_float(self.min_brightness) * 1000), round(to_float(self.max_brightness) * 1000),
                         attrs.color or "", out.color or ""))
        return out


def build_tr(t, callables=False):
    k = t[0]
    if k == "W":
        return SwapLightAndDarkStyleTransformation()
    if k == "R":
        return ReverseStyleTransformation()
    if k == "SD":
        if callables:
            return SetDefaultColorStyleTransformation(lambda: t[1], lambda: (lambda: t[2]))
        return SetDefaultColorStyleTransformation(t[1], t[2])
    if k == "AB":
        if callables:
            return _RecAdjust(lambda: t[1] / 1000.0, lambda: t[2] / 1000.0)
        return _RecAdjust(t[1] / 1000.0, t[2] / 1000.0)
    if k == "D":
        return DummyStyleTransformation()
    if k == "N":
        return DynamicStyleTransformation(lambda: None)
    if k == "Y":
        inner = build_tr(t[1], callables)
        return DynamicStyleTransformation(lambda: inner)
    if k == "C":
        from prompt_toolkit.filters import Condition
        inner = build_tr(t[1], callables)
        return ConditionalStyleTransformation(inner, Condition(lambda: t[2]) if callables else t[2])
    if k == "M":
        return merge_style_transformations([build_tr(x, callables) for x in t[1]])
    raise ValueError(t)


def canon_trhash(h) -> str:
    if isinstance(h, str):
        if h == "dummy-style-transformation":
            return "dummy"
        name = h.rsplit("-", 1)[0]
        return {"SwapLightAndDarkStyleTransformation": "inst0", "ReverseStyleTransformation": "inst1"}.get(name, h)
    if isinstance(h, tuple):
        if len(h) == 3 and h[0] == "set-default-color":
            return f"sd:{enc_str(h[1])}:{enc_str(h[2])}"
        if len(h) == 3 and h[0] == "adjust-brightness":
            return f"ab:{round(h[1] * 1000)}:{round(h[2] * 1000)}"
        if len(h) == 2 and isinstance(h[0], bool):
            return f"c{1 if h[0] else 0}[{canon_trhash(h[1])}]"
        return "(" + ",".join(canon_trhash(x) for x in h) + ")"
    return repr(h)


def snapshot_tr(t, flags, targets):
    k = t[0]
    if k == "CV":
        return ["C", snapshot_tr(t[1], flags, targets), bool(flags.get(t[2], False))]
    if k == "YV":
        tgt = targets.get(t[1])
        return ["N"] if tgt is None else ["Y", snapshot_tr(tgt, flags, targets)]
    if k == "Y":
        return ["Y", snapshot_tr(t[1], flags, targets)]
    if k == "C":
        return ["C", snapshot_tr(t[1], flags, targets), t[2]]
    if k == "M":
        return ["M", [snapshot_tr(x, flags, targets) for x in t[1]]]
    return t


def trs_states(case):
    """(flags, targets) before the first step and after every step"""
    flags = dict((int(k2), v) for k2, v in (case.get("flags0") or {}).items())
    targets = dict((int(k2), v) for k2, v in (case.get("targets0") or {}).items())
    out = [(dict(flags), dict(targets))]
    for st in case["steps"]:
        if st[0] == "flip":
            flags[st[1]] = not flags.get(st[1], False)
        else:
            targets[st[1]] = st[2]
        out.append((dict(flags), dict(targets)))
    return out


def trs_snapshots(case):
    return [snapshot_tr(case["t"], f, tg) for f, tg in trs_states(case)]


class TrState:
    """ONE real transformation object whose Conditions / dynamic getters read mutable state"""

    def __init__(self, case):
        self.flags, self.targets = {}, {}
        self.memo = {}
        self.obj = self.build(case["t"])

    def build(self, t):
        from prompt_toolkit.filters import Condition
        k = t[0]
        if k == "CV":
            slot = t[2]
            return ConditionalStyleTransformation(self.build(t[1]), Condition(lambda: bool(self.flags.get(slot, False))))
        if k == "YV":
            slot = t[1]
            return DynamicStyleTransformation(lambda: self.target(slot))
        if k == "Y":
            inner = self.build(t[1])
            return DynamicStyleTransformation(lambda: inner)
        if k == "C":
            return ConditionalStyleTransformation(self.build(t[1]), t[2])
        if k == "M":
            return merge_style_transformations([self.build(x) for x in t[1]])
        return build_tr(t)

    def target(self, slot):
        spec = self.targets.get(slot)
        if spec is None:
            return None
        key = (slot, repr(spec))
        if key not in self.memo:
            self.memo[key] = self.build(spec)
        return self.memo[key]


def trs_run(case):
    """per state of the ONE object: (raw hash, results per attrs)"""
    ts = TrState(case)
    out = []
    for flags, targets in trs_states(case):
        ts.flags, ts.targets = flags, targets
        try:
            h = ts.obj.invalidation_hash()
        except Exception as e:  # noqa: BLE001
            h = "err:" + type(e).__name__
        res = []
        for a in case["attrs"]:
            try:
                res.append(ts.obj.transform_attrs(Attrs(*a)))
            except ValueError:
                res.append("err:ValueError")
            except AssertionError:
                res.append("err:AssertionError")
        out.append((h, res))
    return out


XTERM_LEVELS = (0x00, 0x5F, 0x87, 0xAF, 0xD7, 0xFF)


def xterm_rgb(i):
    """the xterm 256-colour palette, stated independently of the library: 16 + 36 r + 6 g + b is the colour
    cube over the levels 00 5f 87 af d7 ff, 232 + k is the grey 8 + 10 k"""
    if 16 <= i <= 231:
        j = i - 16
        return (XTERM_LEVELS[j // 36], XTERM_LEVELS[(j // 6) % 6], XTERM_LEVELS[j % 6])
    if 232 <= i <= 255:
        v = 8 + 10 * (i - 232)
        return (v, v, v)
    raise ValueError(i)


_tr_memo = {}


def tr_run(case):
    """per attrs: (float results measured on the real code, result Attrs | 'err:..')"""
    key = repr((case["t"], case["attrs"], case.get("callables")))
    if key in _tr_memo:
        return _tr_memo[key]
    if len(_tr_memo) > 3000:
        _tr_memo.clear()
    tr = build_tr(case["t"], bool(case.get("callables")))
    out = []
    for a in case["attrs"]:
        del _FLT_LOG[:]
        try:
            r = tr.transform_attrs(Attrs(*a))
        except ValueError:
            r = "err:ValueError"
        except AssertionError:
            r = "err:AssertionError"
        except Exception as e:  # noqa: BLE001   (outside the modelled domain, e.g. ZeroDivisionError in colorsys)
            r = "err:" + type(e).__name__
        seen, entries = set(), []
        for en in _FLT_LOG:
            if en not in seen and all(x is not None for x in en):
                seen.add(en)
                entries.append(en)
        out.append((entries, r))
    _tr_memo[key] = out
    return out


def stream_text(case):
    c = esc_cache(case["depth"])
    return "".join(c[Attrs(*a)] + chr(97 + i % 26) for i, a in enumerate(case["attrs"]))


def fd_build(case):
    d = dict((n, st) for n, st in case["items"])
    assert len(d) == len(case["items"])
    try:
        return Style.from_dict(d, Priority.MOST_PRECISE if case["mp"] else Priority.DICT_KEY_ORDER)
    except AssertionError:
        return "err:AssertionError"
    except ValueError:
        return "err:ValueError"


def app_style(case):
    from prompt_toolkit.application import Application
    from prompt_toolkit.input import DummyInput
    from prompt_toolkit.output import DummyOutput
    b = Builder(case["sheets"])
    user = b.build(case["user"])
    app = Application(style=user, include_default_pygments_style=bool(case["inc"]), input=DummyInput(),
                      output=DummyOutput())
    return app._merged_style, b


# ------------------------------------------------------------------ real code
def build_sheets(sheets, wrap=None):
    """Style(...) for every sheet; the first constructor error wins (as an 'err:...' string).
    `wrap[i]` (optional): 'dyn' = hand the sheet over through a DynamicStyle, 'dummy' = an empty sheet
    is represented by DummyStyle(), 'dynnone' = a None entry is a DynamicStyle returning None."""
    out = []
    for i, s in enumerate(sheets):
        w = wrap[i] if wrap and i < len(wrap) else ""
        if s is None:
            out.append(DynamicStyle(lambda: None) if w == "dynnone" else None)
            continue
        try:
            st = Style([tuple(r) for r in s])
        except AssertionError:
            return None, "err:AssertionError"
        except ValueError:
            return None, "err:ValueError"
        if w == "dummy" and not s:
            st = DummyStyle()
        elif w == "dyn":
            st = DynamicStyle(lambda st=st: st)
        out.append(st)
    return out, None


def mk_default(case):
    d = case.get("default")
    return Attrs(*d) if d else DEFAULT_ATTRS


def the_style(styles, wrapped=False):
    live = [s for s in styles if s is not None]
    if len(styles) == 1 and len(live) == 1 and not wrapped:
        return live[0]
    # (a DummyStyle queried directly ignores the style string altogether; inside merge_styles it is
    # just an empty rule list, which is what the model represents)
    return merge_styles(styles)


def q_results(case):
    styles, err = build_sheets(case["sheets"], case.get("wrap"))
    if err:
        return [err] * len(case["strs"]), None
    st = the_style(styles, bool(case.get("wrap")))
    dflt = mk_default(case)
    out = []
    for s in case["strs"]:
        try:
            out.append(st.get_attrs_for_style_str(s, dflt))
        except ValueError:
            out.append("err:ValueError")
    return out, styles


_esc_caches = {}


def esc_cache(d):
    # a long-lived cache per depth (as Vt100_Output keeps them), so that cache hits are exercised too
    if d not in _esc_caches:
        _esc_caches[d] = _EscapeCodeCache(DEPTHS[d])
    if len(_esc_caches[d]) > 50000:
        _esc_caches[d].clear()
    return _esc_caches[d]


def real_rt(d, a):
    e = esc_cache(d)[Attrs(*a)]
    frags = list(ANSI(e + "x").__pt_formatted_text__())
    if len(frags) != 1:
        return e, frags, None
    try:
        back = Style([]).get_attrs_for_style_str(frags[0][0])
    except ValueError:
        back = "err:ValueError"
    return e, frags, back


def real_c256(rgb):
    return vt100._256_colors[tuple(rgb)]


_row_memo = {}


def real_row(r, g):
    """_256_colors[(r, g, b)] for all b (computed once per worker for impl_lines and oracle)"""
    if (r, g) not in _row_memo:
        if len(_row_memo) > 64:
            _row_memo.clear()
        cache = vt100._256_colors
        _row_memo[(r, g)] = [cache[(r, g, b)] for b in range(256)]
        cache.clear()
    return _row_memo[(r, g)]


def enc_rules(rules) -> str:
    return core.enc_list(list(rules), lambda r: enc_str(r[0]) + " " + enc_str(r[1]))


def run_session(case):
    """One session over SHARED style objects: every sheet is built once, merges of the same parts are
    reused unless marked fresh; returns (answers per op, sheets) with answers = Attrs | 'err:..' | rule list."""
    sheets = [Style([tuple(r) for r in sh]) for sh in case["sheets"]]
    dflt = mk_default(case)
    merges = {}
    answers = []
    for op in case["ops"]:
        tgt = op[1]
        if tgt[0] == "S":
            obj = sheets[tgt[1]]
        else:
            key = tuple(tgt[1])
            if (len(tgt) > 2 and tgt[2]) or key not in merges:
                merges[key] = merge_styles([None if i is None else sheets[i] for i in tgt[1]])
            obj = merges[key]
        if op[0] == "q":
            try:
                answers.append(obj.get_attrs_for_style_str(op[2], dflt))
            except ValueError:
                answers.append("err:ValueError")
        else:
            answers.append([tuple(r) for r in obj.style_rules])
    return answers, sheets


def impl_lines(case):
    k = case["k"]
    if k == "sess":
        answers, _ = run_session(case)
        out = ["ok"] + [f"ok {i}" for i in range(len(case["sheets"]))]
        for a in answers:
            out.append(a if isinstance(a, str) else enc_rules(a) if isinstance(a, list) else enc_attrs(a))
        return out
    if k == "q":
        res, _ = q_results(case)
        return [r if isinstance(r, str) else enc_attrs(r) for r in res]
    if k == "pc":
        out = []
        for t in case["texts"]:
            try:
                out.append(enc_str(parse_color(t)))
            except ValueError:
                out.append("err:ValueError")
        return out
    if k == "ps":
        out = []
        for t in case["texts"]:
            try:
                out.append(enc_attrs(_parse_style_str(t)))
            except ValueError:
                out.append("err:ValueError")
        return out
    if k == "ex":
        return [core.enc_list(_expand_classname(t), enc_str) for t in case["texts"]]
    if k == "hex":
        out = []
        c = esc_cache(24)
        for t in case["texts"]:
            try:
                out.append("%d %d %d" % c._color_name_to_rgb(t))
            except ValueError:
                out.append("err:ValueError")
        return out
    if k == "ansi":
        return [enc_frags(list(ANSI(t).__pt_formatted_text__())) for t in case["texts"]]
    if k == "c256":
        out = [str(real_c256(rgb)) for rgb in case["rgbs"]]
        if len(vt100._256_colors) > 100000:
            vt100._256_colors.clear()
        return out
    if k == "c256row":
        if not case.get("corr", True):
            return []
        return [" ".join(map(str, real_row(case["r"], g))) for g in case["gs"]]
    if k == "c16":
        return [enc_str(_get_closest_ansi_color(r, g, b, exclude=ex)) for (r, g, b, ex) in case["items"]]
    if k == "c16code":
        out = []
        for (bg, r, g, b, ex) in case["items"]:
            cache = vt100._16_bg_colors if bg else vt100._16_fg_colors
            try:
                code, name = cache.get_code((r, g, b), exclude=ex)
                out.append(f"{code} {enc_str(name)}")
            except KeyError:
                out.append("err:KeyError")
        return out
    if k == "esc":
        return [enc_str(esc_cache(d)[Attrs(*a)]) for d in case["depths"] for a in case["attrs"]]
    if k == "rt":
        out = []
        for d in case["depths"]:
            for a in case["attrs"]:
                e, frags, back = real_rt(d, a)
                if back is None:
                    out.append("frags:" + enc_frags(frags))
                elif isinstance(back, str):
                    out.append(back)
                else:
                    out.append(enc_str(frags[0][0]) + " " + enc_attrs(back))
        return out
    if k == "fd":
        st = fd_build(case)
        if isinstance(st, str):
            return [st] * (1 + len(case["strs"]))
        dflt = mk_default(case)
        return [enc_rules([tuple(r) for r in st.style_rules])] + [enc_res(q_or_err(st, t, dflt)) for t in case["strs"]]
    if k == "pyg":
        try:
            st = style_from_pygments_dict({tuple(tok): sty for tok, sty in case["items"]})
            return [enc_rules([tuple(r) for r in st.style_rules])]
        except (AssertionError, ValueError):
            # Style(...) rejected a class name / a colour: the rule list is what the model prints
            return [enc_rules([(pygments_token_to_classname(tuple(tok)), sty) for tok, sty in case["items"]])]
    if k == "obj":
        b = Builder(case["sheets"])
        dflt = mk_default(case)
        out = []
        for spec in case["objs"]:
            o = b.build(spec)
            out.append(enc_rules([tuple(r) for r in o.style_rules]))
            out.append(b.canon_hash(o.invalidation_hash()))
            out += [enc_res(q_or_err(o, t, dflt)) for t in case["strs"]]
        return out
    if k == "msess":
        b = Builder(case["sheets"])
        dflt = mk_default(case)
        top = merge_styles([b.build(p) for p in case["top"]])
        out = ["ok"]
        for st in case["steps"]:
            if st[0] == "set":
                b.cur[st[1]] = st[2]
            else:
                out.append(enc_res(q_or_err(top, st[1], dflt)))
                out.append(b.canon_hash(top.invalidation_hash()))
        return out
    if k == "app":
        st, _ = app_style(case)
        dflt = mk_default(case)
        return [enc_res(q_or_err(st, t, dflt)) for t in case["strs"]]
    if k == "tr":
        tr = build_tr(case["t"], bool(case.get("callables")))
        return [canon_trhash(tr.invalidation_hash())] + [enc_res(r) for _, r in tr_run(case)]
    if k == "trs":
        out = []
        for h, res in trs_run(case):
            out.append(canon_trhash(h))
            out += [enc_res(r) for r in res]
        return out
    if k == "hex3":
        out = []
        for c in case["cols"]:
            try:
                out.append(enc_str(parse_color("#" + c)))
            except ValueError:
                out.append("err:ValueError")
        return out
    if k == "xterm":
        out = [str(real_c256(list(xterm_rgb(i)))) for i in case["idx"]]
        vt100._256_colors.clear()
        return out
    if k == "stream":
        return [enc_frags(list(ANSI(stream_text(case)).__pt_formatted_text__()))]
    raise ValueError(k)


# ------------------------------------------------------------------ oracle
FIELDS = Attrs._fields


def expected_cascade(rules, style_str, default):
    """The property restated: the sequence of applicable sources (default, default rules, then from left to
    right every class / inline part; a rule applies at a class name iff that name is one of its classes and
    all its classes are present), and per attribute the last value that is not None."""
    seq = [default]
    for names, attrs in rules:
        if len(names) == 0:
            seq.append(attrs)
    present = set()
    for part in style_str.split():
        if part.startswith("class:"):
            for p in part[6:].lower().split(","):
                pieces = p.split(".")
                for i in range(1, len(pieces) + 1):
                    name = ".".join(pieces[:i]).lower()
                    now = present | {name}
                    for names, attrs in rules:
                        if name in names and names <= now:
                            seq.append(attrs)
                    present = now
        else:
            seq.append(_parse_style_str(part))
    vals = []
    for i, f in enumerate(FIELDS):
        v = "" if i < 2 else False
        for a in seq:
            if a[i] is not None:
                v = a[i]
        vals.append(v)
    return Attrs(*vals), present


_rt_memo = {}


def noinherit_front(style):
    """the same style string with every word 'noinherit' taken out and one put in FRONT (None: the word
    does not occur).  By the property a string means the same wherever the word stands: it only selects
    the starting point, every other word keeps its effect."""
    words = style.split()
    if "noinherit" not in words:
        return None
    return " ".join(["noinherit"] + [w for w in words if w != "noinherit"])


def check_noinherit(style, site):
    """`noinherit` never wipes what the other words of the SAME string set"""
    front = noinherit_front(style)
    if front is None:
        return []
    try:
        a, b2 = _parse_style_str(style), _parse_style_str(front)
    except ValueError:
        return []
    if a != b2:
        return [{"signature": "_parse_style_str | 'noinherit' wipes attributes set by other words of the same string",
                 "msg": f"{site}: {style!r} parses to {a}, but {front!r} (same words, noinherit first) to {b2}"}]
    return []


def oracle_q(case):
    v = []
    res, styles = q_results(case)
    if styles is None:
        return v
    # rules whose style string has 'noinherit' somewhere: the resolved attributes must be those of the sheet
    # in which the word stands first in each such rule (position independence), shown on the cascade itself
    moved = False
    norm_sheets = []
    for sh in case["sheets"]:
        if sh is None:
            norm_sheets.append(None)
            continue
        ns = []
        for names, st in sh:
            f = noinherit_front(st)
            if f is not None and f != st:
                moved = True
            ns.append([names, st if f is None else f])
        norm_sheets.append(ns)
    if moved:
        nstyles, nerr = build_sheets(norm_sheets, case.get("wrap"))
        if not nerr:
            nst = the_style(nstyles, bool(case.get("wrap")))
            dflt0 = mk_default(case)
            for s0, r0 in zip(case["strs"], res):
                if isinstance(r0, str):
                    continue
                try:
                    w0 = nst.get_attrs_for_style_str(s0, dflt0)
                except ValueError:
                    continue
                if w0 != r0:
                    v.append({"signature": "_parse_style_str | 'noinherit' wipes attributes set by other words of "
                                           "the same string",
                              "msg": f"sheets={case['sheets']!r} style={s0!r} resolves to {r0}; with 'noinherit' moved "
                                     f"to the front of each rule ({norm_sheets!r}) to {w0}: the value is not the one "
                                     f"given by the last applicable rule"})
                    break
    for s0 in case["strs"]:
        for part in s0.split():
            if not part.startswith("class:"):
                v += check_noinherit(part, "inline part")
                v += check_hex3_word(part, f"inline part of {s0!r}")
    for sh in case["sheets"]:
        for names, st in (sh or []):
            for w in st.split():
                v += check_hex3_word(w, f"rule {(names, st)!r}")
    live = [s for s in styles if s is not None]
    all_rules = [tuple(r) for s in case["sheets"] if s is not None for r in s]
    try:
        concat = Style(all_rules)
    except (ValueError, AssertionError):
        v.append({"signature": "merge_styles | concatenated rules rejected",
                  "msg": f"every sheet builds but Style(concatenated rules) raises: {case['sheets']!r}"})
        return v
    rules = concat.class_names_and_attrs
    dflt = mk_default(case)
    merged = merge_styles(styles) if len(styles) > 0 else None
    for s, r in zip(case["strs"], res):
        if isinstance(r, str):
            # a ValueError is only acceptable when an inline part is itself unparsable
            bad_inline = False
            for part in s.split():
                if not part.startswith("class:"):
                    try:
                        _parse_style_str(part)
                    except ValueError:
                        bad_inline = True
            if not bad_inline:
                v.append({"signature": "Style.get_attrs_for_style_str | raises on well-formed style string",
                          "msg": f"sheets={case['sheets']!r} style={s!r} -> {r}"})
            continue
        if any(x is None for x in r):
            v.append({"signature": "Style.get_attrs_for_style_str | attribute not concrete",
                      "msg": f"sheets={case['sheets']!r} style={s!r} -> {r}"})
        if not (isinstance(r.color, str) and isinstance(r.bgcolor, str)
                and all(isinstance(x, bool) for x in r[2:])):
            v.append({"signature": "Style.get_attrs_for_style_str | attribute not concrete",
                      "msg": f"wrong attribute types: style={s!r} -> {r}"})
        # the escape sequence emitted for the resolved attributes decodes back to them (24 bit)
        if all(isinstance(x, str) for x in r[:2]):
            key = tuple(r)
            if key not in _rt_memo:
                if len(_rt_memo) > 20000:
                    _rt_memo.clear()
                _rt_memo[key] = real_rt(24, list(r))
            e, frags, back = _rt_memo[key]
            if back != canon_attrs(r):
                if not (valid_color(r.color) and valid_color(r.bgcolor)):
                    if valid_color(dflt.color or "") and valid_color(dflt.bgcolor or ""):
                        v.append({"signature": SIG_UNVALIDATED_HEX,
                                  "msg": f"style={s!r} sheets={case['sheets']!r} resolves to {r}; escape {e!r} "
                                         f"decodes to {back}"})
                else:
                    v.append({"signature": "_EscapeCodeCache | 24-bit escape of resolved attributes does not decode back",
                              "msg": f"style={s!r} sheets={case['sheets']!r} resolves to {r}; escape {e!r} "
                                     f"decodes to {back}"})
        exp, _ = expected_cascade(rules, s, dflt)
        if r != exp:
            v.append({"signature": "Style.get_attrs_for_style_str | not the last applicable value",
                      "msg": f"sheets={case['sheets']!r} style={s!r} default={dflt}: got {r}, last-wins gives {exp}"})
        # merged == one sheet with the rules concatenated
        one = concat.get_attrs_for_style_str(s, dflt)
        if merged is not None and merged.get_attrs_for_style_str(s, dflt) != one:
            v.append({"signature": "merge_styles | differs from concatenated sheet",
                      "msg": f"sheets={case['sheets']!r} style={s!r}: merged "
                             f"{merged.get_attrs_for_style_str(s, dflt)} != concatenated {one}"})
        if r != one:
            v.append({"signature": "merge_styles | differs from concatenated sheet",
                      "msg": f"sheets={case['sheets']!r} style={s!r}: {r} != concatenated {one}"})
    return v


SIG_UNVALIDATED_HEX = "parse_color | '#' followed by 6 or 3 non-hex characters is accepted as a colour"


def valid_color(c):
    return c in ("", "default") or c in FG_ANSI_COLORS or (len(c) == 6 and all(ch in HEX for ch in c))


def canon_attrs(a):
    """the attributes an escape sequence can carry: None/'' -> no colour, flags as booleans, hex lower-case"""
    def col(c):
        c = c or ""
        if c == "default":
            return ""
        return c if c in FG_ANSI_COLORS else c.lower()
    return Attrs(col(a[0]), col(a[1]), *[bool(x) for x in a[2:9]])


def sqd(c, p):
    return (c[0] - p[0]) ** 2 + (c[1] - p[1]) ** 2 + (c[2] - p[2]) ** 2


def check_256(rgb, m, site):
    """m must be an index >= 16 of a nearest palette colour; exact palette colours keep their colour
    (which of several equally near entries is taken is not part of the property: correspondence only)"""
    v = []
    if not (16 <= m < len(PALETTE)):
        return [{"signature": f"{site} | index outside the 256-colour cube/gray ramp",
                 "msg": f"rgb={rgb} -> {m}"}]
    dm = sqd(rgb, PALETTE[m])
    best = min(sqd(rgb, PALETTE[j]) for j in range(16, len(PALETTE)))
    if dm != best:
        v.append({"signature": f"{site} | not a nearest palette colour",
                  "msg": f"rgb={rgb} -> {m} {PALETTE[m]} at distance {dm}, nearest is at {best}"})
    if tuple(rgb) in PALETTE[16:] and PALETTE[m] != tuple(rgb):
        v.append({"signature": f"{site} | exact palette colour not mapped to itself",
                  "msg": f"rgb={rgb} -> {m} {PALETTE[m]}"})
    return v


CHROMATIC = [n for n, (r, g, b) in ANSI_COLORS_TO_RGB.items() if not (r == g == b)]
GRAYS = [n for n, (r, g, b) in ANSI_COLORS_TO_RGB.items() if r == g == b and n != "ansidefault"]


def check_16(rgb, name, exclude, site):
    """name must be an allowed ANSI colour that is nearest among the allowed ones: always among the
    chromatic colours that are not excluded; among ALL non-excluded colours when the input is (nearly)
    gray; an exact ANSI colour maps to its own name."""
    v = []
    r, g, b = rgb
    if name not in ANSI_COLORS_TO_RGB:
        return [{"signature": f"{site} | unknown colour name", "msg": f"rgb={rgb} -> {name!r}"}]
    allowed_all = [n for n in ANSI_COLOR_NAMES if n != "ansidefault" and n not in exclude]
    if name == "ansidefault":
        sat = abs(r - g) + abs(g - b) + abs(b - r)
        left = [n for n in allowed_all if sat <= 30 or n in CHROMATIC]
        if left:
            v.append({"signature": f"{site} | no colour chosen although candidates exist",
                      "msg": f"rgb={rgb} exclude={exclude}"})
        return v
    if name in exclude:
        v.append({"signature": f"{site} | excluded colour chosen", "msg": f"rgb={rgb} exclude={exclude} -> {name}"})
    dm = sqd(rgb, ANSI_COLORS_TO_RGB[name])
    sat = abs(r - g) + abs(g - b) + abs(b - r)
    ref = allowed_all if sat <= 30 else [n for n in allowed_all if n in CHROMATIC]
    for n in ref:
        if sqd(rgb, ANSI_COLORS_TO_RGB[n]) < dm:
            v.append({"signature": f"{site} | not a nearest allowed colour",
                      "msg": f"rgb={rgb} exclude={exclude} -> {name} at {dm}, {n} is nearer"})
            break
    if not exclude:
        for n in allowed_all:
            if ANSI_COLORS_TO_RGB[n] == tuple(rgb) and ANSI_COLORS_TO_RGB[name] != tuple(rgb):
                v.append({"signature": f"{site} | exact palette colour not mapped to itself",
                          "msg": f"rgb={rgb} -> {name}"})
                break
    return v


def sgr_params(esc):
    assert esc.startswith("\x1b[0") and esc.endswith("m"), esc
    body = esc[2:-1]
    return [int(x) for x in body.split(";")]


def hex_rgb(c):
    return (int(c[0:2], 16), int(c[2:4], 16), int(c[4:6], 16))


def is_hex6(c):
    return len(c) == 6 and all(ch in HEX for ch in c)


def oracle_esc(case):
    """24 bit: decode(encode attrs) == attrs; 8/4 bit: each RGB colour is sent as a nearest palette code;
    1 bit: no colour at all; flags survive at every depth."""
    v = []
    inv_fg = {c: n for n, c in FG_ANSI_COLORS.items()}
    inv_bg = {c: n for n, c in BG_ANSI_COLORS.items()}
    for d in case["depths"]:
        for a in case["attrs"]:
            fgc, bgc = a[0] or "", a[1] or ""
            if not (valid_color(fgc) and valid_color(bgc)):
                continue
            e, frags, back = real_rt(d, a)
            want = canon_attrs(a)
            if back is None or isinstance(back, str):
                v.append({"signature": "_EscapeCodeCache | escape code does not decode to one styled fragment",
                          "msg": f"depth={d} attrs={a} esc={e!r} fragments={frags!r}"})
                continue
            if frags[0][1] != "x":
                v.append({"signature": "_EscapeCodeCache | escape code does not decode to one styled fragment",
                          "msg": f"depth={d} attrs={a} esc={e!r} fragments={frags!r}"})
            if tuple(back[2:]) != tuple(want[2:]):
                v.append({"signature": "_EscapeCodeCache | flags do not round-trip",
                          "msg": f"depth={d} attrs={a} esc={e!r} decoded={back}"})
            if d == 24:
                if back != want:
                    v.append({"signature": "_EscapeCodeCache | 24-bit escape does not decode to the same attributes",
                              "msg": f"attrs={a} esc={e!r} decoded={back}"})
                continue
            if d == 1:
                if back.color != "" or back.bgcolor != "":
                    v.append({"signature": "_EscapeCodeCache | 1-bit depth emits a colour",
                              "msg": f"attrs={a} esc={e!r}"})
                continue
            # depth 4 / 8: named colours are kept, RGB colours go to a nearest palette entry
            params = sgr_params(e)[1:]
            i = 0
            got = {}
            while i < len(params):
                p = params[i]
                if p in (38, 48) and i + 2 < len(params) + 0 and params[i + 1] == 5:
                    got["bg" if p == 48 else "fg"] = ("idx", params[i + 2])
                    i += 3
                elif p in inv_fg:
                    got["fg"] = ("name", inv_fg[p])
                    i += 1
                elif p in inv_bg:
                    got["bg"] = ("name", inv_bg[p])
                    i += 1
                else:
                    i += 1
            fg_name = None
            for which, col in (("fg", fgc), ("bg", bgc)):
                site = f"_EscapeCodeCache depth {d} {which}"
                if col in ("", "default"):
                    if which in got:
                        v.append({"signature": f"{site} | colour emitted for empty colour",
                                  "msg": f"attrs={a} esc={e!r}"})
                elif col in FG_ANSI_COLORS:
                    if got.get(which) != ("name", col):
                        v.append({"signature": f"{site} | named colour not kept",
                                  "msg": f"attrs={a} esc={e!r}"})
                else:
                    rgb = hex_rgb(col)
                    g = got.get(which)
                    if d == 8:
                        if not g or g[0] != "idx":
                            v.append({"signature": f"{site} | no palette index emitted", "msg": f"attrs={a} esc={e!r}"})
                        else:
                            v += check_256(rgb, g[1], site)
                    else:
                        if not g or g[0] != "name":
                            v.append({"signature": f"{site} | no ANSI colour emitted", "msg": f"attrs={a} esc={e!r}"})
                        else:
                            ex = []
                            if which == "bg" and fg_name is not None and fgc != bgc:
                                ex = [fg_name]
                            v += check_16(rgb, g[1], ex, site)
                            if which == "fg":
                                fg_name = g[1]
    return v


def oracle_sess(case):
    """merging is the same as ONE sheet with the rules concatenated - also when sheet objects take part
    in several merges / are queried alone in between - and merging leaves the sheets' own rules alone."""
    v = []
    answers, sheets = run_session(case)
    orig = [[tuple(r) for r in sh] for sh in case["sheets"]]
    dflt = mk_default(case)
    for n, (op, a) in enumerate(zip(case["ops"], answers)):
        tgt = op[1]
        parts = [tgt[1]] if tgt[0] == "S" else [i for i in tgt[1] if i is not None]
        want_rules = [r for i in parts for r in orig[i]]
        what = "sheet" if tgt[0] == "S" else "merge_styles"
        if op[0] == "q":
            try:
                want = Style(list(want_rules)).get_attrs_for_style_str(op[2], dflt)
            except ValueError:
                want = "err:ValueError"
            if a != want:
                v.append({"signature": f"{what} | differs from concatenated sheet after earlier merges",
                          "msg": f"sheets={case['sheets']!r} ops={case['ops'][:n + 1]!r}: step {n} gives {a}, one sheet "
                                 f"with the concatenated rules {want_rules!r} gives {want}"})
        elif a != want_rules:
            v.append({"signature": f"{what} | style_rules is not the concatenation of the constituent rules",
                      "msg": f"sheets={case['sheets']!r} ops={case['ops'][:n + 1]!r}: step {n} style_rules={a!r}, "
                             f"expected {want_rules!r}"})
    for i, st in enumerate(sheets):
        if [tuple(r) for r in st.style_rules] != orig[i]:
            v.append({"signature": "merge_styles | a constituent sheet's style_rules changed",
                      "msg": f"sheets={case['sheets']!r} ops={case['ops']!r}: sheet {i} now has style_rules="
                             f"{list(st.style_rules)!r}"})
    return v


def oracle(case):
    k = case["k"]
    v = []
    if k == "sess":
        v = oracle_sess(case)
    elif k == "q":
        v = oracle_q(case)
    elif k == "c256":
        for rgb in case["rgbs"]:
            v += check_256(tuple(rgb), real_c256(rgb), "_256ColorCache")
    elif k == "c256row":
        r = case["r"]
        for g in case["gs"]:
            v += check_256_row(r, g, real_row(r, g))
    elif k == "c16":
        for (r, g, b, ex) in case["items"]:
            v += check_16((r, g, b), _get_closest_ansi_color(r, g, b, exclude=ex), ex, "_get_closest_ansi_color")
    elif k == "c16code":
        for (bg, r, g, b, ex) in case["items"]:
            cache = vt100._16_bg_colors if bg else vt100._16_fg_colors
            code, name = cache.get_code((r, g, b), exclude=ex)
            v += check_16((r, g, b), name, ex, "_16ColorCache.get_code")
            if (BG_ANSI_COLORS if bg else FG_ANSI_COLORS).get(name) != code:
                v.append({"signature": "_16ColorCache.get_code | code does not belong to the name",
                          "msg": f"{(bg, r, g, b, ex)} -> {code} {name}"})
    elif k in ("esc", "rt"):
        v = oracle_esc(case)
    elif k == "fd":
        v = oracle_fd(case)
    elif k == "pyg":
        v = oracle_pyg(case)
    elif k == "obj":
        v = oracle_obj(case)
    elif k == "msess":
        v = oracle_msess(case)
    elif k == "app":
        v = oracle_app(case)
    elif k == "tr":
        v = oracle_tr(case)
    elif k == "stream":
        v = oracle_stream(case)
    elif k == "trs":
        v = oracle_trs(case)
    elif k == "xterm":
        v = oracle_xterm(case)
    elif k == "hex3":
        v = oracle_hex3(case)
    elif k == "ps":
        for t in case["texts"]:
            v += check_noinherit(t, "_parse_style_str")
    # pc / ex / hex / ansi: correspondence only (building blocks)
    seen, out = set(), []
    for x in v:
        if x["signature"] not in seen:
            seen.add(x["signature"])
            out.append(x)
    return out


def precision(names):
    """the documented meaning of MOST_PRECISE: number of elements, counting both blanks and dots"""
    return sum(1 + w.count(".") for w in names.split())


def style_or_none(rules):
    try:
        return Style(list(rules))
    except (AssertionError, ValueError):
        return None


def oracle_fd(case):
    v = []
    st = fd_build(case)
    items = [tuple(r) for r in case["items"]]
    if isinstance(st, str):
        if all(style_or_none([r]) is not None for r in items):
            v.append({"signature": "Style.from_dict | raises although every rule is acceptable",
                      "msg": f"items={items!r} priority={'MOST_PRECISE' if case['mp'] else 'DICT_KEY_ORDER'} -> {st}"})
        return v
    rules = [tuple(r) for r in st.style_rules]
    if not case["mp"]:
        if rules != items:
            v.append({"signature": "Style.from_dict | DICT_KEY_ORDER does not keep the dict order",
                      "msg": f"items={items!r} -> {rules!r}"})
    else:
        keys = [precision(n) for n, _ in rules]
        ok = sorted(rules) == sorted(items) and all(a <= b for a, b in zip(keys, keys[1:]))
        for kk in set(keys):
            if [r for r in rules if precision(r[0]) == kk] != [r for r in items if precision(r[0]) == kk]:
                ok = False
        if not ok:
            v.append({"signature": "Style.from_dict | MOST_PRECISE is not the stable sort by number of elements",
                      "msg": f"items={items!r} -> {rules!r}"})
    for _, sty in items:
        v += check_noinherit(sty, "Style.from_dict rule")
    dflt = mk_default(case)
    for t in case["strs"]:
        r = q_or_err(st, t, dflt)
        if isinstance(r, str):
            continue
        exp, _ = expected_cascade(Style(rules).class_names_and_attrs, t, dflt)
        if r != exp:
            v.append({"signature": "Style.get_attrs_for_style_str | not the last applicable value",
                      "msg": f"from_dict items={items!r} mp={case['mp']} style={t!r}: got {r}, last-wins gives {exp}"})
    return v


def oracle_pyg(case):
    v = []
    try:
        st = style_from_pygments_dict({tuple(tok): sty for tok, sty in case["items"]})
    except (AssertionError, ValueError):
        return v
    want = [(".".join(["pygments"] + list(tok)).lower(), sty) for tok, sty in case["items"]]
    got = [tuple(r) for r in st.style_rules]
    if got != want:
        v.append({"signature": "style_from_pygments_dict | rules are not ('pygments.<token path>', style) in dict order",
                  "msg": f"items={case['items']!r} -> {got!r}"})
    # a rule for a token applies to text of every sub-token (dotted prefix semantics) and to no other
    toks = [tuple(tok) for tok, _ in case["items"]]
    for t2 in toks:
        cls = "class:" + pygments_token_to_classname(t2)
        try:
            _, present = expected_cascade(st.class_names_and_attrs, cls, DEFAULT_ATTRS)
        except ValueError:
            continue
        for t1 in toks:
            if any(("." in x or "," in x or x != x.strip() or " " in x or not x) for x in t1 + t2):
                continue
            name = pygments_token_to_classname(t1)
            is_prefix = [x.lower() for x in t2[:len(t1)]] == [x.lower() for x in t1]
            if (name in present) != is_prefix:
                v.append({"signature": "pygments class names | rule of a token does not apply exactly to its sub-tokens",
                          "msg": f"rule token {t1} text token {t2}: classes present {sorted(present)}"})
    return v


def resolves_to_sheet(spec):
    while spec is not None and spec[0] == "Y":
        spec = spec[1]
    return spec is not None and spec[0] in ("S", "M")


def oracle_obj(case):
    v = []
    b = Builder(case["sheets"])
    dflt = mk_default(case)
    seen = {}
    for spec in case["objs"]:
        o = b.build(spec)
        want = spec_rules(spec, case["sheets"])
        got = [tuple(r) for r in o.style_rules]
        if got != want:
            v.append({"signature": "style_rules | not the concatenation of the constituent rules",
                      "msg": f"sheets={case['sheets']!r} object={spec!r}: style_rules={got!r}, expected {want!r}"})
        h = o.invalidation_hash()
        if h in seen and seen[h][1] != want:
            v.append({"signature": "invalidation_hash | equal hash for different rules",
                      "msg": f"sheets={case['sheets']!r}: {seen[h][0]!r} and {spec!r} share the hash but have rules "
                             f"{seen[h][1]!r} / {want!r}"})
        seen.setdefault(h, (spec, want))
        if not resolves_to_sheet(spec):
            continue      # DummyStyle / DynamicStyle returning None: 'a style that doesn't style anything'
        one = style_or_none(want)
        if one is None:
            continue
        for t in case["strs"]:
            r = q_or_err(o, t, dflt)
            w = q_or_err(one, t, dflt)
            if r != w:
                v.append({"signature": "merge_styles | differs from concatenated sheet",
                          "msg": f"sheets={case['sheets']!r} object={spec!r} style={t!r}: {r} != one sheet {w}"})
    return v


def oracle_msess(case):
    v = []
    b = Builder(case["sheets"])
    dflt = mk_default(case)
    top = merge_styles([b.build(p) for p in case["top"]])
    cur = {}
    seen_h = []
    for n, st in enumerate(case["steps"]):
        if st[0] == "set":
            b.cur[st[1]] = st[2]
            cur[st[1]] = st[2]
            continue
        r = q_or_err(top, st[1], dflt)
        want_rules = [r2 for p in case["top"] for r2 in spec_rules(snapshot(p, cur), case["sheets"])]
        # two states of the merged style with different rules must not share their invalidation_hash()
        h = top.invalidation_hash()
        for h0, rules0, n0 in seen_h:
            if h0 == h and rules0 != want_rules:
                v.append({"signature": "BaseStyle.invalidation_hash | same hash, different rules",
                          "msg": f"sheets={case['sheets']!r} top={case['top']!r}: after steps {case['steps'][:n0 + 1]!r} and "
                                 f"after {case['steps'][:n + 1]!r} the hash is {h!r} both times, the rules are "
                                 f"{rules0!r} / {want_rules!r}"})
                break
        seen_h.append((h, want_rules, n))
        one = style_or_none(want_rules)
        if one is None:
            continue
        w = q_or_err(one, st[1], dflt)
        if r != w:
            v.append({"signature": "merge_styles | stale merged style after a DynamicStyle returned another style",
                      "msg": f"sheets={case['sheets']!r} top={case['top']!r} steps={case['steps'][:n + 1]!r}: got {r}, "
                             f"one sheet with the current rules {want_rules!r} gives {w}"})
    return v


_UI_RULES = None


def ui_rules():
    global _UI_RULES
    if _UI_RULES is None:
        _UI_RULES = ([tuple(r) for r in default_ui_style().style_rules],
                     [tuple(r) for r in default_pygments_style().style_rules])
    return _UI_RULES


def oracle_app(case):
    v = []
    st, b = app_style(case)
    dflt = mk_default(case)
    ui, pyg = ui_rules()
    user = spec_rules(case["user"], case["sheets"])
    rules = ui + (pyg if case["inc"] else []) + user
    one = style_or_none(rules)
    if one is None:
        return v
    for t in case["strs"]:
        r = q_or_err(st, t, dflt)
        w = q_or_err(one, t, dflt)
        if r != w:
            v.append({"signature": "Application style | not defaults + pygments + user rules as one sheet",
                      "msg": f"user={user!r} include_pygments={case['inc']} style={t!r}: {r} != {w}"})
    # a user rule beats a default rule for the same classes: query exactly the classes of a user rule
    sel = [frozenset(n.split()) for n, _ in user]
    if any(len(x) == 0 for x in sel) or len(set(sel)) != len(sel):
        return v
    for names, sty in user:
        if " " in names.strip() or "." in names or not names.strip():
            continue
        try:
            want = _parse_style_str(sty)
        except ValueError:
            continue
        r = q_or_err(st, "class:" + names.strip(), dflt)
        if isinstance(r, str):
            continue
        for i, f in enumerate(FIELDS):
            if want[i] is not None and r[i] != want[i]:
                v.append({"signature": "Application style | a default rule overrides the user rule for the same class",
                          "msg": f"user rule {(names, sty)!r}: 'class:{names.strip()}' resolves {f}={r[i]!r}"})
    return v


def apply_spec(t, a, callables):
    """the transformation tree applied by hand: merged = one after the other, conditional / dynamic unwrapped"""
    k = t[0]
    if k in ("D", "N"):
        return a
    if k == "Y":
        return apply_spec(t[1], a, callables)
    if k == "C":
        return apply_spec(t[1], a, callables) if t[2] else a
    if k == "M":
        for x in t[1]:
            a = apply_spec(x, a, callables)
        return a
    return build_tr(t, callables).transform_attrs(a)


def oracle_tr(case):
    v = []
    callables = bool(case.get("callables"))
    results = tr_run(case)
    for a, (_, r) in zip(case["attrs"], results):
        a = Attrs(*a)
        if isinstance(r, str):
            continue
        if tuple(r[2:7]) + (r[8],) != tuple(a[2:7]) + (a[8],):
            v.append({"signature": "style transformation | changes a flag other than reverse",
                      "msg": f"t={case['t']!r} attrs={a} -> {r}"})
        if all(x is not None for x in a) and any(x is None for x in r):
            v.append({"signature": "style transformation | attribute not concrete",
                      "msg": f"t={case['t']!r} attrs={a} -> {r}"})
        try:
            w = apply_spec(case["t"], a, callables)
        except Exception:  # noqa: BLE001
            w = None
        if w is not None and w != r:
            v.append({"signature": "merge_style_transformations | not the composition in list order",
                      "msg": f"t={case['t']!r} attrs={a}: {r} != step by step {w}"})
        if valid_color(a.color or "") and valid_color(a.bgcolor or ""):
            if not (valid_color(r.color or "") and valid_color(r.bgcolor or "")):
                v.append({"signature": "style transformation | produces a colour that cannot be encoded",
                          "msg": f"t={case['t']!r} attrs={a} -> {r}"})
            else:
                e, frags, back = real_rt(24, list(r))
                if back != canon_attrs(r):
                    v.append({"signature": "_EscapeCodeCache | 24-bit escape does not decode to the same attributes",
                              "msg": f"transformed attrs={r} esc={e!r} decoded={back}"})
    return v


def oracle_trs(case):
    """two states of ONE transformation object that transform some Attrs differently must not share their
    invalidation_hash() (the renderer keys its attribute caches on it)"""
    v = []
    states = trs_run(case)
    snaps = trs_snapshots(case)
    for i in range(len(states)):
        for j in range(i + 1, len(states)):
            hi, ri = states[i]
            hj, rj = states[j]
            if ri != rj:
                try:
                    same = hi == hj
                except Exception:  # noqa: BLE001
                    same = False
                if same:
                    n = next(n for n in range(len(ri)) if ri[n] != rj[n])
                    v.append({"signature": "StyleTransformation.invalidation_hash | same hash, different transformation",
                              "msg": f"t={case['t']!r}: state {i} (= {snaps[i]!r}) and state {j} (= {snaps[j]!r}) after "
                                     f"steps {case['steps'][:j]!r} have the same invalidation_hash {hi!r} but transform "
                                     f"{case['attrs'][n]!r} to {ri[n]} / {rj[n]}"})
                    return v
    return v


import re as _re

_HEX3_WORD = _re.compile(r"^(fg:|bg:)?#([0-9a-fA-F])([0-9a-fA-F])([0-9a-fA-F])$")


def hex3_doubled(c):
    """the CSS rule: '#rgb' is the colour 'rrggbb'"""
    return c[0] * 2 + c[1] * 2 + c[2] * 2


def check_hex3_word(word, site):
    """a colour word '#rgb' / 'fg:#rgb' / 'bg:#rgb' sets the colour with every digit doubled, and the 24-bit
    escape code carries exactly those components"""
    m = _HEX3_WORD.match(word)
    if not m:
        return []
    want = hex3_doubled(m.group(2) + m.group(3) + m.group(4))
    try:
        a = _parse_style_str(word)
    except ValueError:
        return [{"signature": "parse_color | three-digit hex colour is not the colour with every digit doubled",
                 "msg": f"{site}: {word!r} is rejected"}]
    got = a.bgcolor if m.group(1) == "bg:" else a.color
    v = []
    if got != want:
        v.append({"signature": "parse_color | three-digit hex colour is not the colour with every digit doubled",
                  "msg": f"{site}: {word!r} sets the colour {got!r}, '#rgb' means {want!r}"})
    else:
        comps = ";".join(str(int(want[i:i + 2], 16)) for i in (0, 2, 4))
        full = Style([]).get_attrs_for_style_str(word)
        e = esc_cache(24)[full]
        if f"{'48' if m.group(1) == 'bg:' else '38'};2;{comps}" not in e:
            v.append({"signature": "_EscapeCodeCache | 24-bit escape of a three-digit hex colour has other components",
                      "msg": f"{word!r}: escape {e!r}, expected components {comps}"})
    return v


def oracle_hex3(case):
    v = []
    for c in case["cols"]:
        try:
            got = parse_color("#" + c)
        except ValueError:
            got = "err:ValueError"
        if got != hex3_doubled(c):
            v.append({"signature": "parse_color | three-digit hex colour is not the colour with every digit doubled",
                      "msg": f"parse_color('#{c}') = {got!r}, '#rgb' means {hex3_doubled(c)!r}"})
            break
        v += check_hex3_word("bg:#" + c, "parse_color")
        if v:
            break
    return v


def oracle_xterm(case):
    """the 256-colour table IS the xterm palette: encoder (8-bit depth) and decoder agree with the formula"""
    v = []
    enc = esc_cache(8)
    for i in case["idx"]:
        rgb = xterm_rgb(i)
        if i < len(PALETTE) and tuple(PALETTE[i]) != rgb:
            v.append({"signature": "_256ColorCache | table entry is not the xterm colour of its index",
                      "msg": f"index {i}: table has {PALETTE[i]}, xterm defines {rgb}"})
        hx = "%02x%02x%02x" % rgb
        e = enc[Attrs(hx, "", False, False, False, False, False, False, False)]
        if i < len(PALETTE) and e != f"\x1b[0;38;5;{i}m":
            v.append({"signature": "_EscapeCodeCache depth 8 | exact xterm colour not sent as its xterm index",
                      "msg": f"colour {hx} is xterm index {i}; escape code is {e!r}"})
        if i < len(PALETTE):
            fr = list(ANSI(f"\x1b[38;5;{i}mx").__pt_formatted_text__())
            if fr != [("#" + hx, "x")]:
                v.append({"signature": "ANSI decoder | 38;5;n is not decoded to the xterm colour n",
                          "msg": f"'\\x1b[38;5;{i}mx' decodes to {fr!r}, xterm colour {i} is #{hx}"})
    return v


def oracle_stream(case):
    """every escape sequence of a stream decodes to ITS attributes (each one starts with a reset)"""
    v = []
    d = case["depth"]
    frags = list(ANSI(stream_text(case)).__pt_formatted_text__())
    if len(frags) != len(case["attrs"]):
        return [{"signature": "_EscapeCodeCache | escape code does not decode to one styled fragment",
                 "msg": f"depth={d} attrs={case['attrs']!r} fragments={frags!r}"}]
    for i, (a, fr) in enumerate(zip(case["attrs"], frags)):
        if not (valid_color(a[0] or "") and valid_color(a[1] or "")):
            continue
        try:
            back = Style([]).get_attrs_for_style_str(fr[0])
        except ValueError:
            back = None
        want = canon_attrs(a)
        bad = back is None or tuple(back[2:]) != tuple(want[2:]) or (d == 24 and back != want) or \
            (d == 1 and (back.color or back.bgcolor))
        if bad:
            v.append({"signature": "_EscapeCodeCache | escape sequence inside a stream does not decode to its attributes",
                      "msg": f"depth={d} stream attrs={case['attrs'][:i + 1]!r}: fragment {i} has style {fr[0]!r} "
                             f"= {back}, expected {want}"})
            break
    return v


_PAL16 = [(j, p) for j, p in enumerate(PALETTE) if j >= 16]
_PB_SQ = [[(b - p[2]) ** 2 for _, p in _PAL16] for b in range(256)]
_EXACT = {}
for _j, _p in reversed(_PAL16):
    _EXACT[_p] = _j


def check_256_row(r, g, row):
    """nearest-colour check for one (r, g, *) row: the distance of the chosen entry must equal the minimum
    over all entries >= 16 (computed with the b-independent part hoisted: same definition, cheaper)."""
    import operator
    v = []
    d0s = [(r - p[0]) ** 2 + (g - p[1]) ** 2 for _, p in _PAL16]
    for b in range(256):
        m = row[b]
        if not (16 <= m < len(PALETTE)):
            v += check_256((r, g, b), m, "_256ColorCache")
            continue
        best = min(map(operator.add, d0s, _PB_SQ[b]))
        pm = PALETTE[m]
        dm = (r - pm[0]) ** 2 + (g - pm[1]) ** 2 + (b - pm[2]) ** 2
        if dm != best or ((r, g, b) in _EXACT and pm != (r, g, b)):
            v += check_256((r, g, b), m, "_256ColorCache")
    return v


# ------------------------------------------------------------------ generators
NAMES = ["", "a", "b", "a.x", "a b", "b a.x"]
PARTS = ["class:a", "class:b", "class:a.x", "class:a,b", "class:b.y,a.x", "nobold", "#0000ff"]


def rule_attr(i, j):
    """attribute set j of the rule at position i (distinct colours identify the winning rule)"""
    if j == 0:
        return f"#11111{i}"
    if j == 1:
        return f"bold bg:#22222{i}"
    return "nobold underline" if i % 2 == 0 else "noinherit italic fg:ansired"


def all_rule_lists(maxlen):
    base = [(n, j) for n in NAMES for j in range(3)]
    for ln in range(maxlen + 1):
        for combo in itertools.product(base, repeat=ln):
            yield [[n, rule_attr(i, j)] for i, (n, j) in enumerate(combo)]


def all_strs(maxparts, parts=PARTS):
    out = []
    for ln in range(maxparts + 1):
        for combo in itertools.product(parts, repeat=ln):
            out.append(" ".join(combo))
    return out


def splits(rules, k):
    """all ways to cut the list into k contiguous (possibly empty) sheets"""
    n = len(rules)
    for cuts in itertools.combinations_with_replacement(range(n + 1), k - 1):
        b = [0] + list(cuts) + [n]
        yield [rules[b[i]:b[i + 1]] for i in range(k)]


R_NAMES = ["", "a", "b", "c", "a.x", "a.x.y", "b.y", "a b", "b a.x", "a  b", "a\tb", "c a b", "a a",
           "x-1_z", " a ", "a　b", "a\x1cb", "A", "a,b", "a\nb", "\n", "b.y a.x c"]
R_STYLES = ["bold", "nobold", "italic", "noitalic", "underline", "nounderline", "strike", "nostrike", "blink",
            "noblink", "reverse", "noreverse", "hidden", "nohidden", "noinherit", "roman", "sans", "mono",
            "border:#ff0000", "[transparent]", "[", "[]", "#ff0000", "#F0a", "fg:#00ff00", "bg:#0000ff",
            "bg:ansired", "fg:ansidarkred", "ansibrightblue", "bg:ansidefault", "AliceBlue", "bg:darkred",
            "fg:", "bg:", "fg:default", "default", "#ansiblue", "#ansiteal", "bg:#12", "#12345", "fg:nosuch",
            "#zzzzzz", "Bold", "xnoinherit", "class:a", "bg:#+12345", "#1234567"]
R_PARTS = ["class:a", "class:b", "class:c", "class:a.x", "class:a.x.y", "class:b.y", "class:a,b", "class:A.X",
           "class:b.y,a.x", "class:", "class:a,,b", "class:.", "class:a.", "class:x-1_z", "class:a.x,c,b",
           "class:noinherit", "class", "class:a　class:b"] + R_STYLES[:44]
WS = [" ", " ", " ", "  ", "\t", "\n", "　", "\x1c", "\x85"]


def rand_style(rng, pool, maxn):
    n = rng.choice([0, 1, 1, 2, 2, 3, maxn])
    s = ""
    for i in range(n):
        s += (rng.choice(WS) if i else rng.choice(["", "", " "])) + rng.choice(pool)
    if n and rng.random() < 0.12:
        # 'noinherit' in the middle / at the end / twice
        ws = s.split()
        if ws:
            ws.insert(rng.randrange(1, len(ws) + 1), "noinherit")
            if rng.random() < 0.3:
                ws.insert(rng.randrange(len(ws) + 1), "noinherit")
            s = " ".join(ws)
    return s + rng.choice(["", "", " "])


def rand_sheet(rng):
    n = rng.choice([0, 1, 2, 2, 3, 4, 6])
    pool_n = R_NAMES if rng.random() < 0.15 else R_NAMES[:15]
    pool_s = R_STYLES if rng.random() < 0.15 else R_STYLES[:38]
    return [[rng.choice(pool_n), rand_style(rng, pool_s, 4)] for _ in range(n)]


def rand_color(rng, wild=True):
    k = rng.randrange(12 if wild else 9)
    if k < 2:
        return ""
    if k < 4:
        return rng.choice(ANSI_COLOR_NAMES)
    if k < 7:
        return "".join(rng.choice("0123456789abcdef") for _ in range(6))
    if k == 7:
        return "".join(rng.choice(HEX) for _ in range(6))
    if k == 8:
        p = rng.choice(PALETTE + list(ANSI_COLORS_TO_RGB.values()))
        q = [min(255, max(0, x + rng.choice([-1, 0, 0, 1]))) for x in p]
        return "%02x%02x%02x" % tuple(q)
    return rng.choice(["default", "zzzzzz", "+12345", "0x1234", "-1", "ansidarkred", "ff", "fffffff", "1_2345",
                       "0x_1f", "_1", "1__2", "12_", " ff", "0X10", "ansi", None])


def rand_attrs(rng, wild=True):
    def flag():
        return rng.choice([True, False, False, None]) if wild else rng.choice([True, False])
    return [rand_color(rng, wild), rand_color(rng, wild)] + [flag() for _ in range(7)]


SGR_POOL = list(range(0, 10)) + list(range(21, 50)) + list(range(90, 108)) + [38, 48, 38, 48, 2, 5, 2, 5, 16, 17,
           231, 232, 253, 254, 255, 256, 9999, 10000, 123456, 100, 110]


def rand_ansi(rng):
    s = ""
    for _ in range(rng.choice([1, 1, 2, 3])):
        k = rng.randrange(10)
        if k < 6:
            ps = [rng.choice(SGR_POOL) for _ in range(rng.choice([0, 1, 2, 3, 5, 6, 8]))]
            body = ";".join(str(p) if rng.random() > 0.05 else "" for p in ps)
            s += rng.choice(["\x1b[", "\x1b[", "\x9b"]) + body + rng.choice(["m", "m", "m", "m", "C", "K", "", ";"])
        elif k == 6:
            s += "\x1b[" + str(rng.choice([0, 1, 3, 12])) + "C"
        elif k == 7:
            s += "\x01" + rng.choice(["", "zw", "\x1b[1m", "\x01"]) + rng.choice(["\x02", "\x02\x01", "\x02\x1b[4m", ""])
        elif k == 8:
            s += rng.choice(["\x1b", "\x1bx", "\x1b\x1b[1m", "\x1b[1;", "\x1b[²m", "\x1b[1x"])
        else:
            s += rng.choice(["a", "b ", "\n", "m", ";", "[", "1"])
        s += rng.choice(["x", "", "yz"])
    return s


FLAG_TUPLES = list(itertools.product([False, True], repeat=7))
COLOR_PAIRS = [("", ""), ("ansired", ""), ("", "ansiblue"), ("ansidefault", "ansidefault"), ("ff0000", ""),
               ("", "00ff00"), ("ff0000", "ff0000"), ("ff0000", "fe0101"), ("123456", "abcdef"),
               ("ABCDEF", "ansiwhite"), ("ansibrightblack", "808080"), ("000000", "ffffff"), ("7f7f7f", "e5e5e5"),
               ("cd0000", "cd0101")]


def grid(n):
    step = 255 / (n - 1)
    return sorted({round(i * step) for i in range(n)})


def chunks(l, n):
    for i in range(0, len(l), n):
        yield l[i:i + n]


_CALLS = 0


def sweep_step():
    """1 = all 256 r-planes (the full 256^3 sweep, ~25 CPU-minutes of real-code palette searches).
    On a host that is already overloaded (load average > 2 x cores) only every 4th plane is swept, so that
    the tier stays inside its time budget; VERIF_C19_SWEEP=full|quarter overrides."""
    mode = os.environ.get("VERIF_C19_SWEEP", "")
    if mode == "full":
        return 1
    if mode == "quarter":
        return 4
    try:
        overloaded = os.getloadavg()[0] > 2.0 * (os.cpu_count() or 1)
    except OSError:
        overloaded = False
    if overloaded:
        sys.stderr.write("C19: host overloaded, sweeping every 4th r-plane of the 256^3 cube only\n")
    return 4 if overloaded else 1


def cases(tier, rng):
    """all cases of the tier; the expensive full-sweep rows are spread evenly over the list so that the
    worker chunks of core.parallel_eval are balanced"""
    cs = list(_cases(tier, rng))
    heavy = [c for c in cs if c["k"] == "c256row"]
    light = [c for c in cs if c["k"] != "c256row"]
    if not heavy:
        return light
    out = []
    step = max(1, len(light) // len(heavy))
    hi = 0
    for i, c in enumerate(light):
        out.append(c)
        if i % step == step - 1 and hi < len(heavy):
            out.append(heavy[hi])
            hi += 1
    out += heavy[hi:]
    return out


def _cases(tier, rng):
    global _CALLS
    _CALLS += 1
    # the second call in one process is core's "search harder" pass after a broken obligation:
    # it gets the quick colour grids instead of the full 256^3 sweep (the cascade part stays thorough)
    quick = tier == "quick"
    sweep = (not quick) and _CALLS == 1
    # --- building blocks -------------------------------------------------------------
    yield {"k": "pc", "texts": sorted({t[i:] for t in R_STYLES for i in (0, 3)} | set(ANSI_COLOR_NAMES)
                                      | {"#" + n for n in ANSI_COLOR_NAMES} | {"ansidarkgray", "#ansilightgray",
                                         "DarkRed", "darkred", "DARKRED", "#abc", "#ABC", "#abcd", "", "#", "##", "default",
                                         "Default", "#default", "#ffffff", "ffffff", "fff"})}
    yield {"k": "ps", "texts": R_STYLES + ["bold italic", "bold nobold", "noinherit", "bold noinherit",
                                            "xnoinherit bold", "#f00 bg:#0f0 underline", "  bold\t\nitalic ",
                                            "bold　italic", "bold\x1citalic", "bg:ansired bg:", "", " "]}
    yield {"k": "ex", "texts": ["", "a", "a.b", "a.b.c", "A.b", ".", "a.", ".a", "a..b", "a.b.c.d.e", "x-1_z.y"]}
    yield {"k": "hex", "texts": ["ff0000", "FF00aa", "000000", "ffffff", "", "f", "fffffff", "zzzzzz", "+12345",
                                 "-12345", "-1", "0x1234", "0X12", "0x", "0x_1f", "0x__1f", "_1", "1_", "1_2", "1__2",
                                 " ff ", "\tff\n", "f f", "+", "-", "+-1", "0b11", "0o7", "default", "ansired",
                                 "1_2_3", "0_x1", "00ff", "-0x10", "- 1", "　ff", "ffffffffffffffffffff"]}
    # --- exhaustive cascade -----------------------------------------------------------
    strs3 = all_strs(3)
    strs2 = all_strs(2)
    strs4 = strs3 if quick else all_strs(4)
    for rules in all_rule_lists(2 if quick else 3):
        if quick:
            strs = strs3 if len(rules) < 2 else strs2 + strs3[57::5]
        else:
            strs = strs4 if len(rules) < 2 else strs3 if len(rules) < 3 else strs2 + strs3[57::11]
        yield {"k": "q", "sheets": [rules], "strs": strs}
    for rules in all_rule_lists(2 if quick else 3):
        if not rules:
            continue
        if len(rules) == 3 and rng.random() < 0.93:
            continue
        for k in (2, 3):
            for sp in splits(rules, k):
                sheets = list(sp)
                if rng.random() < 0.3:
                    sheets.insert(rng.randrange(len(sheets) + 1), None)
                yield {"k": "q", "sheets": sheets, "strs": strs2}
    # --- sessions over shared sheet objects ------------------------------------------------
    sess_sheets = [[["x", "fg:#ff0000"], ["y", "underline"]], [["x", "bold"], ["x y", "bg:#00ff00"]],
                   [["x", "italic"], ["", "blink"]]]
    targets = [["S", 0], ["S", 1], ["M", [0, 1]], ["M", [0, 2]], ["M", [0, 2, 1]], ["M", [1, 0]], ["M", [0]],
               ["M", [None, 0, 2]], ["M", [2, None, 0]], ["M", [0, 0]]]
    sstrs = ["class:x class:y", "class:y,x nobold", ""]
    for ln in (1, 2, 3):
        for combo in itertools.product(range(len(targets)), repeat=ln):
            ops = []
            for j, ti in enumerate(combo):
                ops.append(["q", targets[ti], sstrs[(ti + j) % len(sstrs)]])
                if (ti + j) % 3 == 0:
                    ops.append(["rules", targets[ti]])
            ops += [["rules", ["S", 0]], ["q", ["S", 0], "class:x class:y"], ["q", ["M", [0, 2]], "class:x class:y"]]
            yield {"k": "sess", "sheets": sess_sheets, "ops": ops}
    ok_names = ["", "a", "b", "c", "a.x", "a b", "b a.x", "b.y"]
    ok_styles = ["bold", "nobold", "italic", "#ff0000", "bg:#00ff00", "underline fg:ansiblue", "noinherit",
                 "reverse bg:ansired", "#abc hidden", "fg:default strike"]
    for _ in range(150 if quick else 4000):
        nsh = rng.choice([2, 3, 3, 4])
        shs = [[[rng.choice(ok_names), rng.choice(ok_styles)] for _ in range(rng.choice([0, 1, 2, 3]))]
               for _ in range(nsh)]
        ops = []
        for _ in range(rng.choice([3, 5, 8, 12])):
            if rng.random() < 0.3:
                tgt = ["S", rng.randrange(nsh)]
            else:
                parts = [rng.choice([None] + list(range(nsh)) * 3) for _ in range(rng.choice([1, 2, 2, 3, 4]))]
                if rng.random() < 0.5:
                    parts[0] = 0 if rng.random() < 0.6 else rng.randrange(nsh)
                tgt = ["M", parts, rng.random() < 0.3]
            if rng.random() < 0.25:
                ops.append(["rules", tgt])
            else:
                ops.append(["q", tgt, rand_style(rng, R_PARTS[:15] + ["bold", "#00f", "nobold"], 4)])
        c = {"k": "sess", "sheets": shs, "ops": ops}
        if rng.random() < 0.15:
            c["default"] = rand_attrs(rng, False)
        yield c
    # non-default `default` argument incl. None fields
    for d in ([None, None] + [None] * 7, ["ansiblue", None, True, None, False, None, None, True, None],
              ["", "ff00ff", False, True, True, False, False, False, True]):
        for rules in all_rule_lists(1):
            yield {"k": "q", "sheets": [rules], "strs": strs2, "default": d}
    # --- escape codes: all flag tuples x colour pairs x depths --------------------------
    for pair in COLOR_PAIRS:
        attrs = [[pair[0], pair[1]] + list(f) for f in FLAG_TUPLES]
        yield {"k": "esc", "depths": [1, 4, 8, 24], "attrs": attrs}
        yield {"k": "rt", "depths": [1, 4, 8, 24], "attrs": attrs[::5]}
    # --- colour maps ------------------------------------------------------------------
    near = []
    for p in PALETTE + list(ANSI_COLORS_TO_RGB.values()):
        for dx in (-1, 0, 1):
            for ch in range(3):
                q = list(p)
                q[ch] = min(255, max(0, q[ch] + dx))
                near.append(q)
    for ch in chunks(near, 500):
        yield {"k": "c256", "rgbs": ch}
    names = list(ANSI_COLORS_TO_RGB)
    exs = [[]] + [[n] for n in names] + [["ansired", "ansibrightred"], [""], ["ansilightgray"], names[1:]]
    for ch in chunks(near, 200):
        yield {"k": "c16", "items": [[r, g, b, ex] for (r, g, b) in ch for ex in ([], [names[(r + g + b) % 17]])]}
    g1 = grid(17)
    if not sweep:
        pts = [[r, g, b] for r in g1 for g in g1 for b in g1]
        for ch in chunks(pts, 500):
            yield {"k": "c256", "rgbs": ch}
        for ch in chunks(pts, 300):
            yield {"k": "c16", "items": [[r, g, b, []] for (r, g, b) in ch]}
        g2 = grid(6)
        items = [[r, g, b, ex] for r in g2 for g in g2 for b in g2 for ex in exs]
        for ch in chunks(items, 400):
            yield {"k": "c16", "items": ch}
    else:
        step = sweep_step()
        for r in range(0, 256, step):
            for gs in chunks(list(range(256)), 16):
                yield {"k": "c256row", "r": r, "gs": gs, "corr": r % 8 == 0}
        g3 = grid(52)
        pts = [[r, g, b, []] for r in g3 for g in g3 for b in g3]
        for ch in chunks(pts, 1000):
            yield {"k": "c16", "items": ch}
        g2 = grid(9)
        items = [[r, g, b, ex] for r in g2 for g in g2 for b in g2 for ex in exs]
        for ch in chunks(items, 400):
            yield {"k": "c16", "items": ch}
    items = [[bg, r, g, b, ex] for bg in (0, 1) for (r, g, b) in near[::7] for ex in ([], ["ansired"])]
    for ch in chunks(items, 400):
        yield {"k": "c16code", "items": ch}
    # --- 'noinherit' at every position among the words of a rule / an inline string --------------------
    ni_words = ["bold", "#ff0000", "bg:#00ff00", "underline", "nobold", "italic"]
    ni_styles = []
    for ln in (1, 2, 3):
        for combo in itertools.permutations(ni_words, ln):
            if ln == 3 and rng.random() < (0.85 if quick else 0.3):
                continue
            for pos in range(ln + 1):
                w = list(combo)
                w.insert(pos, "noinherit")
                ni_styles.append(" ".join(w))
            w = ["noinherit"] + list(combo) + ["noinherit"]
            ni_styles.append(" ".join(w))
            w = list(combo)
            w.insert(ln // 2, "noinherit noinherit")
            ni_styles.append(" ".join(w))
    yield {"k": "ps", "texts": ni_styles + ["noinherit noinherit", "bold\tnoinherit", "bold xnoinherit", "noinheritx bold",
                                            "bold border:noinherit", "bold [noinherit]", "#ff0000 noinherit nosuch"]}
    ni_strs = ["class:a", "class:b class:a", "class:a class:b", "class:a,b italic", "strike class:a", ""]
    for i, st in enumerate(ni_styles):
        base = [["b", "blink bg:#0000ff"], ["", "hidden"]]
        kind = i % 4
        if kind == 0:
            sheets = [base + [["a", st]]]
        elif kind == 1:
            sheets = [base, [["a", st]]]                       # merged: the rule lives in the second sheet
        elif kind == 2:
            sheets = [[["a", st]], None, base]                 # merged: ... in the first
        else:
            sheets = [[["", st], ["a b", st]] + base]          # as default rule and as combination rule
        yield {"k": "q", "sheets": sheets, "strs": ni_strs}
    for st in ni_styles[:: (9 if quick else 2)]:
        # the same words as INLINE parts (each word is parsed on its own there)
        yield {"k": "q", "sheets": [[["a", "bold #123456 bg:#654321"]]], "strs": ["class:a " + st, st + " class:a", st]}
    for st in ni_styles[:: (7 if quick else 2)]:
        yield {"k": "fd", "items": [["a", st], ["b", "blink"], ["a b", "strike " + st]], "mp": True, "strs": ni_strs[:4]}
    # --- three-digit hex colours: all 16^3 for parse_color, a sample in rules / inline / merged sheets ----
    h3 = [a + b2 + c2 for a in "0123456789abcdef" for b2 in "0123456789abcdef" for c2 in "0123456789abcdef"]
    for ch in chunks(h3, 512):
        yield {"k": "hex3", "cols": ch}
    yield {"k": "hex3", "cols": ["ABC", "aBc", "F0a", "1fE", "abC", "00F"]}
    h3s = ["abc", "1f0", "F0a", "07c", "e2D", "123"] if quick else rng.sample(h3, 60) + ["F0a", "e2D", "aBc"]
    for i, c in enumerate(h3s):
        d2 = h3s[(i + 1) % len(h3s)]
        yield {"k": "q", "sheets": [[["a", f"#{c} bold"], ["b", f"bg:#{d2}"], ["a b", f"fg:#{d2} bg:#{c}"]]],
               "strs": ["class:a", "class:b", "class:a,b", f"class:a #{d2}", f"bg:#{c} fg:#{d2}", f"class:b bg:#{c} #{c}"]}
        yield {"k": "q", "sheets": [[["a", f"#{c}"]], None, [["a", f"bg:#{d2}"], ["", f"fg:#{d2}"]]],
               "strs": ["class:a", "", f"class:a fg:#{c}"]}
    # --- Style.from_dict / Priority -----------------------------------------------------
    fd_names = ["a", "b", "a.x", "a b", "b a.x", "a.x.y", "", "b.y  a", "c"]
    fd_strs = ["class:a", "class:a.x class:b", "class:b class:a.x.y", "class:a,b nobold", ""]
    for combo in itertools.permutations(range(len(fd_names)), 3 if quick else 4):
        if not quick and rng.random() < 0.5:
            continue
        items = [[fd_names[n], rule_attr(i, (n + i) % 3)] for i, n in enumerate(combo)]
        for mp in (True, False):
            yield {"k": "fd", "items": items, "mp": mp, "strs": fd_strs[:3] if quick else fd_strs}
    for _ in range(150 if quick else 3000):
        pool = R_NAMES if rng.random() < 0.2 else R_NAMES[:13]
        names = rng.sample(pool, rng.choice([2, 4, 5, 7, 9]))
        items = [[n, rand_style(rng, R_STYLES if rng.random() < 0.1 else R_STYLES[:38], 3)] for n in names]
        c = {"k": "fd", "items": items, "mp": rng.random() < 0.7,
             "strs": [rand_style(rng, R_PARTS[:15] + R_STYLES[:20], 5) for _ in range(3)]}
        if rng.random() < 0.2:
            c["default"] = rand_attrs(rng, False)
        yield c
    # --- pygments style dicts -----------------------------------------------------------
    tok_pool = [[], ["Name"], ["Name", "Exception"], ["Keyword"], ["Keyword", "Type"], ["Literal", "String", "Doc"],
                ["Literal"], ["Literal", "String"], ["Error"], ["name"], ["X-1", "y_2"]]
    for n in range(1, 4):
        for combo in itertools.combinations(range(len(tok_pool)), n):
            if n == 3 and rng.random() < (0.8 if quick else 0.2):
                continue
            yield {"k": "pyg", "items": [[tok_pool[i], rule_attr(j, j % 3)] for j, i in enumerate(combo)]}
    try:
        from pygments.styles import get_style_by_name
        for name in (["default"] if quick else ["default", "monokai", "tango", "vim"]):
            items = [[list(tok), sty] for tok, sty in get_style_by_name(name).styles.items()]
            yield {"k": "pyg", "items": items}
    except Exception:  # noqa: BLE001
        pass
    for _ in range(40 if quick else 600):
        bad = rng.random() < 0.15
        words = ["Name", "Keyword", "Type", "String", "a", "B", "x-1"] + (["A b", "a.b", "a,b", ""] if bad else [])
        toks = []
        for _ in range(rng.choice([1, 2, 4])):
            t = [rng.choice(words) for _ in range(rng.choice([0, 1, 2, 3]))]
            if t not in toks:
                toks.append(t)
        yield {"k": "pyg", "items": [[t, rand_style(rng, R_STYLES[:38], 3)] for t in toks]}
    # --- style objects: DummyStyle / DynamicStyle / nested merges, hashes ----------------------
    o_sheets = [[["x", "fg:#ff0000"], ["y", "underline"]], [["x", "bold"], ["x y", "bg:#00ff00"]],
                [["x", "italic"], ["", "blink"]], []]
    leaves = [["S", 0], ["S", 1], ["S", 3], ["D"], ["N"], ["Y", ["S", 0]], ["Y", ["D"]], ["M", [["S", 0], ["S", 1]]],
              ["M", []], ["Y", ["Y", ["S", 2]]], ["M", [["S", 2], None, ["N"]]]]
    objs = list(leaves)
    for a in leaves:
        objs.append(["M", [a]])
        for b2 in leaves:
            objs.append(["M", [a, b2]])
    objs += [["M", [["M", [["S", 0]]], ["M", [["S", 1]]]]], ["M", [["M", [["S", 0], ["S", 1]]]]],
             ["Y", ["M", [["S", 0], ["S", 1]]]], ["M", [["S", 0], ["S", 0]]], ["M", [["S", 1], ["S", 0], ["S", 2]]]]
    ostrs = ["class:x class:y", "class:y,x nobold", "", "#123456 class:x"]
    for ch in chunks(objs, 12):
        # (overlapping chunks so that objects with equal hashes meet in one case)
        yield {"k": "obj", "sheets": o_sheets, "objs": ch + objs[-5:] + leaves[:3], "strs": ostrs[:3] if quick else ostrs}
    def rand_spec(depth, nsh, slots=0):
        r = rng.random()
        if depth <= 0 or r < 0.45:
            if slots and rng.random() < 0.3:
                return ["V", rng.randrange(slots)]
            return rng.choice([["S", rng.randrange(nsh)]] * 4 + [["D"], ["N"]])
        if r < 0.6:
            return ["Y", rand_spec(depth - 1, nsh, slots)]
        return ["M", [rand_spec(depth - 1, nsh, slots) if rng.random() > 0.1 else None
                      for _ in range(rng.choice([0, 1, 2, 2, 3]))]]
    for _ in range(60 if quick else 1500):
        nsh = rng.choice([2, 3, 4])
        shs = [[[rng.choice(ok_names), rng.choice(ok_styles)] for _ in range(rng.choice([0, 1, 2, 3]))]
               for _ in range(nsh)]
        c = {"k": "obj", "sheets": shs, "objs": [rand_spec(3, nsh) for _ in range(8)],
             "strs": [rand_style(rng, R_PARTS[:15] + ["bold", "#00f", "nobold"], 4) for _ in range(3)]}
        if rng.random() < 0.2:
            c["default"] = rand_attrs(rng, True)
        yield c
    # --- one merged style whose DynamicStyle parts change between queries (its cache) --------
    tops = [[["S", 0], ["V", 0]], [["V", 0], ["S", 1], ["V", 1]], [["S", 0], ["M", [["V", 1], ["S", 1]]], ["Y", ["V", 0]]]]
    acts = [["set", 0, ["S", 1]], ["set", 0, None], ["set", 0, ["S", 2]], ["set", 1, ["S", 2]], ["set", 1, ["D"]],
            ["set", 1, ["M", [["S", 2], ["S", 0]]]], ["set", 0, ["Y", ["S", 1]]], ["set", 0, ["V", 1]]]
    for top in tops:
        for ln in ((1, 2) if quick else (1, 2, 3)):
            for combo in itertools.product(range(len(acts)), repeat=ln):
                steps = [["q", "class:x class:y"]]
                for j, ai in enumerate(combo):
                    steps += [acts[ai], ["q", ostrs[(ai + j) % 3]]]
                steps += [["q", "class:x class:y"], ["set", 0, None], ["set", 1, None], ["q", "class:x class:y"]]
                yield {"k": "msess", "sheets": o_sheets, "top": top, "steps": steps}
    for _ in range(60 if quick else 2000):
        nsh = rng.choice([2, 3, 4])
        shs = [[[rng.choice(ok_names), rng.choice(ok_styles)] for _ in range(rng.choice([0, 1, 2, 3]))]
               for _ in range(nsh)]
        top = [rand_spec(2, nsh, 2) for _ in range(rng.choice([1, 2, 3, 4]))]
        steps = []
        for _ in range(rng.choice([3, 6, 10])):
            if rng.random() < 0.5:
                tgt = rand_spec(2, nsh, 0) if rng.random() > 0.2 else None
                steps.append(["set", rng.randrange(2), tgt])
            else:
                steps.append(["q", rand_style(rng, R_PARTS[:15] + ["bold", "#00f"], 3)])
        steps.append(["q", "class:a class:b"])
        yield {"k": "msess", "sheets": shs, "top": top, "steps": steps}
    # --- the style stack of an Application: defaults, pygments, user -------------------------
    a_sheets = [[["search", "bg:#000001 noreverse"], ["pygments.keyword", "nobold #111111"],
                 ["dialog.body text-area", "bg:#00ff01"], ["bottom-toolbar", "noreverse bold"]],
                [["ansired", "fg:#010101"], ["aliceblue", "fg:ansiblue underline"], ["pygments.comment", "noitalic"]],
                [["mine", "italic"], ["selected", "bg:ansiblue"], ["dialog", "bg:ansigreen"]]]
    a_users = [None, ["S", 0], ["S", 1], ["S", 2], ["M", [["S", 0], ["S", 1]]], ["Y", ["S", 0]], ["D"],
               ["M", [["S", 1], ["S", 0], ["S", 2]]]]
    a_strs = ["class:search", "class:search.current", "class:dialog.body class:text-area", "class:pygments.keyword.type",
              "class:pygments.comment.preproc", "class:ansired", "class:aliceblue", "class:bottom-toolbar",
              "class:dialog class:frame.label", "class:mine,selected", "class:dialog.body class:scrollbar.start #123",
              "class:menu.border class:shadow", "class:pygments.generic.output", "class:pygments.error", ""]
    for u in a_users:
        for inc in (True, False):
            yield {"k": "app", "inc": inc, "user": u, "sheets": a_sheets, "strs": a_strs if (inc or not quick) else a_strs[:6]}
    ui_names = sorted({n for n, _ in ui_rules()[0] if n and " " not in n})[:: (12 if quick else 2)]
    pyg_names = [n for n, _ in ui_rules()[1]][:: (6 if quick else 1)]
    for ch in chunks(ui_names + pyg_names, 10):
        shs = [[[n, rule_attr(i, i % 3)] for i, n in enumerate(ch)]]
        yield {"k": "app", "inc": True, "user": ["S", 0], "sheets": shs, "strs": ["class:" + n for n in ch]}
    # --- style transformations ----------------------------------------------------------------
    t_cols = [None, "", "default", "ansired", "ansidefault", "ansibrightblack", "ansiwhite", "ff0000", "00ff00", "808080",
              "123456", "ABCDEF", "010101", "zz", "fff", "ansidarkred", "+1+2+3"]
    t_bgs = [None, "", "default", "ansidefault", "000000", "ansiblue"]
    t_attrs = [[c, b2, False, False, True, False, None, r, False] for c in t_cols for b2 in t_bgs
               for r in (None, True, False)]
    sds = [["SD", "ansired", "#abc"], ["SD", "", "default"], ["SD", "zz", ""], ["SD", "#00ff00", "nosuch"],
           ["SD", "AliceBlue", "ansiblue"], ["SD", "#ansiteal", "ansidarkgray"]]
    abs_ = [["AB", 0, 1000], ["AB", 300, 1000], ["AB", 0, 700], ["AB", 200, 800], ["AB", -1, 1000], ["AB", 0, 1001],
            ["AB", 1000, 0], ["AB", 500, 500], ["AB", 2000, 3000]]
    prims = [["W"], ["R"], ["D"], ["N"]] + sds + abs_
    for t in prims:
        yield {"k": "tr", "t": t, "attrs": t_attrs if t[0] in ("W", "AB", "SD") else t_attrs[::7]}
    small = [["W"], ["R"], sds[0], sds[1], abs_[1], abs_[3], ["D"]]
    wrapped = []
    for t in small:
        wrapped += [["Y", t], ["C", t, True], ["C", t, False], ["M", [t]], ["M", [t, t]]]
    for a in small:
        for b2 in small:
            wrapped.append(["M", [a, b2]])
    wrapped += [["M", []], ["M", [["M", [["W"], ["R"]]], ["C", ["M", [sds[0], abs_[1]]], True]]],
                ["Y", ["Y", ["N"]]], ["C", ["C", ["R"], True], False], ["M", [["R"], ["R"], ["R"]]],
                ["M", [["W"], sds[4], abs_[2], ["R"]]]]
    for i, t in enumerate(wrapped):
        yield {"k": "tr", "t": t, "attrs": t_attrs[i % 5::(11 if quick else 3)], "callables": i % 4 == 0}
    def rand_tr(depth):
        r = rng.random()
        if depth <= 0 or r < 0.5:
            return rng.choice(prims)
        if r < 0.6:
            return ["Y", rand_tr(depth - 1)]
        if r < 0.75:
            return ["C", rand_tr(depth - 1), rng.random() < 0.6]
        return ["M", [rand_tr(depth - 1) for _ in range(rng.choice([0, 1, 2, 3, 4]))]]
    for _ in range(150 if quick else 4000):
        attrs = []
        for _ in range(12):
            a = rand_attrs(rng, rng.random() < 0.3)
            if any(isinstance(x, str) and "-" in x for x in a[:2]):
                continue       # signed slices lead into colorsys with negative components (ZeroDivisionError)
            attrs.append(a)
        yield {"k": "tr", "t": rand_tr(3), "attrs": attrs, "callables": rng.random() < 0.3}
    # --- ONE transformation object in several states: hash must follow the behaviour --------------
    s_attrs = [["ansired", "", False, False, False, False, False, False, False],
               ["", "ansiblue", False, False, False, False, False, True, False],
               ["", "", False, False, False, False, False, None, False],
               ["00ff00", "default", True, False, False, False, False, False, False]]
    s_inner = [["R"], ["W"], ["SD", "ansired", "#abc"], ["AB", 300, 1000], ["M", [["R"], ["SD", "ansigreen", "ansiblue"]]]]
    for inner in s_inner:
        for t in (["CV", inner, 0], ["M", [["CV", inner, 0], ["D"]]], ["Y", ["CV", inner, 0]],
                  ["CV", ["CV", inner, 1], 0], ["M", [["R"], ["CV", inner, 0], ["CV", ["W"], 1]]]):
            yield {"k": "trs", "t": t, "attrs": s_attrs,
                   "steps": [["flip", 0], ["flip", 1], ["flip", 0], ["flip", 1], ["flip", 0]]}
    for i, a in enumerate(s_inner):
        for b2 in s_inner:
            t = ["M", [["YV", 0], ["CV", ["YV", 1], 0]]] if i % 2 else ["YV", 0]
            yield {"k": "trs", "t": t, "attrs": s_attrs, "targets0": {"1": ["R"]},
                   "steps": [["switch", 0, a], ["flip", 0], ["switch", 0, b2], ["switch", 1, a], ["switch", 0, None],
                             ["switch", 0, ["CV", b2, 0]], ["flip", 0]]}
    for _ in range(40 if quick else 1500):
        def rt(depth):
            r = rng.random()
            if depth <= 0 or r < 0.4:
                return rng.choice(s_inner + [["D"], ["N"], ["YV", rng.randrange(2)]])
            if r < 0.7:
                return ["CV", rt(depth - 1), rng.randrange(3)]
            return ["M", [rt(depth - 1) for _ in range(rng.choice([1, 2, 3]))]]
        steps = []
        for _ in range(rng.choice([2, 4, 7])):
            if rng.random() < 0.6:
                steps.append(["flip", rng.randrange(3)])
            else:
                steps.append(["switch", rng.randrange(2), rng.choice(s_inner + [None, ["CV", ["R"], 2]])])
        yield {"k": "trs", "t": rt(3), "attrs": s_attrs, "steps": steps}
    # --- the 256-colour table against the xterm palette, index by index -----------------------
    for ch in chunks([i for i in range(16, len(PALETTE)) if i != 232], 60):
        yield {"k": "xterm", "idx": ch}
    # --- streams of escape sequences ---------------------------------------------------------
    strike_on = ["ff0000", "", False, False, True, False, False, False, False]
    plain = ["00ff00", "ansiblue", False, False, False, False, False, False, False]
    allon = ["ansired", "0000ff", True, True, True, True, True, True, True]
    for d in (1, 4, 8, 24):
        yield {"k": "stream", "depth": d, "attrs": [strike_on, plain, allon, plain, DEFAULT_LIST, allon, DEFAULT_LIST]}
        for i in range(7):
            one = list(DEFAULT_LIST)
            one[2 + i] = True
            yield {"k": "stream", "depth": d, "attrs": [one, DEFAULT_LIST, allon, one, plain]}
    for _ in range(100 if quick else 3000):
        yield {"k": "stream", "depth": rng.choice([1, 4, 8, 24, 24, 24]),
               "attrs": [rand_attrs(rng, rng.random() < 0.15) for _ in range(rng.choice([2, 3, 5, 9]))]}
    # --- seeded random -----------------------------------------------------------------
    nq = 1500 if quick else 40000
    for _ in range(nq):
        nsheets = rng.choice([1, 1, 2, 2, 3])
        sheets = [rand_sheet(rng) if rng.random() > 0.08 else None for _ in range(nsheets)]
        wild = rng.random() < 0.25
        strs = [rand_style(rng, R_PARTS if wild else R_PARTS[:15] + R_STYLES[:32], 7) for _ in range(4)]
        strs.append(strs[0])
        c = {"k": "q", "sheets": sheets, "strs": strs}
        if rng.random() < 0.25:
            c["wrap"] = [rng.choice(["", "dyn", "dummy"]) if sh is not None else rng.choice(["", "dynnone"])
                         for sh in sheets]
        if rng.random() < 0.2:
            d = rand_attrs(rng, True)
            c["default"] = d
        yield c
    nr = 400 if quick else 6000
    for _ in range(nr):
        rgbs = [[rng.randrange(256) for _ in range(3)] for _ in range(50)]
        yield {"k": "c256", "rgbs": rgbs}
        yield {"k": "c16", "items": [[r, g, b, rng.choice(exs)] for (r, g, b) in rgbs]}
    ne = 300 if quick else 6000
    for _ in range(ne):
        wild = rng.random() < 0.3
        attrs = [rand_attrs(rng, wild) for _ in range(20)]
        attrs.append(attrs[0])
        yield {"k": "esc", "depths": [1, 4, 8, 24], "attrs": attrs}
        yield {"k": "rt", "depths": [rng.choice([1, 4, 8, 24]), 24], "attrs": attrs[:8]}
    na = 300 if quick else 6000
    for _ in range(na):
        yield {"k": "ansi", "texts": [rand_ansi(rng) for _ in range(10)]}


def sample_view(case):
    c = dict(case)
    for key in ("strs", "texts", "rgbs", "items", "attrs", "gs", "ops", "objs", "steps", "idx", "cols"):
        if key in c and len(c[key]) > 4:
            c[key] = list(c[key][:4]) + [f"... {len(case[key])} in total"]
    return c


def nontrivial(case):
    k = case["k"]
    if k == "q":
        return any(s for s in case["sheets"] if s) and any(case["strs"])
    if k == "sess":
        return sum(1 for op in case["ops"] if op[1][0] == "M") >= 2
    if k == "fd":
        return len(case["items"]) >= 2
    if k == "obj":
        return any(sp and sp[0] in ("M", "Y") for sp in case["objs"])
    if k == "msess":
        return any(st[0] == "set" for st in case["steps"])
    if k == "tr":
        return case["t"][0] not in ("D", "N")
    return True


def distribution(cases_):
    d = {"kind": {}, "rules_per_query": {}, "sheets": {}, "lines": {},
         "rgb_planes_swept": len({c["r"] for c in cases_ if c["k"] == "c256row"})}
    for c in cases_:
        k = c["k"]
        d["kind"][k] = d["kind"].get(k, 0) + 1
        n = len(model_lines(c)) * (256 if k == "c256row" else 1)
        d["lines"][k] = d["lines"].get(k, 0) + n
        if k == "sess":
            d.setdefault("session_ops", {})
            key = str(len(c["ops"]))
            d["session_ops"][key] = d["session_ops"].get(key, 0) + 1
        if k == "q":
            nr = sum(len(s) for s in c["sheets"] if s)
            d["rules_per_query"][str(nr)] = d["rules_per_query"].get(str(nr), 0) + 1
            ns = str(len(c["sheets"]))
            d["sheets"][ns] = d["sheets"].get(ns, 0) + 1
    return d


if __name__ == "__main__":
    sys.exit(core.main(sys.modules[__name__]))
