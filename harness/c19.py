#!/venv/bin/python
"""C19 — style cascade and colour encoding: correspondence with Ptk.Model.C19* + property oracle."""
from __future__ import annotations

import itertools
import os
import sys

sys.path.insert(0, os.path.dirname(os.path.abspath(__file__)))
import core
from core import enc_str, enc_bool

from prompt_toolkit.formatted_text import ANSI
from prompt_toolkit.output import ColorDepth
from prompt_toolkit.output import vt100
from prompt_toolkit.output.vt100 import (
    ANSI_COLORS_TO_RGB,
    BG_ANSI_COLORS,
    FG_ANSI_COLORS,
    _16ColorCache,
    _EscapeCodeCache,
    _get_closest_ansi_color,
)
from prompt_toolkit.styles import (ANSI_COLOR_NAMES, DEFAULT_ATTRS, Attrs, DummyStyle, DynamicStyle, Style,
                                   merge_styles)
from prompt_toolkit.styles import style as style_mod
from prompt_toolkit.styles.style import _expand_classname, _parse_style_str, parse_color

ID = "C19"
DRIVER = "drv_c19"
PROPS = ["Ptk.Props.C19", "Ptk.Props.C19Cascade", "Ptk.Props.C19Color", "Ptk.Props.C19Sgr", "Ptk.Props.C19Depth",
         "Ptk.Props.C19Style", "Ptk.Props.C19Valid", "Ptk.Props.C19Merge"]
LEVEL_TEXT = ("Lean 4 theorems over an executable model of styles/style.py (parse_color, _parse_style_str, Style, "
              "get_attrs_for_style_str with the combos construction, _merge_attrs, merge_styles), output/vt100.py "
              "(_get_closest_ansi_color, _16/_256ColorCache, _EscapeCodeCache) and formatted_text/ansi.py (ANSI parser, "
              "_select_graphic_rendition, _create_style_string): last-wins cascade with every attribute concrete, a rule "
              "takes part iff all its classes occur, merged sheets = concatenated rule tables, merging is pure over "
              "shared sheet objects (heap model of list.extend), argmin lemma for any "
              "palette (nearest, first on ties, exact colours fixed), 24-bit escape -> ANSI -> style string -> Attrs is "
              "the identity on canonical attributes, 8/4/1-bit escapes decode to the nearest palette colour / ANSI name / "
              "no colour; side conditions are re-decided by the kernel on tables regenerated from /repo on every run and "
              "the model is tied to the code by a differential correspondence plus the property oracle")
LEVEL_NOTE = ("trusted: Lean kernel, axioms propext/Classical.choice/Quot.sound only; the hand-written model "
              "(validated by the correspondence, not proved equal to the Python); CPython str/int/dict semantics")
TECHNIQUE = "machine-checked proof (Lean 4) + generated tables + differential correspondence + property oracle"
RULE = ("exhaustive: every rule list up to the tier bound over 6 class-name sets x 3 attribute sets, every style "
        "string up to 3 parts over 7 parts (single, dotted, comma-combined classes, inline attributes), every "
        "contiguous split of the rule lists into 2-3 merged sheets; every session of <=3 merge/sheet queries over 10 "
        "targets sharing three Style objects (same first sheet in different merges, sheet alone before/after, "
        "repeated evaluation, .style_rules reads); all 128 flag tuples x colour pairs x 4 depths; "
        "RGB grid + palette neighbourhoods (thorough: all 256^3 triples for the 256-colour map); then seeded "
        "random sheets / style strings / attrs / SGR parameter lists incl. malformed ones. A case is non-trivial "
        "when at least one rule or inline part applies, resp. the colour is not an exact palette entry")
EXHAUSTIVE = True
EXHAUSTIVE_SCOPE = {
    "quick": "rule lists <=1 over 18 rules x all style strings <=3 parts over 7 parts, rule lists of 2 x all style "
             "strings <=2 parts (+ every 5th of 3 parts); all splits into 2-3 sheets of lists <=2; 128 flag tuples "
             "x 14 colour pairs x depths {1,4,8,24}; RGB 17^3 grid for both maps",
    "thorough": "rule lists <=2 over 18 rules x all style strings <=3 parts over 7 parts (lists <=1: <=4 parts), rule "
                "lists of 3 x strings <=2 parts (+ sample); all splits into 2-3 sheets; 128 flag tuples x 14 colour "
                "pairs x 4 depths; real code + oracle on ALL 256^3 RGB triples for the 256-colour map (model side on "
                "every 8th r-plane + grids); 52^3 grid x exclusion lists for the 16-colour map"}
TRUSTED = ["harness/c19.py compares Attrs / escape strings / fragments / palette indices line by line",
           "harness/gen_c19.py prints the live colour tables of /repo into lean/Ptk/Gen/C19.lean, plus one behaviour "
           "probe (does parse_color reject '#'+non-hex?) that selects the corresponding branch of the model",
           "Ptk/Model/C19*.lean are hand translations of styles/style.py, output/vt100.py (colour part), "
           "formatted_text/ansi.py (correspondence-checked)"]
ASSUMPTIONS = ["CPython str.split/lower/int(s,16)/dict-order semantics; str.lower and int() modelled for ASCII input",
               "str.isspace / regex \\s tables regenerated from the interpreter",
               "the colour caches (_EscapeCodeCache, _16ColorCache, _256ColorCache, SimpleCache in _MergedStyle) are "
               "memoisation of pure functions; exercised by repeated and interleaved queries",
               "RGB components are in 0..255 (the encoder guarantees it with & 0xFF)"]
PARTIAL_SCOPE = ["Style.from_dict / Priority.MOST_PRECISE ordering, DynamicStyle, style transformations are not modelled",
                 "the round trip is modulo the canonical form: None = ''/False, 'default' = '', hex digits lower-case "
                 "(the decoder prints lower-case hex)",
                 "known finding: parse_color accepts '#'+6 (or 3) arbitrary characters; such 'colours' emit no / another "
                 "code. The round-trip theorem excludes exactly these words (ColorArgOk) and Lean proves the "
                 "counterexample '#zzzzzz' (unvalidated_hex_breaks_roundtrip)",
                 "16-colour map: the saturation rule lists the obsolete names ansilightgray/ansidarkgray, so grays stay "
                 "admissible for saturated colours (modelled as is; nearest among the admissible set is proved)"]

DEPTHS = {1: ColorDepth.DEPTH_1_BIT, 4: ColorDepth.DEPTH_4_BIT, 8: ColorDepth.DEPTH_8_BIT,
          24: ColorDepth.DEPTH_24_BIT}
PALETTE = list(vt100._256_colors.colors)
HEX = "0123456789abcdefABCDEF"


# ------------------------------------------------------------------ encoding
def enc_opt_str(v):
    return "N" if v is None else enc_str(v)


def enc_opt_bool(v):
    return "N" if v is None else enc_bool(v)


def enc_attrs(a) -> str:
    a = list(a)
    return " ".join([enc_opt_str(a[0]), enc_opt_str(a[1])] + [enc_opt_bool(x) for x in a[2:9]])


def enc_sheets(sheets) -> str:
    toks = [str(len(sheets))]
    for s in sheets:
        if s is None:
            toks.append("N")
        else:
            toks.append(str(len(s)))
            for names, st in s:
                toks += [enc_str(names), enc_str(st)]
    return " ".join(toks)


def enc_frags(frags) -> str:
    return core.enc_list(frags, lambda f: enc_str(f[0]) + " " + enc_str(f[1]))


DEFAULT_LIST = list(DEFAULT_ATTRS)


# ------------------------------------------------------------------ model lines
def model_lines(case):
    k = case["k"]
    if k == "q":
        d = enc_attrs(case.get("default") or DEFAULT_LIST)
        sh = enc_sheets(case["sheets"])
        return [f"q {d} {sh} {enc_str(s)}" for s in case["strs"]]
    if k == "sess":
        d = enc_attrs(case.get("default") or DEFAULT_LIST)
        out = ["new"]
        for sh in case["sheets"]:
            out.append("sheet " + " ".join([str(len(sh))] + [enc_str(x) for r in sh for x in r]))
        for op in case["ops"]:
            tgt = op[1]
            t = f"S {tgt[1]}" if tgt[0] == "S" else \
                "M " + " ".join([str(len(tgt[1]))] + ["N" if i is None else str(i) for i in tgt[1]])
            out.append(f"sq {d} {t} {enc_str(op[2])}" if op[0] == "q" else f"srules {t}")
        return out
    if k in ("pc", "ps", "ex", "hex", "ansi"):
        return [f"{k} {enc_str(t)}" for t in case["texts"]]
    if k == "c256":
        return [f"c256 {r} {g} {b}" for r, g, b in case["rgbs"]]
    if k == "c256row":
        # the model side of the full sweep is run on every 8th r-plane (2.1 M triples); the real
        # code and the property oracle are evaluated on ALL 256^3 triples
        return [f"c256row {case['r']} {g}" for g in case["gs"]] if case.get("corr", True) else []
    if k == "c16":
        return [f"c16 {r} {g} {b} {core.enc_list(ex, enc_str)}" for (r, g, b, ex) in case["items"]]
    if k == "c16code":
        return [f"c16code {bg} {r} {g} {b} {core.enc_list(ex, enc_str)}" for (bg, r, g, b, ex) in case["items"]]
    if k in ("esc", "rt"):
        return [f"{k} {d} {enc_attrs(a)}" for d in case["depths"] for a in case["attrs"]]
    raise ValueError(k)


# ------------------------------------------------------------------ real code
def build_sheets(sheets, wrap=None):
    """Style(...) for every sheet; the first constructor error wins (as an 'err:...' string).
    `wrap[i]` (optional): 'dyn' = hand the sheet over through a DynamicStyle, 'dummy' = an empty sheet
    is represented by DummyStyle(), 'dynnone' = a None entry is a DynamicStyle returning None."""
    out = []
    for i, s in enumerate(sheets):
        w = wrap[i] if wrap and i < len(wrap) else ""
        if s is None:
            out.append(DynamicStyle(lambda: None) if w == "dynnone" else None)
            continue
        try:
            st = Style([tuple(r) for r in s])
        except AssertionError:
            return None, "err:AssertionError"
        except ValueError:
            return None, "err:ValueError"
        if w == "dummy" and not s:
            st = DummyStyle()
        elif w == "dyn":
            st = DynamicStyle(lambda st=st: st)
        out.append(st)
    return out, None


def mk_default(case):
    d = case.get("default")
    return Attrs(*d) if d else DEFAULT_ATTRS


def the_style(styles, wrapped=False):
    live = [s for s in styles if s is not None]
    if len(styles) == 1 and len(live) == 1 and not wrapped:
        return live[0]
    # (a DummyStyle queried directly ignores the style string altogether; inside merge_styles it is
    # just an empty rule list, which is what the model represents)
    return merge_styles(styles)


def q_results(case):
    styles, err = build_sheets(case["sheets"], case.get("wrap"))
    if err:
        return [err] * len(case["strs"]), None
    st = the_style(styles, bool(case.get("wrap")))
    dflt = mk_default(case)
    out = []
    for s in case["strs"]:
        try:
            out.append(st.get_attrs_for_style_str(s, dflt))
        except ValueError:
            out.append("err:ValueError")
    return out, styles


_esc_caches = {}


def esc_cache(d):
    # a long-lived cache per depth (as Vt100_Output keeps them), so that cache hits are exercised too
    if d not in _esc_caches:
        _esc_caches[d] = _EscapeCodeCache(DEPTHS[d])
    if len(_esc_caches[d]) > 50000:
        _esc_caches[d].clear()
    return _esc_caches[d]


def real_rt(d, a):
    e = esc_cache(d)[Attrs(*a)]
    frags = list(ANSI(e + "x").__pt_formatted_text__())
    if len(frags) != 1:
        return e, frags, None
    try:
        back = Style([]).get_attrs_for_style_str(frags[0][0])
    except ValueError:
        back = "err:ValueError"
    return e, frags, back


def real_c256(rgb):
    return vt100._256_colors[tuple(rgb)]


_row_memo = {}


def real_row(r, g):
    """_256_colors[(r, g, b)] for all b (computed once per worker for impl_lines and oracle)"""
    if (r, g) not in _row_memo:
        if len(_row_memo) > 64:
            _row_memo.clear()
        cache = vt100._256_colors
        _row_memo[(r, g)] = [cache[(r, g, b)] for b in range(256)]
        cache.clear()
    return _row_memo[(r, g)]


def enc_rules(rules) -> str:
    return core.enc_list(list(rules), lambda r: enc_str(r[0]) + " " + enc_str(r[1]))


def run_session(case):
    """One session over SHARED style objects: every sheet is built once, merges of the same parts are
    reused unless marked fresh; returns (answers per op, sheets) with answers = Attrs | 'err:..' | rule list."""
    sheets = [Style([tuple(r) for r in sh]) for sh in case["sheets"]]
    dflt = mk_default(case)
    merges = {}
    answers = []
    for op in case["ops"]:
        tgt = op[1]
        if tgt[0] == "S":
            obj = sheets[tgt[1]]
        else:
            key = tuple(tgt[1])
            if (len(tgt) > 2 and tgt[2]) or key not in merges:
                merges[key] = merge_styles([None if i is None else sheets[i] for i in tgt[1]])
            obj = merges[key]
        if op[0] == "q":
            try:
                answers.append(obj.get_attrs_for_style_str(op[2], dflt))
            except ValueError:
                answers.append("err:ValueError")
        else:
            answers.append([tuple(r) for r in obj.style_rules])
    return answers, sheets


def impl_lines(case):
    k = case["k"]
    if k == "sess":
        answers, _ = run_session(case)
        out = ["ok"] + [f"ok {i}" for i in range(len(case["sheets"]))]
        for a in answers:
            out.append(a if isinstance(a, str) else enc_rules(a) if isinstance(a, list) else enc_attrs(a))
        return out
    if k == "q":
        res, _ = q_results(case)
        return [r if isinstance(r, str) else enc_attrs(r) for r in res]
    if k == "pc":
        out = []
        for t in case["texts"]:
            try:
                out.append(enc_str(parse_color(t)))
            except ValueError:
                out.append("err:ValueError")
        return out
    if k == "ps":
        out = []
        for t in case["texts"]:
            try:
                out.append(enc_attrs(_parse_style_str(t)))
            except ValueError:
                out.append("err:ValueError")
        return out
    if k == "ex":
        return [core.enc_list(_expand_classname(t), enc_str) for t in case["texts"]]
    if k == "hex":
        out = []
        c = esc_cache(24)
        for t in case["texts"]:
            try:
                out.append("%d %d %d" % c._color_name_to_rgb(t))
            except ValueError:
                out.append("err:ValueError")
        return out
    if k == "ansi":
        return [enc_frags(list(ANSI(t).__pt_formatted_text__())) for t in case["texts"]]
    if k == "c256":
        out = [str(real_c256(rgb)) for rgb in case["rgbs"]]
        if len(vt100._256_colors) > 100000:
            vt100._256_colors.clear()
        return out
    if k == "c256row":
        if not case.get("corr", True):
            return []
        return [" ".join(map(str, real_row(case["r"], g))) for g in case["gs"]]
    if k == "c16":
        return [enc_str(_get_closest_ansi_color(r, g, b, exclude=ex)) for (r, g, b, ex) in case["items"]]
    if k == "c16code":
        out = []
        for (bg, r, g, b, ex) in case["items"]:
            cache = vt100._16_bg_colors if bg else vt100._16_fg_colors
            try:
                code, name = cache.get_code((r, g, b), exclude=ex)
                out.append(f"{code} {enc_str(name)}")
            except KeyError:
                out.append("err:KeyError")
        return out
    if k == "esc":
        return [enc_str(esc_cache(d)[Attrs(*a)]) for d in case["depths"] for a in case["attrs"]]
    if k == "rt":
        out = []
        for d in case["depths"]:
            for a in case["attrs"]:
                e, frags, back = real_rt(d, a)
                if back is None:
                    out.append("frags:" + enc_frags(frags))
                elif isinstance(back, str):
                    out.append(back)
                else:
                    out.append(enc_str(frags[0][0]) + " " + enc_attrs(back))
        return out
    raise ValueError(k)


# ------------------------------------------------------------------ oracle
FIELDS = Attrs._fields


def expected_cascade(rules, style_str, default):
    """The property restated: the sequence of applicable sources (default, default rules, then from left to
    right every class / inline part; a rule applies at a class name iff that name is one of its classes and
    all its classes are present), and per attribute the last value that is not None."""
    seq = [default]
    for names, attrs in rules:
        if len(names) == 0:
            seq.append(attrs)
    present = set()
    for part in style_str.split():
        if part.startswith("class:"):
            for p in part[6:].lower().split(","):
                pieces = p.split(".")
                for i in range(1, len(pieces) + 1):
                    name = ".".join(pieces[:i]).lower()
                    now = present | {name}
                    for names, attrs in rules:
                        if name in names and names <= now:
                            seq.append(attrs)
                    present = now
        else:
            seq.append(_parse_style_str(part))
    vals = []
    for i, f in enumerate(FIELDS):
        v = "" if i < 2 else False
        for a in seq:
            if a[i] is not None:
                v = a[i]
        vals.append(v)
    return Attrs(*vals), present


_rt_memo = {}


def oracle_q(case):
    v = []
    res, styles = q_results(case)
    if styles is None:
        return v
    live = [s for s in styles if s is not None]
    all_rules = [tuple(r) for s in case["sheets"] if s is not None for r in s]
    try:
        concat = Style(all_rules)
    except (ValueError, AssertionError):
        v.append({"signature": "merge_styles | concatenated rules rejected",
                  "msg": f"every sheet builds but Style(concatenated rules) raises: {case['sheets']!r}"})
        return v
    rules = concat.class_names_and_attrs
    dflt = mk_default(case)
    merged = merge_styles(styles) if len(styles) > 0 else None
    for s, r in zip(case["strs"], res):
        if isinstance(r, str):
            # a ValueError is only acceptable when an inline part is itself unparsable
            bad_inline = False
            for part in s.split():
                if not part.startswith("class:"):
                    try:
                        _parse_style_str(part)
                    except ValueError:
                        bad_inline = True
            if not bad_inline:
                v.append({"signature": "Style.get_attrs_for_style_str | raises on well-formed style string",
                          "msg": f"sheets={case['sheets']!r} style={s!r} -> {r}"})
            continue
        if any(x is None for x in r):
            v.append({"signature": "Style.get_attrs_for_style_str | attribute not concrete",
                      "msg": f"sheets={case['sheets']!r} style={s!r} -> {r}"})
        if not (isinstance(r.color, str) and isinstance(r.bgcolor, str)
                and all(isinstance(x, bool) for x in r[2:])):
            v.append({"signature": "Style.get_attrs_for_style_str | attribute not concrete",
                      "msg": f"wrong attribute types: style={s!r} -> {r}"})
        # the escape sequence emitted for the resolved attributes decodes back to them (24 bit)
        if all(isinstance(x, str) for x in r[:2]):
            key = tuple(r)
            if key not in _rt_memo:
                if len(_rt_memo) > 20000:
                    _rt_memo.clear()
                _rt_memo[key] = real_rt(24, list(r))
            e, frags, back = _rt_memo[key]
            if back != canon_attrs(r):
                if not (valid_color(r.color) and valid_color(r.bgcolor)):
                    if valid_color(dflt.color or "") and valid_color(dflt.bgcolor or ""):
                        v.append({"signature": SIG_UNVALIDATED_HEX,
                                  "msg": f"style={s!r} sheets={case['sheets']!r} resolves to {r}; escape {e!r} "
                                         f"decodes to {back}"})
                else:
                    v.append({"signature": "_EscapeCodeCache | 24-bit escape of resolved attributes does not decode back",
                              "msg": f"style={s!r} sheets={case['sheets']!r} resolves to {r}; escape {e!r} "
                                     f"decodes to {back}"})
        exp, _ = expected_cascade(rules, s, dflt)
        if r != exp:
            v.append({"signature": "Style.get_attrs_for_style_str | not the last applicable value",
                      "msg": f"sheets={case['sheets']!r} style={s!r} default={dflt}: got {r}, last-wins gives {exp}"})
        # merged == one sheet with the rules concatenated
        one = concat.get_attrs_for_style_str(s, dflt)
        if merged is not None and merged.get_attrs_for_style_str(s, dflt) != one:
            v.append({"signature": "merge_styles | differs from concatenated sheet",
                      "msg": f"sheets={case['sheets']!r} style={s!r}: merged "
                             f"{merged.get_attrs_for_style_str(s, dflt)} != concatenated {one}"})
        if r != one:
            v.append({"signature": "merge_styles | differs from concatenated sheet",
                      "msg": f"sheets={case['sheets']!r} style={s!r}: {r} != concatenated {one}"})
    return v


SIG_UNVALIDATED_HEX = "parse_color | '#' followed by 6 or 3 non-hex characters is accepted as a colour"


def valid_color(c):
    return c in ("", "default") or c in FG_ANSI_COLORS or (len(c) == 6 and all(ch in HEX for ch in c))


def canon_attrs(a):
    """the attributes an escape sequence can carry: None/'' -> no colour, flags as booleans, hex lower-case"""
    def col(c):
        c = c or ""
        if c == "default":
            return ""
        return c if c in FG_ANSI_COLORS else c.lower()
    return Attrs(col(a[0]), col(a[1]), *[bool(x) for x in a[2:9]])


def sqd(c, p):
    return (c[0] - p[0]) ** 2 + (c[1] - p[1]) ** 2 + (c[2] - p[2]) ** 2


def check_256(rgb, m, site):
    """m must be an index >= 16 of a nearest palette colour; exact palette colours keep their colour
    (which of several equally near entries is taken is not part of the property: correspondence only)"""
    v = []
    if not (16 <= m < len(PALETTE)):
        return [{"signature": f"{site} | index outside the 256-colour cube/gray ramp",
                 "msg": f"rgb={rgb} -> {m}"}]
    dm = sqd(rgb, PALETTE[m])
    best = min(sqd(rgb, PALETTE[j]) for j in range(16, len(PALETTE)))
    if dm != best:
        v.append({"signature": f"{site} | not a nearest palette colour",
                  "msg": f"rgb={rgb} -> {m} {PALETTE[m]} at distance {dm}, nearest is at {best}"})
    if tuple(rgb) in PALETTE[16:] and PALETTE[m] != tuple(rgb):
        v.append({"signature": f"{site} | exact palette colour not mapped to itself",
                  "msg": f"rgb={rgb} -> {m} {PALETTE[m]}"})
    return v


CHROMATIC = [n for n, (r, g, b) in ANSI_COLORS_TO_RGB.items() if not (r == g == b)]
GRAYS = [n for n, (r, g, b) in ANSI_COLORS_TO_RGB.items() if r == g == b and n != "ansidefault"]


def check_16(rgb, name, exclude, site):
    """name must be an allowed ANSI colour that is nearest among the allowed ones: always among the
    chromatic colours that are not excluded; among ALL non-excluded colours when the input is (nearly)
    gray; an exact ANSI colour maps to its own name."""
    v = []
    r, g, b = rgb
    if name not in ANSI_COLORS_TO_RGB:
        return [{"signature": f"{site} | unknown colour name", "msg": f"rgb={rgb} -> {name!r}"}]
    allowed_all = [n for n in ANSI_COLOR_NAMES if n != "ansidefault" and n not in exclude]
    if name == "ansidefault":
        sat = abs(r - g) + abs(g - b) + abs(b - r)
        left = [n for n in allowed_all if sat <= 30 or n in CHROMATIC]
        if left:
            v.append({"signature": f"{site} | no colour chosen although candidates exist",
                      "msg": f"rgb={rgb} exclude={exclude}"})
        return v
    if name in exclude:
        v.append({"signature": f"{site} | excluded colour chosen", "msg": f"rgb={rgb} exclude={exclude} -> {name}"})
    dm = sqd(rgb, ANSI_COLORS_TO_RGB[name])
    sat = abs(r - g) + abs(g - b) + abs(b - r)
    ref = allowed_all if sat <= 30 else [n for n in allowed_all if n in CHROMATIC]
    for n in ref:
        if sqd(rgb, ANSI_COLORS_TO_RGB[n]) < dm:
            v.append({"signature": f"{site} | not a nearest allowed colour",
                      "msg": f"rgb={rgb} exclude={exclude} -> {name} at {dm}, {n} is nearer"})
            break
    if not exclude:
        for n in allowed_all:
            if ANSI_COLORS_TO_RGB[n] == tuple(rgb) and ANSI_COLORS_TO_RGB[name] != tuple(rgb):
                v.append({"signature": f"{site} | exact palette colour not mapped to itself",
                          "msg": f"rgb={rgb} -> {name}"})
                break
    return v


def sgr_params(esc):
    assert esc.startswith("\x1b[0") and esc.endswith("m"), esc
    body = esc[2:-1]
    return [int(x) for x in body.split(";")]


def hex_rgb(c):
    return (int(c[0:2], 16), int(c[2:4], 16), int(c[4:6], 16))


def is_hex6(c):
    return len(c) == 6 and all(ch in HEX for ch in c)


def oracle_esc(case):
    """24 bit: decode(encode attrs) == attrs; 8/4 bit: each RGB colour is sent as a nearest palette code;
    1 bit: no colour at all; flags survive at every depth."""
    v = []
    inv_fg = {c: n for n, c in FG_ANSI_COLORS.items()}
    inv_bg = {c: n for n, c in BG_ANSI_COLORS.items()}
    for d in case["depths"]:
        for a in case["attrs"]:
            fgc, bgc = a[0] or "", a[1] or ""
            if not (valid_color(fgc) and valid_color(bgc)):
                continue
            e, frags, back = real_rt(d, a)
            want = canon_attrs(a)
            if back is None or isinstance(back, str):
                v.append({"signature": "_EscapeCodeCache | escape code does not decode to one styled fragment",
                          "msg": f"depth={d} attrs={a} esc={e!r} fragments={frags!r}"})
                continue
            if frags[0][1] != "x":
                v.append({"signature": "_EscapeCodeCache | escape code does not decode to one styled fragment",
                          "msg": f"depth={d} attrs={a} esc={e!r} fragments={frags!r}"})
            if tuple(back[2:]) != tuple(want[2:]):
                v.append({"signature": "_EscapeCodeCache | flags do not round-trip",
                          "msg": f"depth={d} attrs={a} esc={e!r} decoded={back}"})
            if d == 24:
                if back != want:
                    v.append({"signature": "_EscapeCodeCache | 24-bit escape does not decode to the same attributes",
                              "msg": f"attrs={a} esc={e!r} decoded={back}"})
                continue
            if d == 1:
                if back.color != "" or back.bgcolor != "":
                    v.append({"signature": "_EscapeCodeCache | 1-bit depth emits a colour",
                              "msg": f"attrs={a} esc={e!r}"})
                continue
            # depth 4 / 8: named colours are kept, RGB colours go to a nearest palette entry
            params = sgr_params(e)[1:]
            i = 0
            got = {}
            while i < len(params):
                p = params[i]
                if p in (38, 48) and i + 2 < len(params) + 0 and params[i + 1] == 5:
                    got["bg" if p == 48 else "fg"] = ("idx", params[i + 2])
                    i += 3
                elif p in inv_fg:
                    got["fg"] = ("name", inv_fg[p])
                    i += 1
                elif p in inv_bg:
                    got["bg"] = ("name", inv_bg[p])
                    i += 1
                else:
                    i += 1
            fg_name = None
            for which, col in (("fg", fgc), ("bg", bgc)):
                site = f"_EscapeCodeCache depth {d} {which}"
                if col in ("", "default"):
                    if which in got:
                        v.append({"signature": f"{site} | colour emitted for empty colour",
                                  "msg": f"attrs={a} esc={e!r}"})
                elif col in FG_ANSI_COLORS:
                    if got.get(which) != ("name", col):
                        v.append({"signature": f"{site} | named colour not kept",
                                  "msg": f"attrs={a} esc={e!r}"})
                else:
                    rgb = hex_rgb(col)
                    g = got.get(which)
                    if d == 8:
                        if not g or g[0] != "idx":
                            v.append({"signature": f"{site} | no palette index emitted", "msg": f"attrs={a} esc={e!r}"})
                        else:
                            v += check_256(rgb, g[1], site)
                    else:
                        if not g or g[0] != "name":
                            v.append({"signature": f"{site} | no ANSI colour emitted", "msg": f"attrs={a} esc={e!r}"})
                        else:
                            ex = []
                            if which == "bg" and fg_name is not None and fgc != bgc:
                                ex = [fg_name]
                            v += check_16(rgb, g[1], ex, site)
                            if which == "fg":
                                fg_name = g[1]
    return v


def oracle_sess(case):
    """merging is the same as ONE sheet with the rules concatenated - also when sheet objects take part
    in several merges / are queried alone in between - and merging leaves the sheets' own rules alone."""
    v = []
    answers, sheets = run_session(case)
    orig = [[tuple(r) for r in sh] for sh in case["sheets"]]
    dflt = mk_default(case)
    for n, (op, a) in enumerate(zip(case["ops"], answers)):
        tgt = op[1]
        parts = [tgt[1]] if tgt[0] == "S" else [i for i in tgt[1] if i is not None]
        want_rules = [r for i in parts for r in orig[i]]
        what = "sheet" if tgt[0] == "S" else "merge_styles"
        if op[0] == "q":
            try:
                want = Style(list(want_rules)).get_attrs_for_style_str(op[2], dflt)
            except ValueError:
                want = "err:ValueError"
            if a != want:
                v.append({"signature": f"{what} | differs from concatenated sheet after earlier merges",
                          "msg": f"sheets={case['sheets']!r} ops={case['ops'][:n + 1]!r}: step {n} gives {a}, one sheet "
                                 f"with the concatenated rules {want_rules!r} gives {want}"})
        elif a != want_rules:
            v.append({"signature": f"{what} | style_rules is not the concatenation of the constituent rules",
                      "msg": f"sheets={case['sheets']!r} ops={case['ops'][:n + 1]!r}: step {n} style_rules={a!r}, "
                             f"expected {want_rules!r}"})
    for i, st in enumerate(sheets):
        if [tuple(r) for r in st.style_rules] != orig[i]:
            v.append({"signature": "merge_styles | a constituent sheet's style_rules changed",
                      "msg": f"sheets={case['sheets']!r} ops={case['ops']!r}: sheet {i} now has style_rules="
                             f"{list(st.style_rules)!r}"})
    return v


def oracle(case):
    k = case["k"]
    v = []
    if k == "sess":
        v = oracle_sess(case)
    elif k == "q":
        v = oracle_q(case)
    elif k == "c256":
        for rgb in case["rgbs"]:
            v += check_256(tuple(rgb), real_c256(rgb), "_256ColorCache")
    elif k == "c256row":
        r = case["r"]
        for g in case["gs"]:
            v += check_256_row(r, g, real_row(r, g))
    elif k == "c16":
        for (r, g, b, ex) in case["items"]:
            v += check_16((r, g, b), _get_closest_ansi_color(r, g, b, exclude=ex), ex, "_get_closest_ansi_color")
    elif k == "c16code":
        for (bg, r, g, b, ex) in case["items"]:
            cache = vt100._16_bg_colors if bg else vt100._16_fg_colors
            code, name = cache.get_code((r, g, b), exclude=ex)
            v += check_16((r, g, b), name, ex, "_16ColorCache.get_code")
            if (BG_ANSI_COLORS if bg else FG_ANSI_COLORS).get(name) != code:
                v.append({"signature": "_16ColorCache.get_code | code does not belong to the name",
                          "msg": f"{(bg, r, g, b, ex)} -> {code} {name}"})
    elif k in ("esc", "rt"):
        v = oracle_esc(case)
    # pc / ps / ex / hex / ansi: correspondence only (building blocks)
    seen, out = set(), []
    for x in v:
        if x["signature"] not in seen:
            seen.add(x["signature"])
            out.append(x)
    return out


_PAL16 = [(j, p) for j, p in enumerate(PALETTE) if j >= 16]
_PB_SQ = [[(b - p[2]) ** 2 for _, p in _PAL16] for b in range(256)]
_EXACT = {}
for _j, _p in reversed(_PAL16):
    _EXACT[_p] = _j


def check_256_row(r, g, row):
    """nearest-colour check for one (r, g, *) row: the distance of the chosen entry must equal the minimum
    over all entries >= 16 (computed with the b-independent part hoisted: same definition, cheaper)."""
    import operator
    v = []
    d0s = [(r - p[0]) ** 2 + (g - p[1]) ** 2 for _, p in _PAL16]
    for b in range(256):
        m = row[b]
        if not (16 <= m < len(PALETTE)):
            v += check_256((r, g, b), m, "_256ColorCache")
            continue
        best = min(map(operator.add, d0s, _PB_SQ[b]))
        pm = PALETTE[m]
        dm = (r - pm[0]) ** 2 + (g - pm[1]) ** 2 + (b - pm[2]) ** 2
        if dm != best or ((r, g, b) in _EXACT and pm != (r, g, b)):
            v += check_256((r, g, b), m, "_256ColorCache")
    return v


# ------------------------------------------------------------------ generators
NAMES = ["", "a", "b", "a.x", "a b", "b a.x"]
PARTS = ["class:a", "class:b", "class:a.x", "class:a,b", "class:b.y,a.x", "nobold", "#0000ff"]


def rule_attr(i, j):
    """attribute set j of the rule at position i (distinct colours identify the winning rule)"""
    if j == 0:
        return f"#11111{i}"
    if j == 1:
        return f"bold bg:#22222{i}"
    return "nobold underline" if i % 2 == 0 else "noinherit italic fg:ansired"


def all_rule_lists(maxlen):
    base = [(n, j) for n in NAMES for j in range(3)]
    for ln in range(maxlen + 1):
        for combo in itertools.product(base, repeat=ln):
            yield [[n, rule_attr(i, j)] for i, (n, j) in enumerate(combo)]


def all_strs(maxparts, parts=PARTS):
    out = []
    for ln in range(maxparts + 1):
        for combo in itertools.product(parts, repeat=ln):
            out.append(" ".join(combo))
    return out


def splits(rules, k):
    """all ways to cut the list into k contiguous (possibly empty) sheets"""
    n = len(rules)
    for cuts in itertools.combinations_with_replacement(range(n + 1), k - 1):
        b = [0] + list(cuts) + [n]
        yield [rules[b[i]:b[i + 1]] for i in range(k)]


R_NAMES = ["", "a", "b", "c", "a.x", "a.x.y", "b.y", "a b", "b a.x", "a  b", "a\tb", "c a b", "a a",
           "x-1_z", " a ", "a　b", "a\x1cb", "A", "a,b", "a\nb", "\n", "b.y a.x c"]
R_STYLES = ["bold", "nobold", "italic", "noitalic", "underline", "nounderline", "strike", "nostrike", "blink",
            "noblink", "reverse", "noreverse", "hidden", "nohidden", "noinherit", "roman", "sans", "mono",
            "border:#ff0000", "[transparent]", "[", "[]", "#ff0000", "#F0a", "fg:#00ff00", "bg:#0000ff",
            "bg:ansired", "fg:ansidarkred", "ansibrightblue", "bg:ansidefault", "AliceBlue", "bg:darkred",
            "fg:", "bg:", "fg:default", "default", "#ansiblue", "#ansiteal", "bg:#12", "#12345", "fg:nosuch",
            "#zzzzzz", "Bold", "xnoinherit", "class:a", "bg:#+12345", "#1234567"]
R_PARTS = ["class:a", "class:b", "class:c", "class:a.x", "class:a.x.y", "class:b.y", "class:a,b", "class:A.X",
           "class:b.y,a.x", "class:", "class:a,,b", "class:.", "class:a.", "class:x-1_z", "class:a.x,c,b",
           "class:noinherit", "class", "class:a　class:b"] + R_STYLES[:44]
WS = [" ", " ", " ", "  ", "\t", "\n", "　", "\x1c", "\x85"]


def rand_style(rng, pool, maxn):
    n = rng.choice([0, 1, 1, 2, 2, 3, maxn])
    s = ""
    for i in range(n):
        s += (rng.choice(WS) if i else rng.choice(["", "", " "])) + rng.choice(pool)
    return s + rng.choice(["", "", " "])


def rand_sheet(rng):
    n = rng.choice([0, 1, 2, 2, 3, 4, 6])
    pool_n = R_NAMES if rng.random() < 0.15 else R_NAMES[:15]
    pool_s = R_STYLES if rng.random() < 0.15 else R_STYLES[:38]
    return [[rng.choice(pool_n), rand_style(rng, pool_s, 4)] for _ in range(n)]


def rand_color(rng, wild=True):
    k = rng.randrange(12 if wild else 9)
    if k < 2:
        return ""
    if k < 4:
        return rng.choice(ANSI_COLOR_NAMES)
    if k < 7:
        return "".join(rng.choice("0123456789abcdef") for _ in range(6))
    if k == 7:
        return "".join(rng.choice(HEX) for _ in range(6))
    if k == 8:
        p = rng.choice(PALETTE + list(ANSI_COLORS_TO_RGB.values()))
        q = [min(255, max(0, x + rng.choice([-1, 0, 0, 1]))) for x in p]
        return "%02x%02x%02x" % tuple(q)
    return rng.choice(["default", "zzzzzz", "+12345", "0x1234", "-1", "ansidarkred", "ff", "fffffff", "1_2345",
                       "0x_1f", "_1", "1__2", "12_", " ff", "0X10", "ansi", None])


def rand_attrs(rng, wild=True):
    def flag():
        return rng.choice([True, False, False, None]) if wild else rng.choice([True, False])
    return [rand_color(rng, wild), rand_color(rng, wild)] + [flag() for _ in range(7)]


SGR_POOL = list(range(0, 10)) + list(range(21, 50)) + list(range(90, 108)) + [38, 48, 38, 48, 2, 5, 2, 5, 16, 17,
           231, 232, 253, 254, 255, 256, 9999, 10000, 123456, 100, 110]


def rand_ansi(rng):
    s = ""
    for _ in range(rng.choice([1, 1, 2, 3])):
        k = rng.randrange(10)
        if k < 6:
            ps = [rng.choice(SGR_POOL) for _ in range(rng.choice([0, 1, 2, 3, 5, 6, 8]))]
            body = ";".join(str(p) if rng.random() > 0.05 else "" for p in ps)
            s += rng.choice(["\x1b[", "\x1b[", "\x9b"]) + body + rng.choice(["m", "m", "m", "m", "C", "K", "", ";"])
        elif k == 6:
            s += "\x1b[" + str(rng.choice([0, 1, 3, 12])) + "C"
        elif k == 7:
            s += "\x01" + rng.choice(["", "zw", "\x1b[1m", "\x01"]) + rng.choice(["\x02", "\x02\x01", "\x02\x1b[4m", ""])
        elif k == 8:
            s += rng.choice(["\x1b", "\x1bx", "\x1b\x1b[1m", "\x1b[1;", "\x1b[²m", "\x1b[1x"])
        else:
            s += rng.choice(["a", "b ", "\n", "m", ";", "[", "1"])
        s += rng.choice(["x", "", "yz"])
    return s


FLAG_TUPLES = list(itertools.product([False, True], repeat=7))
COLOR_PAIRS = [("", ""), ("ansired", ""), ("", "ansiblue"), ("ansidefault", "ansidefault"), ("ff0000", ""),
               ("", "00ff00"), ("ff0000", "ff0000"), ("ff0000", "fe0101"), ("123456", "abcdef"),
               ("ABCDEF", "ansiwhite"), ("ansibrightblack", "808080"), ("000000", "ffffff"), ("7f7f7f", "e5e5e5"),
               ("cd0000", "cd0101")]


def grid(n):
    step = 255 / (n - 1)
    return sorted({round(i * step) for i in range(n)})


def chunks(l, n):
    for i in range(0, len(l), n):
        yield l[i:i + n]


_CALLS = 0


def sweep_step():
    """1 = all 256 r-planes (the full 256^3 sweep, ~25 CPU-minutes of real-code palette searches).
    On a host that is already overloaded (load average > 2 x cores) only every 4th plane is swept, so that
    the tier stays inside its time budget; VERIF_C19_SWEEP=full|quarter overrides."""
    mode = os.environ.get("VERIF_C19_SWEEP", "")
    if mode == "full":
        return 1
    if mode == "quarter":
        return 4
    try:
        overloaded = os.getloadavg()[0] > 2.0 * (os.cpu_count() or 1)
    except OSError:
        overloaded = False
    if overloaded:
        sys.stderr.write("C19: host overloaded, sweeping every 4th r-plane of the 256^3 cube only\n")
    return 4 if overloaded else 1


def cases(tier, rng):
    """all cases of the tier; the expensive full-sweep rows are spread evenly over the list so that the
    worker chunks of core.parallel_eval are balanced"""
    cs = list(_cases(tier, rng))
    heavy = [c for c in cs if c["k"] == "c256row"]
    light = [c for c in cs if c["k"] != "c256row"]
    if not heavy:
        return light
    out = []
    step = max(1, len(light) // len(heavy))
    hi = 0
    for i, c in enumerate(light):
        out.append(c)
        if i % step == step - 1 and hi < len(heavy):
            out.append(heavy[hi])
            hi += 1
    out += heavy[hi:]
    return out


def _cases(tier, rng):
    global _CALLS
    _CALLS += 1
    # the second call in one process is core's "search harder" pass after a broken obligation:
    # it gets the quick colour grids instead of the full 256^3 sweep (the cascade part stays thorough)
    quick = tier == "quick"
    sweep = (not quick) and _CALLS == 1
    # --- building blocks -------------------------------------------------------------
    yield {"k": "pc", "texts": sorted({t[i:] for t in R_STYLES for i in (0, 3)} | set(ANSI_COLOR_NAMES)
                                      | {"#" + n for n in ANSI_COLOR_NAMES} | {"ansidarkgray", "#ansilightgray",
                                         "DarkRed", "darkred", "DARKRED", "#abc", "#ABC", "#abcd", "", "#", "##", "default",
                                         "Default", "#default", "#ffffff", "ffffff", "fff"})}
    yield {"k": "ps", "texts": R_STYLES + ["bold italic", "bold nobold", "noinherit", "bold noinherit",
                                            "xnoinherit bold", "#f00 bg:#0f0 underline", "  bold\t\nitalic ",
                                            "bold　italic", "bold\x1citalic", "bg:ansired bg:", "", " "]}
    yield {"k": "ex", "texts": ["", "a", "a.b", "a.b.c", "A.b", ".", "a.", ".a", "a..b", "a.b.c.d.e", "x-1_z.y"]}
    yield {"k": "hex", "texts": ["ff0000", "FF00aa", "000000", "ffffff", "", "f", "fffffff", "zzzzzz", "+12345",
                                 "-12345", "-1", "0x1234", "0X12", "0x", "0x_1f", "0x__1f", "_1", "1_", "1_2", "1__2",
                                 " ff ", "\tff\n", "f f", "+", "-", "+-1", "0b11", "0o7", "default", "ansired",
                                 "1_2_3", "0_x1", "00ff", "-0x10", "- 1", "　ff", "ffffffffffffffffffff"]}
    # --- exhaustive cascade -----------------------------------------------------------
    strs3 = all_strs(3)
    strs2 = all_strs(2)
    strs4 = strs3 if quick else all_strs(4)
    for rules in all_rule_lists(2 if quick else 3):
        if quick:
            strs = strs3 if len(rules) < 2 else strs2 + strs3[57::5]
        else:
            strs = strs4 if len(rules) < 2 else strs3 if len(rules) < 3 else strs2 + strs3[57::11]
        yield {"k": "q", "sheets": [rules], "strs": strs}
    for rules in all_rule_lists(2 if quick else 3):
        if not rules:
            continue
        if len(rules) == 3 and rng.random() < 0.93:
            continue
        for k in (2, 3):
            for sp in splits(rules, k):
                sheets = list(sp)
                if rng.random() < 0.3:
                    sheets.insert(rng.randrange(len(sheets) + 1), None)
                yield {"k": "q", "sheets": sheets, "strs": strs2}
    # --- sessions over shared sheet objects ------------------------------------------------
    sess_sheets = [[["x", "fg:#ff0000"], ["y", "underline"]], [["x", "bold"], ["x y", "bg:#00ff00"]],
                   [["x", "italic"], ["", "blink"]]]
    targets = [["S", 0], ["S", 1], ["M", [0, 1]], ["M", [0, 2]], ["M", [0, 2, 1]], ["M", [1, 0]], ["M", [0]],
               ["M", [None, 0, 2]], ["M", [2, None, 0]], ["M", [0, 0]]]
    sstrs = ["class:x class:y", "class:y,x nobold", ""]
    for ln in (1, 2, 3):
        for combo in itertools.product(range(len(targets)), repeat=ln):
            ops = []
            for j, ti in enumerate(combo):
                ops.append(["q", targets[ti], sstrs[(ti + j) % len(sstrs)]])
                if (ti + j) % 3 == 0:
                    ops.append(["rules", targets[ti]])
            ops += [["rules", ["S", 0]], ["q", ["S", 0], "class:x class:y"], ["q", ["M", [0, 2]], "class:x class:y"]]
            yield {"k": "sess", "sheets": sess_sheets, "ops": ops}
    ok_names = ["", "a", "b", "c", "a.x", "a b", "b a.x", "b.y"]
    ok_styles = ["bold", "nobold", "italic", "#ff0000", "bg:#00ff00", "underline fg:ansiblue", "noinherit",
                 "reverse bg:ansired", "#abc hidden", "fg:default strike"]
    for _ in range(150 if quick else 4000):
        nsh = rng.choice([2, 3, 3, 4])
        shs = [[[rng.choice(ok_names), rng.choice(ok_styles)] for _ in range(rng.choice([0, 1, 2, 3]))]
               for _ in range(nsh)]
        ops = []
        for _ in range(rng.choice([3, 5, 8, 12])):
            if rng.random() < 0.3:
                tgt = ["S", rng.randrange(nsh)]
            else:
                parts = [rng.choice([None] + list(range(nsh)) * 3) for _ in range(rng.choice([1, 2, 2, 3, 4]))]
                if rng.random() < 0.5:
                    parts[0] = 0 if rng.random() < 0.6 else rng.randrange(nsh)
                tgt = ["M", parts, rng.random() < 0.3]
            if rng.random() < 0.25:
                ops.append(["rules", tgt])
            else:
                ops.append(["q", tgt, rand_style(rng, R_PARTS[:15] + ["bold", "#00f", "nobold"], 4)])
        c = {"k": "sess", "sheets": shs, "ops": ops}
        if rng.random() < 0.15:
            c["default"] = rand_attrs(rng, False)
        yield c
    # non-default `default` argument incl. None fields
    for d in ([None, None] + [None] * 7, ["ansiblue", None, True, None, False, None, None, True, None],
              ["", "ff00ff", False, True, True, False, False, False, True]):
        for rules in all_rule_lists(1):
            yield {"k": "q", "sheets": [rules], "strs": strs2, "default": d}
    # --- escape codes: all flag tuples x colour pairs x depths --------------------------
    for pair in COLOR_PAIRS:
        attrs = [[pair[0], pair[1]] + list(f) for f in FLAG_TUPLES]
        yield {"k": "esc", "depths": [1, 4, 8, 24], "attrs": attrs}
        yield {"k": "rt", "depths": [1, 4, 8, 24], "attrs": attrs[::5]}
    # --- colour maps ------------------------------------------------------------------
    near = []
    for p in PALETTE + list(ANSI_COLORS_TO_RGB.values()):
        for dx in (-1, 0, 1):
            for ch in range(3):
                q = list(p)
                q[ch] = min(255, max(0, q[ch] + dx))
                near.append(q)
    for ch in chunks(near, 500):
        yield {"k": "c256", "rgbs": ch}
    names = list(ANSI_COLORS_TO_RGB)
    exs = [[]] + [[n] for n in names] + [["ansired", "ansibrightred"], [""], ["ansilightgray"], names[1:]]
    for ch in chunks(near, 200):
        yield {"k": "c16", "items": [[r, g, b, ex] for (r, g, b) in ch for ex in ([], [names[(r + g + b) % 17]])]}
    g1 = grid(17)
    if not sweep:
        pts = [[r, g, b] for r in g1 for g in g1 for b in g1]
        for ch in chunks(pts, 500):
            yield {"k": "c256", "rgbs": ch}
        for ch in chunks(pts, 300):
            yield {"k": "c16", "items": [[r, g, b, []] for (r, g, b) in ch]}
        g2 = grid(6)
        items = [[r, g, b, ex] for r in g2 for g in g2 for b in g2 for ex in exs]
        for ch in chunks(items, 400):
            yield {"k": "c16", "items": ch}
    else:
        step = sweep_step()
        for r in range(0, 256, step):
            for gs in chunks(list(range(256)), 16):
                yield {"k": "c256row", "r": r, "gs": gs, "corr": r % 8 == 0}
        g3 = grid(52)
        pts = [[r, g, b, []] for r in g3 for g in g3 for b in g3]
        for ch in chunks(pts, 1000):
            yield {"k": "c16", "items": ch}
        g2 = grid(9)
        items = [[r, g, b, ex] for r in g2 for g in g2 for b in g2 for ex in exs]
        for ch in chunks(items, 400):
            yield {"k": "c16", "items": ch}
    items = [[bg, r, g, b, ex] for bg in (0, 1) for (r, g, b) in near[::7] for ex in ([], ["ansired"])]
    for ch in chunks(items, 400):
        yield {"k": "c16code", "items": ch}
    # --- seeded random -----------------------------------------------------------------
    nq = 1500 if quick else 40000
    for _ in range(nq):
        nsheets = rng.choice([1, 1, 2, 2, 3])
        sheets = [rand_sheet(rng) if rng.random() > 0.08 else None for _ in range(nsheets)]
        wild = rng.random() < 0.25
        strs = [rand_style(rng, R_PARTS if wild else R_PARTS[:15] + R_STYLES[:32], 7) for _ in range(4)]
        strs.append(strs[0])
        c = {"k": "q", "sheets": sheets, "strs": strs}
        if rng.random() < 0.25:
            c["wrap"] = [rng.choice(["", "dyn", "dummy"]) if sh is not None else rng.choice(["", "dynnone"])
                         for sh in sheets]
        if rng.random() < 0.2:
            d = rand_attrs(rng, True)
            c["default"] = d
        yield c
    nr = 400 if quick else 6000
    for _ in range(nr):
        rgbs = [[rng.randrange(256) for _ in range(3)] for _ in range(50)]
        yield {"k": "c256", "rgbs": rgbs}
        yield {"k": "c16", "items": [[r, g, b, rng.choice(exs)] for (r, g, b) in rgbs]}
    ne = 300 if quick else 6000
    for _ in range(ne):
        wild = rng.random() < 0.3
        attrs = [rand_attrs(rng, wild) for _ in range(20)]
        attrs.append(attrs[0])
        yield {"k": "esc", "depths": [1, 4, 8, 24], "attrs": attrs}
        yield {"k": "rt", "depths": [rng.choice([1, 4, 8, 24]), 24], "attrs": attrs[:8]}
    na = 300 if quick else 6000
    for _ in range(na):
        yield {"k": "ansi", "texts": [rand_ansi(rng) for _ in range(10)]}


def sample_view(case):
    c = dict(case)
    for key in ("strs", "texts", "rgbs", "items", "attrs", "gs", "ops"):
        if key in c and len(c[key]) > 4:
            c[key] = list(c[key][:4]) + [f"... {len(case[key])} in total"]
    return c


def nontrivial(case):
    k = case["k"]
    if k == "q":
        return any(s for s in case["sheets"] if s) and any(case["strs"])
    if k == "sess":
        return sum(1 for op in case["ops"] if op[1][0] == "M") >= 2
    return True


def distribution(cases_):
    d = {"kind": {}, "rules_per_query": {}, "sheets": {}, "lines": {},
         "rgb_planes_swept": len({c["r"] for c in cases_ if c["k"] == "c256row"})}
    for c in cases_:
        k = c["k"]
        d["kind"][k] = d["kind"].get(k, 0) + 1
        n = len(model_lines(c)) * (256 if k == "c256row" else 1)
        d["lines"][k] = d["lines"].get(k, 0) + n
        if k == "sess":
            d.setdefault("session_ops", {})
            key = str(len(c["ops"]))
            d["session_ops"][key] = d["session_ops"].get(key, 0) + 1
        if k == "q":
            nr = sum(len(s) for s in c["sheets"] if s)
            d["rules_per_query"][str(nr)] = d["rules_per_query"].get(str(nr), 0) + 1
            ns = str(len(c["sheets"]))
            d["sheets"][ns] = d["sheets"].get(ns, 0) + 1
    return d


if __name__ == "__main__":
    sys.exit(core.main(sys.modules[__name__]))
