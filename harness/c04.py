#!/venv/bin/python
"""C04 — key-binding dispatch: correspondence with Ptk.Model.C04* + property oracle.

A case is {"ops": [...]}; ops name the objects they create (filters, key-binding containers,
binding templates) so that a case stays meaningful when ops are deleted during shrinking:
an op that refers to a name that does not exist (any more) is skipped on both sides.

  ["cond", name, v]                 Condition reading switch v
  ["and"|"or", name, a, b]          a & b, a | b
  ["inv", name, a]                  ~a
  ["tof", name, bool]               to_filter(bool)
  ["ev", a]                         a()
  ["flip", v] / ["setdone", b]      toggle switch v / app.is_done
  ["mk", name, kind, ...]           kb | cond child raw | merged [children] | dyn target|None | glob child
  ["tmpl", name, hid, f, e, g(, m)] key_binding(filter, eager, is_global, record_in_macro)(handler hid)
  ["op", rop]                       rop = ["add", r, hid, f, e, g, keys(, m)] | ["addb", r, tmpl, f, e, g, keys]
                                          | ["rmh", r, hid] | ["rmk", r, keys] | ["target", d, t|None]
                                    (m = record_in_macro, default True)
  ["addr", r, hid, [raw, ...]]      kb.add(*raw)(handler): raw = ["E", value] (Keys member) | ["S", string]
  ["parse", raw]                    key_bindings._parse_key(raw)
  ["argv", "chars"]                 KeyPressEvent.append_to_arg_count(c) for c in chars, then .arg
  ["mstate"]                        emacs current_recording / macro, vi recording_register / current_recording
  ["refeed", n]                     a handler that feeds its own key again: n iterations of process_keys (watchdog)
  ["for"|"start", r, keys]          get_bindings_for_keys / get_bindings_starting_with_keys
  ["bindings", r] / ["version", r]
  ["handler", hid, [eff, ...]]      eff = {flips, ops, feeds:[[first,[kp..]]], macros:["S"|"E"|"C"|"VS"|"VE"], exit,
                                    argkey: char|None, outcome} for the 1st, 2nd, ... invocation of handler hid
  ["proc", r]                       KeyProcessor(r)
  ["feed", first, [kp, ...]]        kp = "F" (_Flush) | [key, tag]
  ["process"] / ["reset"] / ["emptyq"]
raw filter arguments are true / false / a filter name.
"""
from __future__ import annotations

import itertools
import os
import sys

sys.path.insert(0, os.path.dirname(os.path.abspath(__file__)))
import core

from concurrent.futures import Future

from prompt_toolkit.application import Application
from prompt_toolkit.application.current import set_app
from prompt_toolkit.buffer import EditReadOnlyBuffer
from prompt_toolkit.filters import Condition, to_filter
from prompt_toolkit.filters import base as fbase
from prompt_toolkit.input import DummyInput
from prompt_toolkit.key_binding import key_bindings as kbmod
from prompt_toolkit.key_binding.key_bindings import (
    ConditionalKeyBindings,
    DynamicKeyBindings,
    GlobalOnlyKeyBindings,
    KeyBindings,
    key_binding,
    merge_key_bindings,
)
from prompt_toolkit.key_binding import key_processor as kpmod
from prompt_toolkit.key_binding.key_processor import KeyPress, KeyPressEvent, KeyProcessor
from prompt_toolkit.key_binding.emacs_state import EmacsState
from prompt_toolkit.key_binding.vi_state import ViState
from prompt_toolkit.key_binding.bindings.named_commands import get_by_name
from prompt_toolkit.keys import Keys
from prompt_toolkit.layout import Layout, Window
from prompt_toolkit.output import DummyOutput

ID = "C04"
DRIVER = "drv_c04"
PROPS = ["Ptk.Props.C04", "Ptk.Props.C04Rule", "Ptk.Props.C04F", "Ptk.Props.C04KB", "Ptk.Props.C04W",
         "Ptk.Props.C04W2", "Ptk.Props.C04World", "Ptk.Props.C04Tree", "Ptk.Props.C04Run", "Ptk.Props.C04Keys",
         "Ptk.Props.C04Arg", "Ptk.Props.C04Term", "Ptk.Props.C04TermW"]
SERIAL = False
NO_ESCALATION = bool(os.environ.get("C04_NO_ESCALATION"))   # development knob only (timing runs)
ANCHORS = ["src/prompt_toolkit/key_binding/key_processor.py", "src/prompt_toolkit/key_binding/key_bindings.py",
           "src/prompt_toolkit/filters/base.py", "src/prompt_toolkit/filters/utils.py", "src/prompt_toolkit/cache.py",
           "src/prompt_toolkit/keys.py", "src/prompt_toolkit/key_binding/emacs_state.py"]
TECHNIQUE = "Lean 4 proof about an executable model + differential correspondence + property oracle"
LEVEL_TEXT = ("Lean 4 theorems over an executable model of KeyProcessor._process / process_keys / _call_handler (generic in "
              "the key-binding object, the filters and the handlers), of KeyBindings with its version-invalidated "
              "lookup caches, of the four wrappers, of the filter algebra with its memo dictionaries, of _parse_key + "
              "KEY_ALIASES and of the Readline argument: conservation of keys for every run (delivered / dropped / "
              "pushed back as typeahead / pending, in input order), reset after a raising handler, the dispatch rule "
              "stated declaratively (wait / eager / most-specific-last-registered / longest prefix / drop) and proved "
              "for every world whose lookups are sound up to the meaning of the filters -- which is proved for the "
              "plain registry AND for every reachable table of conditional / merged / dynamic / global-only wrappers, "
              "so the rule holds for a processor sitting on ANY wrapper tree, at every pass of a whole process_keys run "
              "with handlers that flip conditions, add/remove bindings, retarget, feed keys, exit or raise "
              "(run_obeys_rule); queue order; and/or/invert normalisation preserves meaning in every reachable heap; "
              "cached lookups equal the uncached ones after any add/remove/lookup interleaving; a failing add/remove "
              "changes nothing; _parse_key: aliases and canonical names denote the same key, parsed keys are fixed "
              "points, exactly when it raises (for every alias/Keys table satisfying side conditions re-decided on the "
              "tables regenerated from /repo); the numeric argument: accumulation, '-' handling, delivered to exactly the "
              "next command and cleared, value < 1000000 (cap regenerated); is_repeat = same Binding object as the "
              "previous completed command; macro recording: the recording after a run is the recording before plus "
              "exactly the key sequences delivered to record_in_macro bindings while recording was on before and after, "
              "replay puts the macro in front of the queue in order; termination of process_keys under a feed budget with "
              "the explicit fuel bound len(queue)+budget (instantiated for the scripted world: budget = keys the unused "
              "script entries can feed), and a proved non-termination witness (a handler that re-feeds "
              "its key) replayed on the real code under a watchdog; the model is tied to /repo on every run by generated "
              "tables, a differential correspondence (exhaustive small scopes + seeded random scenarios through real "
              "KeyBindings / wrappers / KeyProcessor inside an Application with real EmacsState / ViState) and an "
              "independent oracle")
LEVEL_NOTE = ("trusted: Lean kernel, axioms propext/Classical.choice/Quot.sound only; the hand-written model "
              "(validated by the correspondence, not proved equal to the Python); gen_c04.py prints the Keys values, "
              "KEY_ALIASES, the two cache sizes and the probed cap of KeyPressEvent.arg faithfully; Binding object "
              "identities are modelled by an allocation counter (is_repeat), their uniqueness is correspondence-checked, "
              "not proved; CPython list/dict/generator semantics")
RULE = ("E3: every filter expression built by <=2 (quick) / <=3 (thorough) applications of & | ~ over {c0,c1,True,False}, "
        "each result evaluated under all assignments; E2: 14 wrapper nestings (conditional/merged/dynamic/global-only, "
        "shared and duplicated children, empty merge) x every sequence of 3 (quick) / 4 (thorough) operations from "
        "{add x3, remove by handler x2, remove by keys, retarget x2, lookups, flip}, with lookups/bindings/version "
        "through the top wrapper before and after; E1: every ordered pair of bindings from a pattern pool over "
        "{a,b,Any} (len<=3) x eager x filter, driven with every key string over {a,b} up to len 3 (quick) / 4 (thorough), "
        "timeouts after all keys / after every key / after the first key, handlers optionally flipping the condition; "
        "E4: binding pairs x which handler exits the application / raises / raises EditReadOnlyBuffer x key strings "
        "over {a,b,c,CPR} (keys left in the buffer become typeahead, CPR still processed, reset after raise); "
        "E5: a KeyProcessor on top of each of the 14 wrapper nestings x every sequence of 2 (quick) / 3 (thorough) "
        "registry operations, every key string over {a,b} up to len 2 after each operation, one handler rebinding while "
        "the processor runs; E6: numeric argument / is_repeat / macros: bindings a (command), b (types a digit), "
        "c (types '-'), d (cycles through start / end / call macro, vi start / stop, add a binding, bell, raise) on a "
        "registry, seen directly / through a conditional wrapper / through a merge, x 3 record_in_macro settings x 11 "
        "rotations of d's script x keys at once or one by one, every key string over {a,b,c,d} up to len 3 (quick) / 4 "
        "(thorough) in sequence; E7: _parse_key on every Keys member (as member and as string), every alias and alias "
        "target, all strings at edit distance 1 of the alias names, add()/lookup/remove under alias and canonical name, "
        "KeyPressEvent.arg for every string over {-,0,5} up to len 3 (quick) / 4 (thorough) and around the cap, the "
        "re-feeding handler for a range of iteration counts; R1/R2: seeded random scenarios (nested wrappers, handlers that "
        "flip conditions, add/remove bindings, retarget, feed keys, start/end/call macros, type argument characters, exit, "
        "raise, raise EditReadOnlyBuffer; CPR keys, is_done, reset, empty_queue). A case is non-trivial when it contains "
        "at least one lookup, filter operator, parse, argument or process_keys call")
EXHAUSTIVE = True
EXHAUSTIVE_SCOPE = {
    "quick": "E3 depth 2 over {c0,c1,True,False}; E2 14 structures x 10^3 op sequences; E1 28x28 binding pairs x 14 key strings x 2 timeout modes; E4 7x7 pairs x 6 handler behaviours x 84 key strings (len<=3 over 4 keys); E5 14 structures x 9^2 (7^2 without dynamic) op sequences x 6 key strings; E6 3 roots x 3 record_in_macro x 11 rotations x 2 chunkings x 84 key strings (len<=3 over {a,b,c,d}); E7 all 151 Keys members x 2 forms + all aliases/targets + edit-distance-1 neighbours, arg strings len<=3 over {-,0,5}",
    "thorough": "E3 depth 3 over {c0,c1,True}; E2 14 structures x 10^4 op sequences; E1 108x108 binding pairs x 30 key strings (all keys at once; a timeout after every key for len<=3; after the first key for a quarter of the pairs) + 6000 sampled triples/quadruples; E4 18x18 pairs x 6 behaviours x 84 key strings (len<=3 over 4 keys); E5 14 structures x 9^3 (7^3) op sequences x 8 key strings; E6 as quick with 340 key strings (len<=4); E7 as quick with arg strings len<=4 and 64 re-feed counts"}
TRUSTED = ["harness/c04.py compares, after every operation, the printed structure of filters (incl. object identity of "
           "memoised results), binding lists (incl. record_in_macro), versions, and for every process_keys call the sequence "
           "of queue pops, before/after events, handler calls with key_sequence, previous_key_sequence, event._arg, "
           "event.is_repeat and event.arg, dropped keys, keys pushed back to the queue, bell, raise, what was appended to the "
           "emacs / vi macro recording, and the key buffer / input queue / previous sequence / key_processor.arg afterwards",
           "Ptk/Model/C04F.lean, C04KB.lean, C04Keys.lean, C04.lean are hand translations of filters/base.py, "
           "key_bindings.py, cache.py (SimpleCache) and key_processor.py (correspondence-checked); Ptk/Gen/C04.lean is "
           "regenerated from /repo on every run (cache sizes, Keys values, KEY_ALIASES, arg cap)",
           "a transparent proxy around the _process generator records what each send() consumed; _call_handler and "
           "_process_cpr_response are wrapped to observe the Binding object and the macro recordings; dropped and "
           "pushed-back keys are derived from the key buffer / input queue by object identity",
           "the scripted handlers call the real named commands start-kbd-macro / end-kbd-macro / call-last-kbd-macro and "
           "KeyPressEvent.append_to_arg_count; app.key_processor is pointed at the KeyProcessor under test"]
ASSUMPTIONS = ["filters are pure (Condition functions read switches and have no effects)",
               "handlers do not re-enter process_keys, do not touch key_buffer directly and are scripted: flip "
               "conditions, add/remove bindings, retarget dynamic wrappers, feed keys, start/end/call macros, type "
               "argument characters, exit, raise (the processor theorems hold for arbitrary handler functions on the "
               "world and the queue; what a scripted handler does never depends on event.arg / is_repeat)",
               "a timeout is the _Flush key in the input queue (the asyncio timer of _start_timeout is not run)",
               "wrapper theorems: is_global arguments are the constants True/False (a switchable is_global filter is "
               "evaluated when GlobalOnlyKeyBindings resynchronises and is then stale until the next version change; "
               "the model follows the code, the theorems and the oracle exclude it)",
               "macro theorem recording_log: handlers other than _call_handler's own append do not modify the recording "
               "during the run it speaks about (start/end are separate steps, characterised by replay_front)",
               "termination: the feed budget is a hypothesis about the handlers (Budget); without it the loop need not "
               "terminate (refeed_never_terminates)",
               "CPython list mutation-while-iterating, dict and generator semantics; live objects have distinct id()"]
PARTIAL_SCOPE = ["_start_timeout's asyncio task, save_before/undo, the vi cursor fix-up and leaving vi temporary "
                 "navigation mode are not modelled",
                 "vi macro *replay* (@reg re-parses the recorded data through the VT100 parser) is not modelled; vi "
                 "recording is (concatenated data of the delivered keys)",
                 "is_repeat is proved relative to the modelled Binding identities (repeat_iff); that distinct Binding "
                 "objects get distinct identities in every reachable table is exercised by the correspondence only",
                 "the dispatch theorem through wrappers speaks about bindings up to the current value of their filters "
                 "(keys, handler, active, eager); it is proved for worlds whose handlers are scripted registry operations "
                 "with live filter arguments and constant is_global (run_obeys_rule), for arbitrary handlers it needs the "
                 "invariant Inv as a hypothesis (dispatch_tree)",
                 "termination of the scripted World is proved for scripts that do not replay macros (world_terminates); "
                 "with call-last-kbd-macro entries the budget would have to account for the macro length",
                 "KeyBindings.remove(<unbound keys>) raises UnboundLocalError instead of the documented ValueError: "
                 "modelled (ropErr) and shown harmless for the property (applyROp_fail: nothing changes), not repaired"]
MODELLED = {
    "src/prompt_toolkit/key_binding/key_processor.py": [
        "KeyProcessor.reset", "KeyProcessor._get_matches", "KeyProcessor._is_prefix_of_longer_match",
        "KeyProcessor._process", "KeyProcessor.feed", "KeyProcessor.feed_multiple", "KeyProcessor.process_keys",
        "KeyProcessor._process_cpr_response", "KeyProcessor.empty_queue", "KeyProcessor._call_handler",
        "KeyPressEvent.arg", "KeyPressEvent.append_to_arg_count"],
    "src/prompt_toolkit/key_binding/key_bindings.py": [
        "KeyBindings._clear_cache", "KeyBindings.add", "KeyBindings.remove", "KeyBindings.get_bindings_for_keys",
        "KeyBindings.get_bindings_starting_with_keys", "_parse_key", "key_binding",
        "_Proxy.bindings", "_Proxy._version", "_Proxy.get_bindings_for_keys", "_Proxy.get_bindings_starting_with_keys",
        "ConditionalKeyBindings._update_cache", "_MergedKeyBindings._update_cache",
        "DynamicKeyBindings._update_cache", "GlobalOnlyKeyBindings._update_cache"],
    "src/prompt_toolkit/filters/base.py": [
        "Filter.__and__", "Filter.__or__", "Filter.__invert__", "_AndList.create", "_OrList.create",
        "_remove_duplicates", "_AndList.__call__", "_OrList.__call__", "_Invert.__call__", "Always.__and__", "Always.__or__", "Always.__invert__", "Never.__and__",
        "Never.__or__", "Never.__invert__"],
    "src/prompt_toolkit/filters/utils.py": ["to_filter"],
    "src/prompt_toolkit/cache.py": ["SimpleCache.get"],
    "src/prompt_toolkit/key_binding/emacs_state.py": ["EmacsState.start_macro", "EmacsState.end_macro"],
    "src/prompt_toolkit/key_binding/bindings/named_commands.py": ["call_last_kbd_macro"],
}

# model key number -> real key
KEYMAP = {0: Keys.Any, 1: Keys.CPRResponse, 2: "a", 3: "b", 4: Keys.ControlX, 5: "c",
          6: Keys.Escape, 7: Keys.ControlC, 8: "d", 9: Keys.SIGINT, 63: "?"}
KEYNUM = {v: k for k, v in KEYMAP.items()}
NVARS = 3
ALL_KEYS = list(Keys)


def knum(k) -> int:
    """numbering of keys shared with Drivers/C04.lean (`keyNum`)"""
    if k in KEYNUM:
        return KEYNUM[k]
    if isinstance(k, Keys):
        return 1000 + ALL_KEYS.index(k)
    if isinstance(k, str) and len(k) == 1:
        return 2000 + ord(k)
    return 99


def unknum(n: int):
    if n in KEYMAP:
        return KEYMAP[n]
    if 1000 <= n < 1000 + len(ALL_KEYS):
        return ALL_KEYS[n - 1000]
    if n >= 2000:
        return chr(n - 2000)
    raise KeyError(n)


def enc_str(s: str) -> str:
    return "s:" + ",".join(str(ord(c)) for c in s)


def raw_tok(raw) -> str:
    return raw[0] + enc_str(raw[1])


# ------------------------------------------------------------------ compile (names -> indices)
def _raw_tok(env, raw):
    if raw is True:
        return "T"
    if raw is False:
        return "X"
    if raw in env["f"]:
        return "f%d" % env["f"][raw]
    return None


def _kp_tok(kp):
    return "F" if kp == "F" else "%d:%d" % (kp[0], kp[1])


def _keys_tok(keys):
    return " ".join([str(len(keys))] + [str(k) for k in keys])


def _rop(env, rop):
    """-> (token string, resolved rop) or None when a name is unknown"""
    k = rop[0]
    if k == "add":
        _, r, hid, f, e, g, keys = rop[:7]
        m = rop[7] if len(rop) > 7 else True
        toks = [_raw_tok(env, x) for x in (f, e, g, m)]
        if r not in env["r"] or None in toks:
            return None
        ri = env["r"][r]
        return ("add %d %d %s %s" % (ri, hid, " ".join(toks), _keys_tok(keys)),
                ["add", ri, hid, _res_raw(env, f), _res_raw(env, e), _res_raw(env, g), list(keys),
                 _res_raw(env, m)])
    if k == "addb":
        _, r, t, f, e, g, keys = rop
        toks = [_raw_tok(env, x) for x in (f, e, g)]
        if r not in env["r"] or t not in env["t"] or None in toks:
            return None
        ri = env["r"][r]
        return ("addb %d %d %s %s" % (ri, env["t"][t], " ".join(toks), _keys_tok(keys)),
                ["addb", ri, env["t"][t], _res_raw(env, f), _res_raw(env, e), _res_raw(env, g), list(keys)])
    if k == "rmh":
        _, r, hid = rop
        if r not in env["r"]:
            return None
        return ("rmh %d %d" % (env["r"][r], hid), ["rmh", env["r"][r], hid])
    if k == "rmk":
        _, r, keys = rop
        if r not in env["r"]:
            return None
        return ("rmk %d %s" % (env["r"][r], _keys_tok(keys)), ["rmk", env["r"][r], list(keys)])
    if k == "target":
        _, d, t = rop
        if d not in env["r"] or (t is not None and t not in env["r"]):
            return None
        ti = None if t is None else env["r"][t]
        return ("target %d %s" % (env["r"][d], "N" if ti is None else str(ti)), ["target", env["r"][d], ti])
    return None


def _res_raw(env, raw):
    return raw if isinstance(raw, bool) else ("f", env["f"][raw])


def compile_case(case):
    """-> list of (model line, resolved op)"""
    env = {"f": {}, "r": {}, "t": {}}
    out = [("new", ["new"])]
    for op in case["ops"]:
        try:
            k = op[0]
            if k == "cond":
                out.append(("cond %d" % op[2], ["cond", op[2]]))
                env["f"][op[1]] = len(env["f"])
            elif k in ("and", "or"):
                if op[2] in env["f"] and op[3] in env["f"]:
                    a, b = env["f"][op[2]], env["f"][op[3]]
                    out.append(("%s %d %d" % (k, a, b), [k, a, b]))
                    env["f"][op[1]] = len(env["f"])
            elif k == "inv":
                if op[2] in env["f"]:
                    out.append(("inv %d" % env["f"][op[2]], ["inv", env["f"][op[2]]]))
                    env["f"][op[1]] = len(env["f"])
            elif k == "tof":
                out.append(("tof %d" % int(bool(op[2])), ["tof", bool(op[2])]))
                env["f"][op[1]] = len(env["f"])
            elif k == "ev":
                if op[1] in env["f"]:
                    out.append(("ev %d" % env["f"][op[1]], ["ev", env["f"][op[1]]]))
            elif k == "flip":
                out.append(("flip %d" % op[1], ["flip", op[1]]))
            elif k == "setdone":
                out.append(("setdone %d" % int(bool(op[1])), ["setdone", bool(op[1])]))
            elif k == "mk":
                name, kind = op[1], op[2]
                if kind == "kb":
                    out.append(("mk kb", ["mk", "kb"]))
                elif kind == "cond":
                    rt = _raw_tok(env, op[4])
                    if op[3] not in env["r"] or rt is None:
                        continue
                    out.append(("mk cond %d %s" % (env["r"][op[3]], rt),
                                ["mk", "cond", env["r"][op[3]], _res_raw(env, op[4])]))
                elif kind == "merged":
                    if any(c not in env["r"] for c in op[3]):
                        continue
                    cs = [env["r"][c] for c in op[3]]
                    out.append(("mk merged " + _keys_tok(cs), ["mk", "merged", cs]))
                elif kind == "dyn":
                    if op[3] is not None and op[3] not in env["r"]:
                        continue
                    t = None if op[3] is None else env["r"][op[3]]
                    out.append(("mk dyn %s" % ("N" if t is None else t), ["mk", "dyn", t]))
                elif kind == "glob":
                    if op[3] not in env["r"]:
                        continue
                    out.append(("mk glob %d" % env["r"][op[3]], ["mk", "glob", env["r"][op[3]]]))
                else:
                    continue
                env["r"][name] = len(env["r"])
            elif k == "tmpl":
                raws = list(op[3:6]) + [op[6] if len(op) > 6 else True]
                toks = [_raw_tok(env, x) for x in raws]
                if None in toks:
                    continue
                out.append(("tmpl %d %s" % (op[2], " ".join(toks)),
                            ["tmpl", op[2]] + [_res_raw(env, x) for x in raws]))
                env["t"][op[1]] = len(env["t"])
            elif k == "addr":
                if op[1] in env["r"]:
                    raws = [list(x) for x in op[3]]
                    out.append(("addr %d %d %s" % (env["r"][op[1]], op[2],
                                                  " ".join([str(len(raws))] + [raw_tok(x) for x in raws])),
                                ["addr", env["r"][op[1]], op[2], raws]))
            elif k == "parse":
                out.append(("parse " + raw_tok(op[1]), ["parse", list(op[1])]))
            elif k == "argv":
                out.append(("argv " + " ".join([str(len(op[1]))] + [str(ord(c)) for c in op[1]]), ["argv", op[1]]))
            elif k == "mstate":
                out.append(("mstate", ["mstate"]))
            elif k == "refeed":
                out.append(("refeed %d" % int(op[1]), ["refeed", int(op[1])]))
            elif k == "op":
                r = _rop(env, op[1])
                if r is not None:
                    out.append(("op " + r[0], ["op", r[1]]))
            elif k in ("for", "start"):
                if op[1] in env["r"]:
                    out.append(("%s %d %s" % (k, env["r"][op[1]], _keys_tok(op[2])),
                                [k, env["r"][op[1]], list(op[2])]))
            elif k in ("bindings", "version"):
                if op[1] in env["r"]:
                    out.append(("%s %d" % (k, env["r"][op[1]]), [k, env["r"][op[1]]]))
            elif k == "handler":
                effs_tok, effs_res = [], []
                for e in op[2]:
                    rops = [x for x in (_rop(env, r) for r in e.get("ops", [])) if x is not None]
                    feeds = e.get("feeds", [])
                    t = [_keys_tok(e.get("flips", []))]
                    t.append(" ".join([str(len(rops))] + [x[0] for x in rops]))
                    t.append(" ".join([str(len(feeds))] + ["%d %s" % (int(bool(f[0])), " ".join(
                        [str(len(f[1]))] + [_kp_tok(x) for x in f[1]])) for f in feeds]))
                    macros = [m for m in e.get("macros", []) if m in ("S", "E", "C", "VS", "VE")]
                    t.append(" ".join([str(len(macros))] + macros))
                    t.append(str(int(bool(e.get("exit", False)))))
                    ak = e.get("argkey")
                    t.append("N" if not ak else str(ord(ak[0])))
                    t.append(e.get("outcome", "ok"))
                    effs_tok.append(" ".join(t))
                    effs_res.append({"flips": list(e.get("flips", [])), "ops": [x[1] for x in rops],
                                     "feeds": [[bool(f[0]), list(f[1])] for f in feeds], "macros": macros,
                                     "exit": bool(e.get("exit", False)), "argkey": ak[0] if ak else None,
                                     "outcome": e.get("outcome", "ok")})
                out.append(("handler %d " % op[1] + " ".join([str(len(effs_tok))] + effs_tok),
                            ["handler", op[1], effs_res]))
            elif k == "proc":
                if op[1] in env["r"]:
                    out.append(("proc %d" % env["r"][op[1]], ["proc", env["r"][op[1]]]))
                    env["proc"] = True
            elif k in ("feed", "process", "reset", "emptyq") and not env.get("proc"):
                continue
            elif k == "feed":
                out.append(("feed %d %s" % (int(bool(op[1])), " ".join([str(len(op[2]))] + [_kp_tok(x) for x in op[2]])),
                            ["feed", bool(op[1]), list(op[2])]))
            elif k in ("process", "reset", "emptyq"):
                out.append((k, [k]))
        except (IndexError, KeyError, TypeError, ValueError):
            continue
    return out


def model_lines(case):
    return [l for l, _ in compile_case(case)]


# ------------------------------------------------------------------ the real code
_APP = None


def get_the_app():
    global _APP
    if _APP is None:
        _APP = Application(layout=Layout(Window()), output=DummyOutput(), input=DummyInput())
        _APP.create_background_task = lambda *a, **kw: None
        _APP.timeoutlen = None
        _APP.ttimeoutlen = None
    return _APP


def repr_f(f) -> str:
    if isinstance(f, fbase.Always):
        return "A"
    if isinstance(f, fbase.Never):
        return "N"
    if isinstance(f, fbase._AndList):
        return "&(" + ",".join(repr_f(x) for x in f.filters) + ")"
    if isinstance(f, fbase._OrList):
        return "|(" + ",".join(repr_f(x) for x in f.filters) + ")"
    if isinstance(f, fbase._Invert):
        return "~" + repr_f(f.filter)
    if isinstance(f, Condition):
        return "c%d" % f.func.var
    return "?"


def repr_keys(keys) -> str:
    return ".".join(str(knum(k)) for k in keys)


def repr_binding(b) -> str:
    return "h%d/%s/%s/%s/%s/%s" % (getattr(b.handler, "hid", 99), repr_keys(b.keys), repr_f(b.filter),
                                   repr_f(b.eager), repr_f(b.is_global), repr_f(b.record_in_macro))


def repr_bindings(bs) -> str:
    bs = list(bs)
    return " ".join([str(len(bs))] + [repr_binding(b) for b in bs])


class CoProxy:
    """transparent wrapper around the `_process` generator: records what every `send` consumed"""

    def __init__(self, sim, co):
        self.sim = sim
        self.co = co

    def send(self, kp):
        self.sim.on_send_entry(kp)
        try:
            return self.co.send(kp)
        finally:
            self.sim.on_send_exit(kp)


class Sim:
    """drives the real objects with resolved ops; `lines` are the replies in model format"""

    def __init__(self, app, observe=None):
        self.app = app
        self.switch = {}
        self.fl = []
        self.regs = []
        self.kinds = []           # ("kb",) ("cond", c) ("merged", cs) ("dyn", cell) ("glob", c)
        self.tmpl = []
        self.handlers = {}
        self.scripts = {}
        self.hcount = {}
        self.kp = None
        self.log = []             # events of the current process call
        self.observe = observe    # oracle hooks
        self.in_cpr = False
        app.future = None
        app.emacs_state = EmacsState()
        app.vi_state = ViState()

    # -- filters
    def mk_cond(self, v):
        def func():
            return self.switch.get(v, False)
        func.var = v
        return Condition(func)

    def raw(self, r):
        return r if isinstance(r, bool) else self.fl[r[1]]

    def push_f(self, r):
        same = -1
        if not isinstance(r, (fbase.Always, fbase.Never)):
            for i, f in enumerate(self.fl):
                if f is r:
                    same = i
                    break
        self.fl.append(r)
        return "%s %d" % (repr_f(r), same)

    # -- handlers
    def handler(self, hid):
        if hid not in self.handlers:
            def h(event, hid=hid):
                n = self.hcount.get(hid, 0)
                self.hcount[hid] = n + 1
                rec = {"kind": "call", "hid": hid, "seq": list(event.key_sequence),
                       "prev": list(event.previous_key_sequence), "tail": [], "post": [],
                       "arg": event._arg, "rep": bool(event.is_repeat), "present": event.arg_present}
                try:
                    rec["argval"] = event.arg
                except ValueError:
                    rec["argval"] = "!"
                self.log.append(rec)
                self.cur_call = rec
                if self.observe:
                    self.observe.on_handler_entry(self, rec)
                sc = self.scripts.get(hid, [])
                try:
                    if n < len(sc):
                        e = sc[n]
                        for v in e["flips"]:
                            self.switch[v] = not self.switch.get(v, False)
                        for rop in e["ops"]:
                            self.apply_rop(rop)
                        for first, kps in e["feeds"]:
                            event.key_processor.feed_multiple([self.mk_kp(x) for x in kps], first=first)
                        for m in e.get("macros", []):
                            if m == "S":
                                get_by_name("start-kbd-macro").handler(event)
                            elif m == "E":
                                get_by_name("end-kbd-macro").handler(event)
                            elif m == "C":
                                get_by_name("call-last-kbd-macro").handler(event)
                            elif m == "VS":     # vi.py load_vi_bindings._start_macro
                                self.app.vi_state.recording_register = "a"
                                self.app.vi_state.current_recording = ""
                            elif m == "VE":     # vi.py load_vi_bindings._stop_macro (without the register store)
                                if self.app.vi_state.recording_register:
                                    self.app.vi_state.recording_register = None
                                    self.app.vi_state.current_recording = ""
                        if e["exit"]:
                            if self.app.future is None:
                                self.app.future = Future()
                            if not self.app.future.done():
                                self.app.future.set_result(None)
                        if e.get("argkey"):
                            try:
                                event.append_to_arg_count(e["argkey"])
                            except AssertionError:
                                rec["tail"].append("R")
                                raise RuntimeError("handler %d raises (assert in append_to_arg_count)" % hid)
                        if e["outcome"] == "ro":
                            rec["tail"].append("L")
                            raise EditReadOnlyBuffer()
                        if e["outcome"] == "raise":
                            rec["tail"].append("R")
                            raise RuntimeError("handler %d raises" % hid)
                finally:
                    es, vs = self.app.emacs_state, self.app.vi_state
                    rec["exit_state"] = (es.current_recording, len(es.current_recording or []), vs.current_recording)
                    if self.observe:
                        self.observe.on_handler_exit(self, rec)
            h.hid = hid
            self.handlers[hid] = h
        return self.handlers[hid]

    def mk_kp(self, x):
        if x == "F":
            return kpmod._Flush
        return KeyPress(unknum(x[0]), data=str(x[1]))

    def apply_rop(self, rop):
        """True, False (does not apply), or the name of the exception the real call raised"""
        k = rop[0]
        try:
            if k in ("add", "addb", "rmh", "rmk"):
                reg = self.regs[rop[1]]
                if not isinstance(reg, KeyBindings):
                    return False
            if k == "add":
                _, r, hid, f, e, g, keys, m = rop
                reg.add(*[unknum(x) for x in keys], filter=self.raw(f), eager=self.raw(e),
                        is_global=self.raw(g), record_in_macro=self.raw(m))(self.handler(hid))
                return True
            if k == "addb":
                _, r, t, f, e, g, keys = rop
                reg.add(*[unknum(x) for x in keys], filter=self.raw(f), eager=self.raw(e),
                        is_global=self.raw(g))(self.tmpl[t])
                return True
            if k == "rmh":
                reg.remove(self.handler(rop[2]))
                return True
            if k == "rmk":
                if not rop[2]:
                    return False        # remove() without arguments: IndexError, not part of the API
                reg.remove(*[unknum(x) for x in rop[2]])
                return True
            if k == "target":
                _, d, t = rop
                kind = self.kinds[d]
                if kind[0] != "dyn" or (t is not None and t >= d):
                    return False
                kind[1][0] = None if t is None else self.regs[t]
                kind[2][0] = t
                return True
        except (ValueError, AssertionError, UnboundLocalError) as exc:
            return type(exc).__name__
        except IndexError:
            return False
        return False

    # -- versions
    def ver_repr(self, i, v) -> str:
        kind = self.kinds[i]
        if kind[0] == "kb":
            return str(v)
        if kind[0] in ("cond", "glob"):
            return self.ver_repr(kind[1], v)
        if kind[0] == "merged":
            if len(v) != len(kind[1]):
                return "(?)"
            return "(" + ",".join(self.ver_repr(c, x) for c, x in zip(kind[1], v)) + ")"
        if kind[0] == "dyn":
            t = kind[2][0]
            if t is None:
                ok = v[0] == id(self.regs[i]._dummy)
                return "<%s;%s>" % (i if ok else "?", v[1])
            ok = v[0] == id(self.regs[t])
            return "<%s;%s>" % (t if ok else "?", self.ver_repr(t, v[1]))
        return "?"

    # -- processor instrumentation
    def wrap(self):
        if self.kp is not None and not isinstance(self.kp._process_coroutine, CoProxy):
            self.kp._process_coroutine = CoProxy(self, self.kp._process_coroutine)
        if self.kp is not None and hasattr(self.kp, "_process_cpr_response") and not getattr(self.kp, "_cpr_wrapped", False):
            orig = self.kp._process_cpr_response

            def cpr(key_press, orig=orig):
                self.on_cpr_entry(key_press)
                try:
                    return orig(key_press)
                finally:
                    self.on_cpr_exit(key_press)
            self.kp._process_cpr_response = cpr
            self.kp._cpr_wrapped = True

        if self.kp is not None and not getattr(self.kp, "_ch_wrapped", False):
            orig_ch = self.kp._call_handler

            def call_handler(handler, key_sequence, orig_ch=orig_ch):
                es, vs = self.app.emacs_state, self.app.vi_state
                info = {"binding": handler, "seq": list(key_sequence), "was_e": es.is_recording,
                        "was_v": bool(vs.recording_register), "prev_binding": self.kp._previous_handler}
                self.cur_call = None
                if self.observe:
                    self.observe.on_call_handler_entry(self, info)
                ok = False
                try:
                    orig_ch(handler, key_sequence=key_sequence)
                    ok = True
                finally:
                    rec = self.cur_call
                    info["rec"] = rec
                    info["ok"] = ok
                    if ok and rec is not None and "exit_state" in rec:
                        lst, n0, v0 = rec["exit_state"]
                        cur = es.current_recording
                        pushed_e = list(cur[n0:]) if (cur is not None and cur is lst) else []
                        v1 = vs.current_recording
                        pushed_v = v1[len(v0):] if v1.startswith(v0) else None
                        info["pushed_e"], info["pushed_v"] = pushed_e, pushed_v
                        if pushed_e:
                            rec["post"].append("ME" + self.repr_kps(pushed_e))
                        if pushed_v:
                            datas = "".join(k.data for k in key_sequence)
                            rec["post"].append("MV" + (self.repr_kps(key_sequence) if pushed_v == datas
                                                       else "?" + pushed_v))
                        elif pushed_v is None:
                            rec["post"].append("MV?reset")
                    if self.observe:
                        self.observe.on_call_handler_exit(self, info)
            self.kp._call_handler = call_handler
            self.kp._ch_wrapped = True

    def on_cpr_entry(self, kp):
        self.in_cpr = True
        self.log.append({"kind": "P", "key": kp})
        self.cur = {"kind": "cpr", "key": kp, "first": len(self.log), "buf": list(self.kp.key_buffer),
                    "prev": list(self.kp._previous_key_sequence)}
        if self.observe:
            self.observe.on_cpr_entry(self, kp)

    def on_cpr_exit(self, kp):
        self.in_cpr = False
        cur = self.cur
        calls = [r for r in self.log[cur["first"]:] if r["kind"] == "call"]
        if calls:
            for c in calls:
                c["kind"] = "cprcall"
                # Binding.call is used directly: EditReadOnlyBuffer is not swallowed on this path
                c["tail"] = ["R" if t == "L" else t for t in c["tail"]]
        else:
            self.log.append({"kind": "cprnone", "key": kp})
        if self.observe:
            self.observe.on_cpr_exit(self, kp, cur, calls)

    def on_send_entry(self, kp):
        buf = list(self.kp.key_buffer)
        # the B event of this key (if any) was logged before the send: the pop precedes it
        at = len(self.log)
        if self.log and self.log[-1].get("kind") == "B" and not self.log[-1].get("used"):
            self.log[-1]["used"] = True
            at -= 1
        self.log.insert(at, {"kind": "P", "key": kp})
        self.cur = {"kind": "send", "key": kp, "x": buf + ([] if kp is kpmod._Flush else [kp]),
                    "first": len(self.log)}
        if self.observe:
            self.observe.on_send_entry(self, kp, buf)

    def on_send_exit(self, kp):
        cur = self.cur
        x = cur["x"]
        after = list(self.kp.key_buffer)
        calls = [r for r in self.log[cur["first"]:] if r["kind"] == "call"]
        consumed = [k for k in x if not any(k is a for a in after)]
        in_call = lambda k: any(k is s for c in calls if "R" not in c["tail"] for s in c["seq"])
        # keys pushed back to the front of the input queue (application done): a prefix of the queue
        # made of keys that were in the buffer and were not handed to a handler
        requeued = []
        for k in self.kp.input_queue:
            if any(k is y for y in consumed) and not in_call(k) and not any(k is y for y in requeued):
                requeued.append(k)
            else:
                break
        items = []   # (position, order, text)
        pos_of = lambda k: next((i for i, y in enumerate(x) if y is k), len(x))
        for n, c in enumerate(calls):
            p = pos_of(c["seq"][0]) if c["seq"] else len(x)
            items.append((p, n, c))
        for k in consumed:
            if not any(k is s for c in calls for s in c["seq"]) and not any(k is y for y in requeued):
                items.append((pos_of(k), -1, {"kind": "drop", "key": k}))
        items.sort(key=lambda t: (t[0], t[1]))
        out = [t[2] for t in items]
        if requeued:
            out.append({"kind": "requeue", "keys": requeued})
        self.log[cur["first"]:] = out
        if self.observe:
            self.observe.on_send_exit(self, kp, x, after, out)

    def repr_kp(self, k) -> str:
        if k is kpmod._Flush:
            return "F"
        return "%d:%s" % (knum(k.key), k.data)

    def repr_kps(self, ks) -> str:
        return "[" + ",".join(self.repr_kp(k) for k in ks) + "]"

    def repr_log(self) -> list[str]:
        out = []
        for r in self.log:
            if r["kind"] == "call":
                out.append("E%s/%d/%s" % ("~" if r["arg"] is None else r["arg"], int(r["rep"]), r["argval"]))
                out.append("C%d%s%s" % (r["hid"], self.repr_kps(r["seq"]), self.repr_kps(r["prev"])))
                out += r["tail"]
                out += r["post"]
            elif r["kind"] == "drop":
                out.append("D" + self.repr_kp(r["key"]))
            elif r["kind"] == "P":
                out.append("P" + self.repr_kp(r["key"]))
            elif r["kind"] == "requeue":
                out.append("Q" + self.repr_kps(r["keys"]))
            elif r["kind"] == "cprcall":
                out.append("K%d%s%s" % (r["hid"], self.repr_kps(r["seq"]), self.repr_kps(r["prev"])))
                out += r["tail"]
            elif r["kind"] == "cprnone":
                out.append("KN[%s]" % self.repr_kp(r["key"]))
            else:
                out.append(r["kind"])
        return out

    # -- one op
    def step(self, op) -> str:
        k = op[0]
        if k == "cond":
            return self.push_f(self.mk_cond(op[1]))
        if k == "and":
            r = self.fl[op[1]] & self.fl[op[2]]
            if self.observe:
                self.observe.on_filter_op(self, "and", self.fl[op[1]], self.fl[op[2]], r)
            return self.push_f(r)
        if k == "or":
            r = self.fl[op[1]] | self.fl[op[2]]
            if self.observe:
                self.observe.on_filter_op(self, "or", self.fl[op[1]], self.fl[op[2]], r)
            return self.push_f(r)
        if k == "inv":
            r = ~self.fl[op[1]]
            if self.observe:
                self.observe.on_filter_op(self, "inv", self.fl[op[1]], None, r)
            return self.push_f(r)
        if k == "tof":
            return self.push_f(to_filter(op[1]))
        if k == "ev":
            return "1" if self.fl[op[1]]() else "0"
        if k == "flip":
            self.switch[op[1]] = not self.switch.get(op[1], False)
            return "ok"
        if k == "setdone":
            self.app.future = Future()
            if op[1]:
                self.app.future.set_result(None)
            return "ok"
        if k == "mk":
            kind = op[1]
            if kind == "kb":
                self.regs.append(KeyBindings())
                self.kinds.append(("kb",))
            elif kind == "cond":
                self.regs.append(ConditionalKeyBindings(self.regs[op[2]], self.raw(op[3])))
                self.kinds.append(("cond", op[2]))
            elif kind == "merged":
                self.regs.append(merge_key_bindings([self.regs[c] for c in op[2]]))
                self.kinds.append(("merged", list(op[2])))
            elif kind == "dyn":
                cell = [None if op[2] is None else self.regs[op[2]]]
                self.regs.append(DynamicKeyBindings(lambda cell=cell: cell[0]))
                self.kinds.append(("dyn", cell, [op[2]]))
            elif kind == "glob":
                self.regs.append(GlobalOnlyKeyBindings(self.regs[op[2]]))
                self.kinds.append(("glob", op[2]))
            return "ok"
        if k == "tmpl":
            self.tmpl.append(key_binding(filter=self.raw(op[2]), eager=self.raw(op[3]),
                                         is_global=self.raw(op[4]),
                                         record_in_macro=self.raw(op[5]))(self.handler(op[1])))
            return "ok"
        if k == "op":
            r = self.apply_rop(op[1])
            return "ok" if r is True else "fail" if r is False else "err:" + r
        if k == "addr":
            reg = self.regs[op[1]]
            if not isinstance(reg, KeyBindings):
                return "fail"
            try:
                reg.add(*[Keys(v) if t == "E" else v for t, v in op[3]])(self.handler(op[2]))
            except (ValueError, AssertionError) as exc:
                return "err:" + type(exc).__name__
            return "ok"
        if k == "parse":
            t, v = op[1]
            try:
                r = kbmod._parse_key(Keys(v) if t == "E" else v)
            except ValueError:
                if self.observe:
                    self.observe.on_parse(self, t, v, None)
                return "err:ValueError"
            if self.observe:
                self.observe.on_parse(self, t, v, r)
            if isinstance(r, Keys):
                return "K" + enc_str(r.value) + " %d" % knum(r)
            if isinstance(r, str) and len(r) == 1:
                return "C%d %d" % (ord(r), knum(r))
            return "X" + enc_str(str(r))       # not a key at all
        if k == "argv":
            class _KP:      # stands for the KeyProcessor: append_to_arg_count only assigns `.arg`
                arg = None
            holder = _KP()
            for c in op[1]:
                ev = KeyPressEvent.__new__(KeyPressEvent)
                ev._arg = holder.arg
                ev._key_processor_ref = lambda holder=holder: holder
                try:
                    ev.append_to_arg_count(c)
                except AssertionError:
                    return "err:AssertionError"
            ev = KeyPressEvent.__new__(KeyPressEvent)
            ev._arg = holder.arg
            try:
                val = str(ev.arg)
            except ValueError:
                val = "!"
            return "%s %s" % ("~" if holder.arg is None else holder.arg, val)
        if k == "refeed":
            return refeed_real(self.app, op[1])
        if k == "mstate":
            es, vs = self.app.emacs_state, self.app.vi_state
            return "%s %s %d %s" % ("~" if es.current_recording is None else self.repr_kps(es.current_recording),
                                    "~" if es.macro is None else self.repr_kps(es.macro),
                                    int(bool(vs.recording_register)), "[" + vs.current_recording + "]")
        if k in ("for", "start", "bindings"):
            keys = tuple(unknum(x) for x in op[2]) if k != "bindings" else None
            if k == "for":
                res = self.regs[op[1]].get_bindings_for_keys(keys)
            elif k == "start":
                res = self.regs[op[1]].get_bindings_starting_with_keys(keys)
            else:
                res = self.regs[op[1]].bindings
            if self.observe:
                self.observe.on_lookup(self, k, op[1], keys, list(res))
            return repr_bindings(res)
        if k == "version":
            return self.ver_repr(op[1], self.regs[op[1]]._version)
        if k == "handler":
            self.scripts[op[1]] = op[2]
            self.hcount[op[1]] = 0      # (re)defining a script re-arms the handler
            return "ok"
        if k == "proc":
            self.kp = KeyProcessor(self.regs[op[1]])
            self.app.key_processor = self.kp      # call-last-kbd-macro feeds event.app.key_processor
            self.kp.before_key_press += lambda _: self.log.append({"kind": "B"})
            self.kp.after_key_press += lambda _: self.log.append({"kind": "A"})
            if self.observe:
                self.observe.forget()
            return "ok"
        if k == "feed":
            self.kp.feed_multiple([self.mk_kp(x) for x in op[2]], first=op[1])
            return "ok"
        if k == "process":
            self.wrap()
            self.log = []
            if self.observe:
                self.observe.on_process_start(self)
            try:
                self.kp.process_keys()
            except EditReadOnlyBuffer:
                pass        # only possible on the CPR path (Binding.call without the bell handling)
            except RuntimeError as e:
                if "raises" not in str(e):
                    raise
            if self.observe:
                self.observe.on_process_end(self)
            ev = self.repr_log()
            return "%s # %s # %s # %s # %s" % (" ".join([str(len(ev))] + ev), self.repr_kps(self.kp.key_buffer),
                                               self.repr_kps(self.kp.input_queue),
                                               self.repr_kps(self.kp._previous_key_sequence),
                                               "~" if self.kp.arg is None else self.kp.arg)
        if k == "reset":
            self.kp.reset()
            if self.observe:
                self.observe.forget()
            return "ok"
        if k == "emptyq":
            return self.repr_kps(self.kp.empty_queue())
        return "bad-op"


class _Stop(Exception):
    pass


def refeed_real(app, n: int) -> str:
    """The non-termination witness of Props/C04Term.lean on the real code: the handler of `a` feeds `a`
    again.  process_keys() never returns by itself; the handler stops the experiment after its
    n-th invocation (exception), a SIGALRM watchdog guards against a hang of any other kind."""
    import signal

    kb = KeyBindings()
    st = {"calls": 0, "queued": -1}

    @kb.add("a")
    def _(event):
        st["calls"] += 1
        event.key_processor.feed(KeyPress("a", data="0"))
        if st["calls"] >= n + 1:          # the first call brings the processor into the state `loopPS`
            st["queued"] = len(event.key_processor.input_queue)
            raise _Stop()

    kp = KeyProcessor(kb)
    kp.feed(KeyPress("a", data="0"))

    def on_alarm(signum, frame):
        raise TimeoutError("watchdog")

    old = signal.signal(signal.SIGALRM, on_alarm)
    signal.setitimer(signal.ITIMER_REAL, 20.0)
    returned = False
    try:
        kp.process_keys()
        returned = True
    except _Stop:
        pass
    except TimeoutError:
        return "watchdog"
    finally:
        signal.setitimer(signal.ITIMER_REAL, 0)
        signal.signal(signal.SIGALRM, old)
    # model: after n iterations from loopPS: n calls, `a` still queued, nothing raised
    if returned:
        return "returned calls=%d" % st["calls"]
    return "calls=%d queued=%d raised=0" % (st["calls"] - 1, st["queued"])


def run_real(case, observe=None):
    app = get_the_app()
    out = []
    sim = None
    with set_app(app):
        for _, op in compile_case(case):
            if op[0] == "new":
                sim = Sim(app, observe)
                out.append("ok")
                continue
            out.append(sim.step(op))
    return out, sim


_LAST = [None, None]


def impl_lines(case):
    # one run of the real code serves both the correspondence and the oracle
    obs = Observer()
    _LAST[0], _LAST[1] = None, None
    out, _ = run_real(case, obs)
    _LAST[0], _LAST[1] = case, obs.v
    return out


# ------------------------------------------------------------------ oracle
# The property restated over the real objects, independently of the Lean model:
#   * filter algebra: (a & b)() == a() and b(), (a | b)() == a() or b(), (~a)() == not a(), for every
#     assignment of the switches;
#   * lookups through any nesting of wrappers == the documented lookup over the bindings that are in
#     the underlying KeyBindings objects *now* (the oracle flattens the wrapper tree itself);
#   * every `send` into the matching coroutine does what the documented rule says for the bindings and
#     filter values at that moment (state snapshots are taken when a send starts and when a handler returns);
#   * conservation, by object identity of the KeyPress objects; queue order; reset after a raising handler.

def any_count(keys):
    return sum(1 for k in keys if k == Keys.Any)


def pat_match(pat, ks):
    return all(p == k or p == Keys.Any for p, k in zip(pat, ks))


class Entry:
    __slots__ = ("keys", "hid", "filters", "eager", "binding", "active", "is_eager")

    def __init__(self, keys, hid, filters, eager, binding):
        self.keys, self.hid, self.filters, self.eager, self.binding = keys, hid, filters, eager, binding

    def evaluate(self):
        self.active = all(f() for f in self.filters)
        self.is_eager = bool(self.eager())
        return self


def flat_entries(sim, i, extra=()):
    """the bindings reachable through object i, in registration order; None = not determined
    (a global-only wrapper over a binding whose is_global is a switchable filter)"""
    kind = sim.kinds[i]
    if kind[0] == "kb":
        return [Entry(tuple(b.keys), getattr(b.handler, "hid", -1), (b.filter,) + tuple(extra), b.eager, b)
                for b in sim.regs[i]._bindings]
    if kind[0] == "cond":
        return flat_entries(sim, kind[1], (sim.regs[i].filter,) + tuple(extra))
    if kind[0] == "merged":
        out = []
        for c in kind[1]:
            r = flat_entries(sim, c, extra)
            if r is None:
                return None
            out += r
        return out
    if kind[0] == "dyn":
        t = kind[2][0]
        return [] if t is None else flat_entries(sim, t, extra)
    if kind[0] == "glob":
        r = flat_entries(sim, kind[1], extra)
        if r is None:
            return None
        out = []
        for e in r:
            g = e.binding.is_global
            if not isinstance(g, (fbase.Always, fbase.Never)):
                return None
            if g():
                out.append(e)
        return out
    return None


def best(cands):
    m = min(any_count(e.keys) for e in cands)
    return [e for e in cands if any_count(e.keys) == m][-1]


def documented_rule(view, ks, flush):
    act_exact = [e for e in view if e.active and len(e.keys) == len(ks) and pat_match(e.keys, ks)]
    eager = [e for e in act_exact if e.is_eager]
    if eager:
        return ("fire", best(eager), len(ks), True)
    if not flush and any(e.active and len(e.keys) > len(ks) and pat_match(e.keys, ks) for e in view):
        return ("wait",)
    if act_exact:
        return ("fire", best(act_exact), len(ks), True)
    for i in range(len(ks) - 1, 0, -1):
        c = [e for e in view if e.active and len(e.keys) == i and pat_match(e.keys, ks[:i])]
        if c:
            return ("fire", best(c), i, False)
    return ("drop",)


class Observer:
    def __init__(self):
        self.v = []
        self.exp_prev = None
        self.exp_arg = None          # what the next handler invocation must find in event._arg
        self.last_binding = None     # the Binding object of the previous completed _call_handler
        self.ch = None

    def forget(self):
        """KeyProcessor.reset(): previous key sequence, previous handler and numeric argument are gone"""
        self.exp_prev = []
        self.exp_arg = None
        self.last_binding = None

    def bad(self, site, cond, msg):
        self.v.append({"signature": "%s | %s" % (site, cond), "msg": msg})

    # ---- filters
    def assignments(self, sim):
        saved = dict(sim.switch)
        try:
            for bits in itertools.product([False, True], repeat=NVARS):
                for v, b in enumerate(bits):
                    sim.switch[v] = b
                yield bits
        finally:
            sim.switch.clear()
            sim.switch.update(saved)

    def on_filter_op(self, sim, kind, a, b, r):
        for bits in self.assignments(sim):
            exp = (a() and b()) if kind == "and" else (a() or b()) if kind == "or" else (not a())
            got = r()
            if bool(got) != bool(exp):
                self.bad("Filter.__%s__" % kind, "value differs",
                         "%s of %s, %s = %s evaluates to %r under %r" % (kind, repr_f(a), b and repr_f(b), repr_f(r), got, bits))
                return
        if kind == "and" and (a & b) is not r or kind == "or" and (a | b) is not r or kind == "inv" and (~a) is not r:
            if not isinstance(r, (fbase.Always, fbase.Never)):
                self.bad("Filter.__%s__" % kind, "not memoised", "second evaluation returns another object")

    # ---- _parse_key: a key is a Keys member or one character; aliases and canonical names are the same key
    def on_parse(self, sim, t, v, r):
        from prompt_toolkit.keys import KEY_ALIASES
        values = {k.value for k in ALL_KEYS}
        site = "_parse_key"
        if t == "E":
            if r is not Keys(v):
                self.bad(site, "Keys member changed", "%r -> %r" % (v, r))
            return
        canon = KEY_ALIASES.get(v, v)
        if canon == "space":
            canon = " "
        valid = canon in values or len(canon) == 1
        if r is None:
            if valid:
                self.bad(site, "valid key rejected", "%r" % (v,))
            return
        if not valid:
            self.bad(site, "invalid key accepted", "%r -> %r" % (v, r))
            return
        if not (isinstance(r, Keys) or (isinstance(r, str) and len(r) == 1)):
            self.bad(site, "result is not a key", "%r -> %r" % (v, r))
            return
        exp = Keys(canon) if canon in values else canon
        if r != exp or isinstance(r, Keys) != isinstance(exp, Keys):
            self.bad(site, "wrong key", "%r -> %r, expected %r" % (v, r, exp))
            return
        try:
            again = kbmod._parse_key(r)
        except ValueError:
            again = None
        if again != r:
            self.bad(site, "not idempotent", "%r -> %r -> %r" % (v, r, again))

    # ---- lookups
    def on_lookup(self, sim, kind, i, keys, res):
        flat = flat_entries(sim, i)
        if flat is None:
            return
        if kind == "for":
            m = [e for e in flat if len(e.keys) == len(keys) and pat_match(e.keys, keys)]
            exp = sorted(m, key=lambda e: -any_count(e.keys))
        elif kind == "start":
            exp = [e for e in flat if len(e.keys) > len(keys) and pat_match(e.keys, keys)]
        else:
            exp = flat
        site = {"for": "get_bindings_for_keys", "start": "get_bindings_starting_with_keys", "bindings": "bindings"}[kind]
        site = type(sim.regs[i]).__name__ + "." + site
        if [(getattr(b.handler, "hid", -1), tuple(b.keys)) for b in res] != [(e.hid, e.keys) for e in exp]:
            self.bad(site, "stale or wrong binding list",
                     "keys=%r: got %s, the underlying KeyBindings now give %s" % (
                         keys, [repr_binding(b) for b in res], [repr_binding(e.binding) for e in exp]))
            return
        for b, e in zip(res, exp):
            if b.eager is not e.eager:
                self.bad(site, "eager filter differs", repr_binding(b))
                return
        for bits in self.assignments(sim):
            for b, e in zip(res, exp):
                if bool(b.filter()) != all(f() for f in e.filters):
                    self.bad(site, "filter value differs",
                             "binding %s under %r: filter() = %r" % (repr_binding(b), bits, b.filter()))
                    return

    # ---- processor
    def snapshot(self, sim):
        root = sim.regs.index(sim.kp._bindings)
        flat = flat_entries(sim, root)
        if flat is None:
            return None
        return {"view": [e.evaluate() for e in flat], "done": bool(sim.app.is_done)}

    def on_process_start(self, sim):
        self.q_shadow = list(sim.kp.input_queue)
        self.raised = False
        if self.exp_prev is None:
            self.exp_prev = []

    def check_pop(self, sim, kp):
        q = list(sim.kp.input_queue)
        done = sim.app.is_done
        # which key had to be taken?
        if done:
            cands = [k for k in self.q_shadow if k.key == Keys.CPRResponse]
            exp = cands[0] if cands else None
        else:
            exp = self.q_shadow[0] if self.q_shadow else None
        if exp is not kp:
            self.bad("KeyProcessor.process_keys", "wrong key taken from the queue",
                     "took %s, queue was %s, is_done=%r" % (sim.repr_kp(kp), sim.repr_kps(self.q_shadow), done))
        else:
            rest = list(self.q_shadow)
            for n, k in enumerate(rest):
                if k is kp:
                    del rest[n]
                    break
            if len(rest) != len(q) or any(a is not b for a, b in zip(rest, q)):
                self.bad("KeyProcessor.process_keys", "queue not preserved",
                         "queue %s -> %s after taking %s" % (sim.repr_kps(self.q_shadow), sim.repr_kps(q), sim.repr_kp(kp)))

    def on_send_entry(self, sim, kp, buf):
        self.check_pop(sim, kp)
        if kp is not kpmod._Flush and kp.key == Keys.CPRResponse and hasattr(sim.kp, "_process_cpr_response"):
            self.bad("KeyProcessor.process_keys", "CPR response sent through the key buffer", sim.repr_kp(kp))
        self.snap = self.snapshot(sim)
        self.snaps_after = []

    def on_cpr_entry(self, sim, kp):
        self.check_pop(sim, kp)
        self.snap = self.snapshot(sim)

    def on_cpr_exit(self, sim, kp, cur, calls):
        self.q_shadow = list(sim.kp.input_queue)
        if any("R" in c["tail"] for c in calls):
            self.raised = True
            return
        after = list(sim.kp.key_buffer)
        if len(after) != len(cur["buf"]) or any(a is not b for a, b in zip(after, cur["buf"])):
            self.bad("KeyProcessor._process_cpr_response", "key buffer touched",
                     "%s -> %s" % (sim.repr_kps(cur["buf"]), sim.repr_kps(after)))
        pv = list(sim.kp._previous_key_sequence)
        if len(pv) != len(cur["prev"]) or any(a is not b for a, b in zip(pv, cur["prev"])):
            self.bad("KeyProcessor._process_cpr_response", "previous key sequence touched", "")
        if len(calls) > 1:
            self.bad("KeyProcessor._process_cpr_response", "delivered more than once", "")
        if self.snap is None:
            return
        c = [e for e in self.snap["view"] if e.active and len(e.keys) == 1 and pat_match(e.keys, (kp.key,))]
        exp = best(c) if c else None
        got = calls[0] if calls else None
        if (exp is None) != (got is None) or (exp is not None and (exp.hid != got["hid"] or len(got["seq"]) != 1
                                                                   or got["seq"][0] is not kp)):
            self.bad("KeyProcessor._process_cpr_response", "wrong handler",
                     "rule: %s, called %s" % (exp and "h%d" % exp.hid, got and "h%d" % got["hid"]))

    def on_call_handler_entry(self, sim, info):
        self.ch = info

    def on_handler_entry(self, sim, rec):
        if self.exp_prev is not None:
            if len(rec["prev"]) != len(self.exp_prev) or any(a is not b for a, b in zip(rec["prev"], self.exp_prev)):
                self.bad("KeyProcessor._call_handler", "previous_key_sequence",
                         "got %s expected %s" % (sim.repr_kps(rec["prev"]), sim.repr_kps(self.exp_prev)))
        # the Readline argument: what was typed (append_to_arg_count) since the last command goes to this
        # invocation and only to it; is_repeat: the previous invocation was of the very same Binding object
        if sim.in_cpr:
            if rec["arg"] is not None or rec["rep"]:
                self.bad("KeyProcessor._process_cpr_response", "event carries an argument / is_repeat",
                         "arg=%r is_repeat=%r" % (rec["arg"], rec["rep"]))
        else:
            if rec["arg"] != self.exp_arg:
                self.bad("KeyProcessor._call_handler", "numeric argument not delivered",
                         "handler h%d got arg %r, typed since the last command: %r" % (rec["hid"], rec["arg"], self.exp_arg))
            if sim.kp.arg is not None:
                self.bad("KeyProcessor._call_handler", "numeric argument not cleared",
                         "key_processor.arg is %r while handler h%d runs" % (sim.kp.arg, rec["hid"]))
            if self.ch is not None:
                exp_rep = self.ch["binding"] is self.last_binding
                if rec["rep"] != exp_rep:
                    self.bad("KeyProcessor._call_handler", "is_repeat",
                             "handler h%d: is_repeat=%r, same binding as the previous command: %r" % (
                                 rec["hid"], rec["rep"], exp_rep))
        a = rec["arg"]
        if a is None or a == "":
            exp_val = 1
        elif a == "-":
            exp_val = -1
        else:
            try:
                exp_val = int(a)
                if exp_val >= 1000000:
                    exp_val = 1
            except ValueError:
                exp_val = "!"
        if rec["argval"] != exp_val:
            self.bad("KeyPressEvent.arg", "value",
                     "_arg=%r gives event.arg=%r, documented: %r" % (a, rec["argval"], exp_val))

    def on_handler_exit(self, sim, rec):
        rec["snap_after"] = self.snapshot(sim)
        if "R" not in rec["tail"] and not sim.in_cpr:
            self.exp_prev = list(rec["seq"])
        if sim.in_cpr:
            self.exp_arg = sim.kp.arg       # not cleared on this path; a CPR handler may also append

    def on_call_handler_exit(self, sim, info):
        self.ch = None
        if not info["ok"]:
            return                          # process_keys resets; on_process_end forgets
        self.last_binding = info["binding"]
        self.exp_arg = sim.kp.arg
        es, vs = sim.app.emacs_state, sim.app.vi_state
        seq = info["seq"]
        rim = bool(info["binding"].record_in_macro())
        exp_e = rim and info["was_e"] and es.is_recording
        got_e = info.get("pushed_e", [])
        if exp_e:
            if len(got_e) != len(seq) or any(a is not b for a, b in zip(got_e, seq)):
                self.bad("KeyProcessor._call_handler", "macro recording misses delivered keys",
                         "delivered %s, appended to the emacs recording: %s" % (sim.repr_kps(seq), sim.repr_kps(got_e)))
        elif got_e:
            self.bad("KeyProcessor._call_handler", "macro recording has keys it must not have",
                     "appended %s (record_in_macro=%r, recording before=%r after=%r)" % (
                         sim.repr_kps(got_e), rim, info["was_e"], es.is_recording))
        exp_v = rim and info["was_v"] and bool(vs.recording_register)
        got_v = info.get("pushed_v", "")
        datas = "".join(k.data for k in seq)
        if (got_v or "") != (datas if exp_v else "") or got_v is None:
            self.bad("KeyProcessor._call_handler", "vi macro recording",
                     "delivered data %r, appended %r (record_in_macro=%r, recording before=%r after=%r)" % (
                         datas, got_v, rim, info["was_v"], bool(vs.recording_register)))

    def on_send_exit(self, sim, kp, x, after, items):
        self.q_shadow = list(sim.kp.input_queue)
        flush = kp is kpmod._Flush
        calls = [r for r in items if r["kind"] == "call"]
        requeues = [r for r in items if r["kind"] == "requeue"]
        raised = any("R" in c["tail"] for c in calls)
        if raised:
            self.raised = True
        # conservation by identity: consumed segments, in order, then the remaining buffer
        seq = []
        for r in items:
            if r["kind"] == "drop":
                seq.append(r["key"])
            elif r["kind"] == "requeue":
                seq += r["keys"]
            elif "R" not in r["tail"]:
                seq += r["seq"]
        total = seq + after
        if len(total) != len(x) or any(a is not b for a, b in zip(total, x)):
            self.bad("KeyProcessor._process", "conservation",
                     "buffer+key %s became delivered/dropped/requeued %s + pending %s" % (
                         sim.repr_kps(x), sim.repr_kps(seq), sim.repr_kps(after)))
            return
        # the documented rule, replayed on the snapshots
        snap = self.snap
        buf = list(x)
        pending_calls = list(calls)
        drops = [r["key"] for r in items if r["kind"] == "drop"]
        expect_requeue = None
        fl = flush
        steps = 0
        first = True
        while True:
            steps += 1
            if snap is None or steps > 50:
                return
            if not buf:
                break
            if not first and snap["done"]:
                # the application is done: the rest of the buffer becomes typeahead
                expect_requeue = list(buf)
                buf = []
                break
            first = False
            d = documented_rule(snap["view"], tuple(k.key for k in buf), fl)
            fl = False
            if d[0] == "wait":
                break
            if d[0] == "drop":
                if not drops or drops[0] is not buf[0]:
                    self.bad("KeyProcessor._process", "key not dropped",
                             "rule: drop %s; buffer %s" % (sim.repr_kp(buf[0]), sim.repr_kps(buf)))
                    return
                drops.pop(0)
                buf = buf[1:]
                continue
            _, e, n, exact = d
            if not pending_calls:
                self.bad("KeyProcessor._process", "handler not called",
                         "rule: call h%d with %s; buffer %s flush=%r" % (e.hid, sim.repr_kps(buf[:n]), sim.repr_kps(x), flush))
                return
            c = pending_calls.pop(0)
            if c["hid"] != e.hid:
                self.bad("KeyProcessor._process", "wrong handler",
                         "rule: h%d (%s) with %s, called h%d; buffer %s flush=%r" % (
                             e.hid, repr_keys(e.keys), sim.repr_kps(buf[:n]), c["hid"], sim.repr_kps(x), flush))
                return
            if len(c["seq"]) != n or any(a is not b for a, b in zip(c["seq"], buf[:n])):
                self.bad("KeyProcessor._process", "wrong key sequence",
                         "rule: h%d with %s, got %s" % (e.hid, sim.repr_kps(buf[:n]), sim.repr_kps(c["seq"])))
                return
            if "R" in c["tail"]:
                break
            snap = c.get("snap_after")
            buf = buf[n:]
            if exact:
                break
        if pending_calls:
            c = pending_calls[0]
            self.bad("KeyProcessor._process", "unexpected handler call",
                     "h%d with %s; buffer %s flush=%r" % (c["hid"], sim.repr_kps(c["seq"]), sim.repr_kps(x), flush))
            return
        got_requeue = requeues[0]["keys"] if requeues else None
        if (expect_requeue is None) != (got_requeue is None) or (expect_requeue is not None and (
                len(expect_requeue) != len(got_requeue) or any(a is not b for a, b in zip(expect_requeue, got_requeue)))):
            self.bad("KeyProcessor._process", "typeahead after exit",
                     "buffer %s: expected to be pushed back %s, was %s" % (
                         sim.repr_kps(x), expect_requeue and sim.repr_kps(expect_requeue),
                         got_requeue and sim.repr_kps(got_requeue)))
            return
        if not raised and (len(buf) != len(after) or any(a is not b for a, b in zip(buf, after))):
            self.bad("KeyProcessor._process", "pending buffer",
                     "rule leaves %s pending, key_buffer is %s" % (sim.repr_kps(buf), sim.repr_kps(after)))

    def on_process_end(self, sim):
        kp = sim.kp
        if self.raised:
            self.forget()
            if (kp.key_buffer or kp.input_queue or kp._previous_key_sequence or kp.arg is not None
                    or kp._previous_handler is not None):
                self.bad("KeyProcessor.process_keys", "not reset after a raising handler",
                         "buffer %s queue %s" % (sim.repr_kps(kp.key_buffer), sim.repr_kps(kp.input_queue)))
        else:
            q = list(kp.input_queue)
            left = [k for k in q if k.key == Keys.CPRResponse] if sim.app.is_done else q
            if left:
                self.bad("KeyProcessor.process_keys", "keys left unprocessed",
                         "queue %s is_done=%r" % (sim.repr_kps(q), sim.app.is_done))
        # before/after events bracket every plain key
        ev = [r for r in sim.log if r["kind"] in ("P", "B", "A")]
        n = 0
        while n < len(ev):
            r = ev[n]
            if r["kind"] != "P":
                self.bad("KeyProcessor.process_keys", "before/after events", "event without a key")
                break
            k = r["key"]
            plain = k is not kpmod._Flush and k.key != Keys.CPRResponse
            n += 1
            if plain:
                last = n >= len(ev) - 1 and self.raised
                if n >= len(ev) or ev[n]["kind"] != "B":
                    self.bad("KeyProcessor.process_keys", "before/after events", "before_key_press not fired")
                    break
                n += 1
                if n < len(ev) and ev[n]["kind"] == "A":
                    n += 1
                elif not self.raised or n < len(ev):
                    self.bad("KeyProcessor.process_keys", "before/after events", "after_key_press not fired")
                    break


def oracle(case):
    if _LAST[0] is case and _LAST[1] is not None:
        obs = Observer()
        obs.v = _LAST[1]
    else:
        obs = Observer()
        try:
            out, sim = run_real(case, obs)
        except Exception as e:  # the real code crashed
            import traceback
            return [{"signature": "crash | " + type(e).__name__, "msg": traceback.format_exc()[-1200:]}]
    # an explicit reset() between process calls clears the previous key sequence: handled below
    seen, res = set(), []
    for x in obs.v:
        if x["signature"] not in seen:
            seen.add(x["signature"])
            res.append(x)
    return res


# ------------------------------------------------------------------ generators
PAT_KEYS = [2, 3, 0]          # a, b, Any
FEED_KEYS = [2, 2, 3, 3, 5, 0, 1]


def rand_raw(rng, fnames, p_bool=0.5):
    if not fnames or rng.random() < p_bool:
        return rng.random() < 0.6
    return rng.choice(fnames)


def rand_pattern(rng):
    n = rng.choice([1, 1, 2, 2, 3])
    return [rng.choice(PAT_KEYS) for _ in range(n)]


def rand_kp(rng, tagc):
    if rng.random() < 0.12:
        return "F"
    tagc[0] += 1
    return [rng.choice(FEED_KEYS), tagc[0]]


def rand_rop(rng, kbs, regs, dyns, fnames, tmpls, nh):
    k = rng.random()
    if k < 0.5 or not kbs:
        r = rng.choice(kbs or regs)
        rop = ["add", r, rng.randrange(nh), rand_raw(rng, fnames), rand_raw(rng, fnames, 0.8),
               rand_raw(rng, fnames, 0.8), rand_pattern(rng)]
        if rng.random() < 0.25:
            rop.append(rand_raw(rng, fnames, 0.6))      # record_in_macro
        return rop
    if k < 0.6 and tmpls:
        return ["addb", rng.choice(kbs), rng.choice(tmpls), rand_raw(rng, fnames), rand_raw(rng, fnames, 0.8),
                rand_raw(rng, fnames, 0.8), rand_pattern(rng)]
    if k < 0.75:
        return ["rmh", rng.choice(kbs), rng.randrange(nh)]
    if k < 0.9 or not dyns:
        return ["rmk", rng.choice(kbs), rand_pattern(rng)]
    return ["target", rng.choice(dyns), rng.choice(regs + [None])]


def rand_extras(rng, e):
    """macro operations and numeric-argument keys for a random handler effect"""
    if rng.random() < 0.25:
        e["macros"] = [rng.choice(["S", "S", "E", "C", "C", "VS", "VE"]) for _ in range(rng.choice([1, 1, 2]))]
    if rng.random() < 0.2:
        e["argkey"] = rng.choice("0123456789-5-")


def rand_case(rng, size=1.0):
    ops = []
    fnames = []
    for v in range(NVARS):
        ops.append(["cond", "c%d" % v, v])
        fnames.append("c%d" % v)
    if rng.random() < 0.3:
        ops.append(["cond", "c0b", 0])
        fnames.append("c0b")
    if rng.random() < 0.3:
        ops.append(["tof", "tT", True])
        fnames.append("tT")
        ops.append(["tof", "tF", False])
        fnames.append("tF")
    for i in range(rng.randrange(0, 6)):
        k = rng.choice(["and", "or", "inv"])
        name = "x%d" % i
        if k == "inv":
            ops.append(["inv", name, rng.choice(fnames)])
        else:
            ops.append([k, name, rng.choice(fnames), rng.choice(fnames)])
        fnames.append(name)
    for v in range(NVARS):
        if rng.random() < 0.5:
            ops.append(["flip", v])
    nh = 5
    regs, kbs, dyns, tmpls = [], [], [], []
    for i in range(rng.choice([1, 1, 2, 3])):
        ops.append(["mk", "k%d" % i, "kb"])
        regs.append("k%d" % i)
        kbs.append("k%d" % i)
    for i in range(rng.choice([0, 1, 1, 2, 3, 4])):
        name = "w%d" % i
        kind = rng.choice(["cond", "merged", "dyn", "glob"])
        if kind == "cond":
            ops.append(["mk", name, "cond", rng.choice(regs), rand_raw(rng, fnames, 0.3)])
        elif kind == "merged":
            ops.append(["mk", name, "merged", [rng.choice(regs) for _ in range(rng.randrange(0, 4))]])
        elif kind == "dyn":
            ops.append(["mk", name, "dyn", rng.choice(regs + [None])])
            dyns.append(name)
        else:
            ops.append(["mk", name, "glob", rng.choice(regs)])
        regs.append(name)
    if rng.random() < 0.4:
        ops.append(["tmpl", "t0", rng.randrange(nh), rand_raw(rng, fnames), rand_raw(rng, fnames, 0.7),
                    rand_raw(rng, fnames, 0.7)])
        tmpls.append("t0")
    tagc = [100]
    for hid in range(nh):
        if rng.random() < 0.5:
            effs = []
            for _ in range(rng.choice([1, 1, 2])):
                e = {"flips": [rng.randrange(NVARS) for _ in range(rng.choice([0, 0, 1, 1, 2]))],
                     "ops": [rand_rop(rng, kbs, regs, dyns, fnames, tmpls, nh)
                             for _ in range(rng.choice([0, 0, 0, 1, 2]))],
                     "feeds": [[rng.random() < 0.4, [rand_kp(rng, tagc) for _ in range(rng.choice([1, 1, 2]))]]
                               for _ in range(rng.choice([0, 0, 0, 1, 2]))],
                     "exit": rng.random() < 0.05,
                     "outcome": rng.choice(["ok"] * 8 + ["ro", "raise"])}
                rand_extras(rng, e)
                effs.append(e)
            ops.append(["handler", hid, effs])
    for _ in range(rng.randrange(1, 7)):
        ops.append(["op", rand_rop(rng, kbs, regs, [], fnames, tmpls, nh)[:]])
    ops.append(["proc", regs[-1] if rng.random() < 0.7 else rng.choice(regs)])
    tagc = [0]
    for _ in range(int(rng.randrange(3, 14) * size)):
        k = rng.random()
        if k < 0.45:
            ops.append(["feed", rng.random() < 0.1, [rand_kp(rng, tagc) for _ in range(rng.randrange(1, 5))]])
            ops.append(["process"])
        elif k < 0.5:
            ops.append(["feed", False, ["F"]])
            ops.append(["process"])
        elif k < 0.6:
            ops.append(["flip", rng.randrange(NVARS)])
        elif k < 0.72:
            ops.append(["op", rand_rop(rng, kbs, regs, dyns, fnames, tmpls, nh)])
        elif k < 0.86:
            ops.append([rng.choice(["for", "start"]), rng.choice(regs),
                        [rng.choice([2, 3, 5, 0]) for _ in range(rng.randrange(0, 4))]])
        elif k < 0.9:
            ops.append([rng.choice(["bindings", "version"]), rng.choice(regs)])
        elif k < 0.93:
            ops.append(["setdone", rng.random() < 0.6])
        elif k < 0.95:
            ops.append(["reset"])
        elif k < 0.97:
            ops.append(["emptyq"])
        else:
            ops.append(["ev", rng.choice(fnames)])
    return {"ops": ops}


# ---- exhaustive families
QUICK_PATS = [[2], [0], [2, 3], [2, 0], [0, 3], [2, 3, 2], [2, 0, 0]]
THOROUGH_PATS = ([[a] for a in PAT_KEYS] + [[a, b] for a in PAT_KEYS for b in PAT_KEYS]
                 + [[2, 3, 2], [2, 0, 3], [0, 0, 2], [2, 3, 0], [0, 3, 2], [2, 2, 2]])


def key_strings(maxlen, alphabet=(2, 3)):
    for n in range(1, maxlen + 1):
        for tup in itertools.product(alphabet, repeat=n):
            yield list(tup)


def proc_script(strings, modes):
    """reset + feed/process lines for every key string; mode 0: all keys at once, then a timeout;
    mode 1: a timeout after every key; mode 2: a timeout after the first key only"""
    ops = []
    tag = 0
    for ks in strings:
        for mode in (modes(ks) if callable(modes) else modes):
            ops.append(["reset"])
            kps = []
            for k in ks:
                tag += 1
                kps.append([k, tag])
            if mode == 0:
                ops += [["feed", False, kps], ["process"], ["feed", False, ["F"]], ["process"]]
            elif mode == 1:
                for kp in kps:
                    ops += [["feed", False, [kp]], ["process"], ["feed", False, ["F"]], ["process"]]
            else:
                ops += [["feed", False, kps[:1] + ["F"] + kps[1:]], ["process"], ["feed", False, ["F"]], ["process"]]
    return ops


def binding_variants(pats, filters):
    return [(p, e, f) for p in pats for e in (False, True) for f in filters]


def e1_case(bset, c0_init, flipper, strings, modes):
    ops = [["cond", "c0", 0], ["inv", "n0", "c0"], ["mk", "k", "kb"]]
    if c0_init:
        ops.append(["flip", 0])
    for hid, (pat, eager, flt) in enumerate(bset):
        ops.append(["op", ["add", "k", hid, flt, eager, False, pat]])
    if flipper:
        ops.append(["handler", 0, [{"flips": [0]}] * 40])
    ops.append(["proc", "k"])
    ops += proc_script(strings, modes)
    return {"ops": ops, "fam": "E1"}


def e1_cases(tier, rng):
    if tier == "quick":
        var = binding_variants(QUICK_PATS, [True, "c0"])
        strings = list(key_strings(3))
        for b1 in var:
            for b2 in var:
                c0 = rng.random() < 0.5
                yield e1_case([b1, b2], c0, rng.random() < 0.3, strings, [0, 1])
    else:
        var = binding_variants(THOROUGH_PATS, [True, "c0", "n0"])
        strings = list(key_strings(4))
        for b1 in var:
            for b2 in var:
                # all keys at once for every string; a timeout after every key for the strings up to
                # length 3; a timeout after the first key for a quarter of the pairs
                third = rng.random() < 0.25
                yield e1_case([b1, b2], rng.random() < 0.5, rng.random() < 0.3, strings,
                              lambda ks, third=third: [0] + ([1] if len(ks) <= 3 else []) + ([2] if third else []))
        for _ in range(6000):
            yield e1_case([rng.choice(var) for _ in range(rng.choice([3, 3, 4]))], rng.random() < 0.5,
                          rng.random() < 0.3, strings, [rng.randrange(3)])


STRUCTS = [
    [["mk", "w", "cond", "k", "c0"]],
    [["mk", "w", "merged", ["k", "k2"]]],
    [["mk", "w", "dyn", "k"]],
    [["mk", "w", "glob", "k"]],
    [["mk", "w1", "cond", "k", "c0"], ["mk", "w", "merged", ["w1", "k2"]]],
    [["mk", "w1", "merged", ["k", "k2"]], ["mk", "w", "cond", "w1", "c1"]],
    [["mk", "w1", "dyn", "k"], ["mk", "w", "merged", ["w1", "k2"]]],
    [["mk", "w1", "cond", "k", "c0"], ["mk", "w", "cond", "w1", "c1"]],
    [["mk", "w1", "glob", "k"], ["mk", "w", "dyn", "w1"]],
    [["mk", "w1", "merged", []], ["mk", "w", "cond", "w1", "c0"]],
    [["mk", "w1", "merged", ["k"]], ["mk", "w", "glob", "w1"]],
    [["mk", "w", "merged", ["k", "k"]]],
    [["mk", "w1", "dyn", None], ["mk", "w", "merged", ["k2", "w1"]]],
    [["mk", "w1", "merged", ["k", "k2"]], ["mk", "w2", "glob", "w1"], ["mk", "w", "cond", "w2", True]],
]
LOOK = [["for", "w", [2]], ["start", "w", [2]], ["bindings", "w"], ["version", "w"]]
MENU = {
    "a1": [["op", ["add", "k", 0, True, False, True, [2]]]],
    "a2": [["op", ["add", "k", 1, "c0", False, False, [2, 0]]]],
    "a3": [["op", ["add", "k2", 2, True, True, True, [2]]]],
    "r1": [["op", ["rmh", "k", 0]]],
    "r2": [["op", ["rmk", "k", [2]]]],
    "r3": [["op", ["rmh", "k2", 2]]],
    "t1": [["op", ["target", "w1", "k2"]], ["op", ["target", "w", "k2"]]],
    "t2": [["op", ["target", "w1", "k"]], ["op", ["target", "w", None]]],
    "L": LOOK,
    "f": [["flip", 0]],
}


def e2_cases(tier, rng):
    n = 3 if tier == "quick" else 4
    names = list(MENU)
    for st in STRUCTS:
        has_dyn = any(o[2] == "dyn" for o in st)
        menu = [m for m in names if has_dyn or not m.startswith("t")]
        for seq in itertools.product(menu, repeat=n):
            ops = [["cond", "c0", 0], ["cond", "c1", 1], ["flip", 1], ["mk", "k", "kb"], ["mk", "k2", "kb"]] + \
                  [list(o) for o in st] + LOOK
            for m in seq:
                ops += MENU[m]
            ops += LOOK + [["for", "w", [2, 3]], ["start", "w", []]]
            yield {"ops": ops, "fam": "E2"}


def e3_cases(tier, rng):
    """all filter expressions built by a sequence of operator applications over a small base"""
    if tier == "quick":
        base = [["cond", "c0", 0], ["cond", "c1", 1], ["tof", "T", True], ["tof", "X", False]]
        depth = 2
    else:
        base = [["cond", "c0", 0], ["cond", "c1", 1], ["tof", "T", True]]
        depth = 3
    bnames = [o[1] for o in base]

    def rec(names, d):
        if d == 0:
            yield []
            return
        new = "e%d" % d
        choices = [["inv", new, a] for a in names]
        for a in names:
            for b in names:
                choices.append(["and", new, a, b])
                choices.append(["or", new, a, b])
        for c in choices:
            for rest in rec(names + [new], d - 1):
                yield [c] + rest

    for seq in rec(bnames, depth):
        ops = [list(o) for o in base] + seq
        names = bnames + [o[1] for o in seq]
        # evaluate every result under the four assignments of (c0, c1), Gray-code order
        for fl in (None, 0, 1, 0):
            if fl is not None:
                ops.append(["flip", fl])
            ops += [["ev", nme] for nme in names[len(bnames):]]
        yield {"ops": ops, "fam": "E3"}


def e4_cases(tier, rng):
    """who exits / raises, and what happens to the keys that are still buffered or queued"""
    pats = QUICK_PATS if tier == "quick" else THOROUGH_PATS
    strings = list(key_strings(3, alphabet=(2, 3, 5, 1)))
    behaviours = [({"exit": True}, None), (None, {"exit": True}), ({"outcome": "raise"}, None),
                  (None, {"outcome": "ro"}), ({"exit": True, "feeds": [[False, [[2, 900]]]]}, None),
                  ({"exit": True}, {"outcome": "raise"})]
    for p1 in pats:
        for p2 in pats:
            for b0, b1 in behaviours:
                ops = [["mk", "k", "kb"], ["op", ["add", "k", 0, True, False, False, p1]],
                       ["op", ["add", "k", 1, True, rng.random() < 0.3, False, p2]], ["proc", "k"]]
                tag = 0
                for ks in strings:
                    ops += [["setdone", False], ["reset"], ["emptyq"]]
                    if b0:
                        ops.append(["handler", 0, [dict(b0)]])
                    if b1:
                        ops.append(["handler", 1, [dict(b1)]])
                    # scripts are indexed by invocation count: re-arm by re-registering a fresh handler id
                    kps = []
                    for k in ks:
                        tag += 1
                        kps.append([k, tag])
                    ops += [["feed", False, kps], ["process"], ["feed", False, ["F"]], ["process"]]
                yield {"ops": ops, "fam": "E4"}


def dense_case(rng):
    """random scenario biased to overlapping bindings on few keys"""
    ops = [["cond", "c0", 0], ["cond", "c1", 1], ["cond", "c2", 2], ["inv", "n0", "c0"], ["and", "a01", "c0", "c1"],
           ["or", "o12", "c1", "c2"]]
    fnames = ["c0", "c1", "c2", "n0", "a01", "o12"]
    for v in range(NVARS):
        if rng.random() < 0.6:
            ops.append(["flip", v])
    ops += [["mk", "k", "kb"], ["mk", "k2", "kb"]]
    regs, kbs, dyns = ["k", "k2"], ["k", "k2"], []
    shape = rng.randrange(6)
    if shape == 1:
        ops.append(["mk", "w", "merged", ["k", "k2"]])
    elif shape == 2:
        ops += [["mk", "w1", "cond", "k", rng.choice(fnames)], ["mk", "w", "merged", ["w1", "k2"]]]
        regs.append("w1")
    elif shape == 3:
        ops += [["mk", "w1", "dyn", rng.choice(["k", "k2", None])], ["mk", "w", "merged", ["k", "w1"]]]
        regs.append("w1")
        dyns.append("w1")
    elif shape == 4:
        ops += [["mk", "w1", "merged", ["k", "k2"]], ["mk", "w", "cond", "w1", rng.choice(fnames + [True])]]
        regs.append("w1")
    elif shape == 5:
        ops += [["mk", "w1", "glob", "k"], ["mk", "w", "merged", ["w1", "k2"]]]
        regs.append("w1")
    if shape:
        regs.append("w")
    nh = 5
    tagc = [500]
    for hid in range(nh):
        if rng.random() < 0.45:
            effs = []
            for _ in range(rng.choice([1, 2, 3])):
                effs.append({"flips": [rng.randrange(NVARS) for _ in range(rng.choice([0, 1, 1, 2]))],
                             "ops": [rand_rop(rng, kbs, regs, dyns, fnames, [], nh) for _ in range(rng.choice([0, 0, 1]))],
                             "feeds": [[rng.random() < 0.4, [rand_kp(rng, tagc) for _ in range(rng.choice([1, 2]))]]
                                       for _ in range(rng.choice([0, 0, 0, 1]))],
                             "exit": rng.random() < 0.04,
                             "outcome": rng.choice(["ok"] * 10 + ["ro", "raise"])})
                rand_extras(rng, effs[-1])
            ops.append(["handler", hid, effs])
    for _ in range(rng.randrange(3, 10)):
        pat = [rng.choice([2, 2, 3, 3, 0]) for _ in range(rng.choice([1, 1, 2, 2, 3]))]
        ops.append(["op", ["add", rng.choice(kbs), rng.randrange(nh),
                           rng.choice([True, True, True] + fnames), rng.choice([False, False, True, "c1", "n0"]),
                           rng.choice([True, True, False, "c2"]), pat]])
    ops.append(["proc", regs[-1]])
    tagc = [0]
    for _ in range(rng.randrange(4, 12)):
        k = rng.random()
        if k < 0.6:
            kps = []
            for _ in range(rng.randrange(1, 6)):
                if rng.random() < 0.1:
                    kps.append("F")
                else:
                    tagc[0] += 1
                    kps.append([rng.choice([2, 2, 2, 3, 3, 3, 5, 1, 0]), tagc[0]])
            ops += [["feed", rng.random() < 0.08, kps], ["process"]]
        elif k < 0.68:
            ops += [["feed", False, ["F"]], ["process"]]
        elif k < 0.76:
            ops.append(["flip", rng.randrange(NVARS)])
        elif k < 0.84:
            ops.append(["op", rand_rop(rng, kbs, regs, dyns, fnames, [], nh)])
        elif k < 0.94:
            ops.append([rng.choice(["for", "start"]), regs[-1], [rng.choice([2, 3]) for _ in range(rng.randrange(0, 3))]])
        elif k < 0.96:
            ops.append(["setdone", rng.random() < 0.6])
        else:
            ops.append(rng.choice([["reset"], ["emptyq"], ["version", regs[-1]], ["bindings", regs[-1]], ["mstate"]]))
    ops.append(["mstate"])
    return {"ops": ops, "fam": "R2"}


# ---- E5: dispatch through every wrapper structure, bindings changing between the key strings
E5_MENU = ["a1", "a2", "a3", "r1", "r2", "r3", "t1", "t2", "f"]


def e5_cases(tier, rng):
    n = 2 if tier == "quick" else 3
    strings = list(key_strings(2)) + ([[2, 3, 2], [2, 2, 3]] if tier != "quick" else [])
    for st in STRUCTS:
        has_dyn = any(o[2] == "dyn" for o in st)
        menu = [m for m in E5_MENU if has_dyn or not m.startswith("t")]
        for seq in itertools.product(menu, repeat=n):
            ops = [["cond", "c0", 0], ["cond", "c1", 1], ["flip", 1], ["mk", "k", "kb"], ["mk", "k2", "kb"]] + \
                  [list(o) for o in st]
            # handler 1 (bound by a2 to `a Any`) rebinds while the processor runs
            ops.append(["handler", 1, [{"ops": [["add", "k2", 3, True, False, True, [3]]]}, {"ops": [["rmh", "k2", 3]]}] * 6])
            ops += [["op", ["add", "k", 4, True, False, True, [3, 2]]], ["proc", "w"]]
            ops += proc_script(strings, [0])
            for m in seq:
                ops += MENU[m]
                ops += proc_script(strings, [0])
            yield {"ops": ops, "fam": "E5"}


# ---- E6: numeric argument, is_repeat, macro recording / replay
E6_SCRIPT = [{"macros": ["S"]}, {"macros": ["E"]}, {"macros": ["C"]}, {"macros": ["VS"]}, {"macros": ["VE"]},
             {"macros": ["C"]}, {"ops": [["add", "k", 0, True, False, False, [2]]]}, {"outcome": "ro"},
             {"macros": ["S", "VS"]}, {"outcome": "raise"}, {"macros": ["E", "C"]}]


def e6_cases(tier, rng):
    maxlen = 3 if tier == "quick" else 4
    strings = list(key_strings(maxlen, alphabet=(2, 3, 5, 8)))
    for root in ("k", "w", "m"):
        for rim_b in (True, False, "c1"):
            for rot in range(len(E6_SCRIPT)):
                for chunked in (False, True):
                    ops = [["cond", "c0", 0], ["cond", "c1", 1], ["flip", 0], ["mk", "k", "kb"], ["mk", "k2", "kb"],
                           ["mk", "w", "cond", "k", "c0"], ["mk", "m", "merged", ["k2", "w"]],
                           ["op", ["add", "k", 0, True, False, False, [2]]],                 # a: plain command
                           ["op", ["add", "k", 1, True, False, False, [3], rim_b]],          # b: digit argument
                           ["op", ["add", "k", 2, True, False, False, [5], False]],          # c: minus
                           ["op", ["add", "k", 3, True, False, False, [8]]],                 # d: macro / misc
                           ["op", ["add", "k2", 0, "c1", False, False, [2, 2]]],             # a a (when c1)
                           ["handler", 1, [{"argkey": "5", "flips": [1]}, {"argkey": "0"}, {"argkey": "7"}] * 400],
                           ["handler", 2, [{"argkey": "-"}] * 1200],
                           ["handler", 3, [dict(E6_SCRIPT[(rot + i) % len(E6_SCRIPT)]) for i in range(1200)]],
                           ["proc", root]]
                    tag = 0
                    for n, ks in enumerate(strings):
                        kps = []
                        for k in ks:
                            tag += 1
                            kps.append([k, tag])
                        if chunked:
                            for kp in kps:
                                ops += [["feed", False, [kp]], ["process"]]
                        else:
                            ops += [["feed", False, kps], ["process"]]
                        ops += [["feed", False, ["F"]], ["process"]]
                        if n % 16 == 15:
                            ops.append(["mstate"])
                    ops.append(["mstate"])
                    yield {"ops": ops, "fam": "E6"}


# ---- E7: _parse_key over the whole Keys enumeration, every alias, and strings around them
def e7_cases(tier, rng):
    from prompt_toolkit.keys import KEY_ALIASES
    raws = [["E", k.value] for k in ALL_KEYS] + [["S", k.value] for k in ALL_KEYS]
    raws += [["S", a] for a in KEY_ALIASES] + [["S", t] for t in KEY_ALIASES.values()]
    raws += [["S", x] for x in ["space", " ", "", "a", "Z", "?", "ab", "c-", "C-a", "Enter", "<any>", "<any", "escape ",
                                "s-c-left", "c-s-left", "\u4e16", "\u4e16\u754c", "-", "f1", "f25", "c-1", "c-10"]]
    ops = [["parse", r] for r in raws]
    # strings at edit distance one of every alias name and of a few values
    near = set()
    for w in list(KEY_ALIASES) + ["c-a", "escape", "space", "<any>"]:
        for i in range(len(w)):
            near.add(w[:i] + w[i + 1:])
            near.add(w[:i] + "x" + w[i + 1:])
        near.add(w + "x")
    ops += [["parse", ["S", x]] for x in sorted(near)]
    yield {"ops": ops, "fam": "E7"}
    # add() normalises its keys: a binding added under an alias is found under the canonical key and
    # can be removed by either name
    aliases = list(KEY_ALIASES.items())
    for a, t in aliases + [("space", " ")]:
        canon = kbmod._parse_key(t)
        n = knum(canon)
        ops = [["mk", "k", "kb"], ["addr", "k", 0, [["S", a]]], ["addr", "k", 1, [["S", t], ["S", a]]],
               ["addr", "k", 2, [["S", a], ["S", "zz"]]], ["addr", "k", 2, []], ["bindings", "k"],
               ["for", "k", [n]], ["for", "k", [n, n]], ["start", "k", [n]],
               ["proc", "k"], ["feed", False, [[n, 1], "F"]], ["process"], ["feed", False, [[n, 2], [n, 3]]], ["process"],
               ["op", ["rmk", "k", [n]]], ["bindings", "k"], ["op", ["rmk", "k", [n]]], ["bindings", "k"]]
        yield {"ops": ops, "fam": "E7"}
    # the numeric argument as a function of the characters typed
    ops = []
    for n in range(0, 4 if tier == "quick" else 5):
        for tup in itertools.product("-05", repeat=n):
            ops.append(["argv", "".join(tup)])
    ops += [["argv", x] for x in ["999999", "1000000", "1000001", "-1000000", "-999", "0000012", "12345678901234567890",
                                  "-0", "00", "x", "1x", "1-", "--", "-5-"]]
    yield {"ops": ops, "fam": "E7"}
    # the re-feeding handler: process_keys is still looping after n iterations, for a range of n
    yield {"ops": [["refeed", n] for n in ([0, 1, 2, 3, 10, 100, 1000] if tier == "quick" else
                                           list(range(0, 60)) + [100, 1000, 5000, 20000])], "fam": "E7"}


def cases(tier, rng):
    yield from e3_cases(tier, rng)
    yield from e2_cases(tier, rng)
    yield from e1_cases(tier, rng)
    yield from e4_cases(tier, rng)
    yield from e7_cases(tier, rng)
    yield from e6_cases(tier, rng)
    yield from e5_cases(tier, rng)
    n = 1500 if tier == "quick" else 12000
    for _ in range(n):
        yield dense_case(rng)
    for _ in range(n):
        c = rand_case(rng)
        c["fam"] = "R1"
        yield c


def sample_view(case):
    ops = case["ops"]
    if len(ops) > 40:
        return {"fam": case.get("fam"), "ops": ops[:40] + ["... %d more ops" % (len(ops) - 40)]}
    return case


def nontrivial(case):
    return any(o[0] in ("process", "for", "start", "bindings", "and", "or", "inv", "parse", "argv", "addr", "refeed")
               for o in case["ops"])


def distribution(cases):
    d = {"family": {}, "ops": {}}
    for c in cases:
        f = c.get("fam", "corpus")
        d["family"][f] = d["family"].get(f, 0) + 1
        for o in c["ops"]:
            d["ops"][o[0]] = d["ops"].get(o[0], 0) + 1
    return d


if __name__ == "__main__":
    sys.exit(core.main(sys.modules[__name__]))
