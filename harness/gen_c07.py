#!/venv/bin/python
"""
C07 tables re-extracted from the CURRENT tree on every run -> lean/Ptk/Gen/C07.lean:

  table        one row per distinct (handler, keys, save_before bits) of every key binding that a
               PromptSession (system prompt, open-in-editor, suspend enabled; emacs and Vi bindings are both
               always loaded, filters select) can dispatch from any of its windows.  The save_before bits
               are READ from the real `Binding` objects by calling `binding.save_before` on two stub events
               (is_repeat False / True); `kind` says whether the handler's own source calls `.undo()` (1),
               `.redo()` (2) or `.save_to_undo_stack()` (3), else 0.
  stackSites   every function of src/prompt_toolkit that mentions `_undo_stack` / `_redo_stack`
  callSites    every function of src/prompt_toolkit that calls `.undo()` / `.redo()` / `.save_to_undo_stack()`
  roChecksFirst  does `Buffer.undo()` / `redo()` on a read-only buffer leave both stacks alone (probed by
               behaviour: a bare Buffer with a dynamic read_only filter)?

The theorems in Ptk/Props/C07Table.lean are stated over ANY table satisfying the decidable predicate
`tableWF` and contain `gen_ok : tableWF Gen.C07.table = true := by decide`, and pins of the two site lists.
`rows()`, `row_key()`, `handler_kind()` are also used by harness/c07.py (the correspondence compares the
bits of the Binding objects that a running session actually dispatches with the table the proofs are about).
"""
from __future__ import annotations

import ast
import inspect
import os
import textwrap
import types

import gen_tables as G

# the bindings whose rules the fully modelled key sets of Ptk/Model/C07.lean look up (EKey.row, vRuleOf):
# their rows are repeated, with their index in `table`, in the small list `keyRows` (string comparisons
# are slow in the Lean kernel; a lookup in ~30 rows is cheap, one in ~600 rows is not)
WANTED = [
    ("named_commands.self_insert", "<any>"), ("named_commands.backward_delete_char", "c-h"),
    ("named_commands.delete_char", "delete"),
    ("named_commands.backward_char", "left"), ("named_commands.forward_char", "right"),
    ("named_commands.beginning_of_line", "home"), ("named_commands.end_of_line", "end"),
    ("named_commands.kill_line", "c-k"), ("named_commands.undo", "c-_"), ("named_commands.undo", "c-x+c-u"),
    ("named_commands.beginning_of_line", "c-a"), ("named_commands.end_of_line", "c-e"),
    ("named_commands.backward_char", "c-b"), ("named_commands.forward_char", "c-f"),
    ("named_commands.unix_line_discard", "c-u"),
    ("vi.load_vi_bindings._back_to_navigation", "escape"), ("vi.load_vi_bindings._i", "i"),
    ("vi.load_vi_bindings._a", "a"), ("vi.load_vi_bindings._A", "A"), ("vi.load_vi_bindings._delete", "x"),
    ("vi.load_vi_bindings._delete_before_cursor", "X"), ("vi.load_vi_bindings._undo", "u"),
    ("vi.load_vi_bindings._arg", "2"), ("vi.load_vi_bindings._arg", "3"),
    ("vi.load_vi_bindings._insert_text_multiple_cursors", "<any>"),
]

KIND_ATTRS = {"undo": 1, "redo": 2, "save_to_undo_stack": 3}
STACK_ATTRS = ("_undo_stack", "_redo_stack")


def probe_rule(binding):
    """the binding's save_before as a function of is_repeat -> (r0, r1)"""
    out = []
    for rep in (False, True):
        ev = types.SimpleNamespace(is_repeat=rep, arg=1, arg_present=False, data="", key_sequence=[],
                                   previous_key_sequence=[])
        try:
            out.append(bool(binding.save_before(ev)))
        except Exception:
            out.append(True)
    return tuple(out)


def handler_name(h) -> str:
    mod = getattr(h, "__module__", None) or "?"
    qn = getattr(h, "__qualname__", None) or type(h).__name__
    return mod.split(".")[-1] + "." + qn.replace(".<locals>", "")


_KIND_CACHE: dict = {}


def handler_kind(h) -> int:
    """1 / 2 / 3 when the source of the handler itself calls .undo() / .redo() / .save_to_undo_stack()"""
    code = getattr(h, "__code__", None)
    key = code or id(h)
    if key in _KIND_CACHE:
        return _KIND_CACHE[key]
    kind = 0
    try:
        tree = ast.parse(textwrap.dedent(inspect.getsource(h)))
        for node in ast.walk(tree):
            if isinstance(node, ast.Call) and isinstance(node.func, ast.Attribute) and node.func.attr in KIND_ATTRS:
                kind = max(kind, KIND_ATTRS[node.func.attr]) if kind == 0 else kind
    except Exception:
        kind = 0
    _KIND_CACHE[key] = kind
    return kind


def keys_str(binding) -> str:
    return "+".join(str(getattr(k, "value", k)) for k in binding.keys)


def row_key(binding):
    r0, r1 = probe_rule(binding)
    return (handler_name(binding.handler), keys_str(binding), r0, r1, handler_kind(binding.handler))


def session_bindings(session):
    """every Binding object the key processor of this session can be handed, from any focused window"""
    from prompt_toolkit.application.application import _CombinedRegistry

    app = session.app
    reg = _CombinedRegistry(app)
    others = list(app.layout.find_all_controls())
    for w in app.layout.find_all_windows():
        yield from reg._create_key_bindings(w, others).bindings


def rows():
    from prompt_toolkit import PromptSession
    from prompt_toolkit.input import DummyInput
    from prompt_toolkit.output import DummyOutput

    s = PromptSession(input=DummyInput(), output=DummyOutput(), enable_system_prompt=True,
                      enable_open_in_editor=True, enable_suspend=True)
    return sorted({row_key(b) for b in session_bindings(s)})


def sites():
    import prompt_toolkit

    root = os.path.dirname(prompt_toolkit.__file__)
    stack, calls = set(), set()
    for dp, _dn, fns in os.walk(root):
        for fn in fns:
            if not fn.endswith(".py"):
                continue
            path = os.path.join(dp, fn)
            rel = os.path.relpath(path, root)
            try:
                tree = ast.parse(open(path, encoding="utf-8").read())
            except Exception:
                stack.add(f"{rel}:<unparsable>")
                continue

            def walk(node, qual):
                for ch in ast.iter_child_nodes(node):
                    q = qual
                    if isinstance(ch, (ast.FunctionDef, ast.AsyncFunctionDef, ast.ClassDef)):
                        q = (qual + "." if qual else "") + ch.name
                    if isinstance(ch, ast.Attribute) and ch.attr in STACK_ATTRS:
                        stack.add(f"{rel}:{qual or '<module>'}:{ch.attr}")
                    if isinstance(ch, ast.Call) and isinstance(ch.func, ast.Attribute) and ch.func.attr in KIND_ATTRS:
                        calls.add(f"{rel}:{qual or '<module>'}:{ch.func.attr}")
                    walk(ch, q)

            walk(tree, "")
    return sorted(stack), sorted(calls)


def probe_ro() -> bool:
    from prompt_toolkit.buffer import Buffer
    from prompt_toolkit.filters import Condition

    ro = [False]
    b = Buffer(read_only=Condition(lambda: ro[0]))
    b.save_to_undo_stack()
    b.insert_text("a")
    b.save_to_undo_stack()
    b.insert_text("b")
    b.undo()                      # -> "a", redo = [("ab", 2)]
    before = (list(b._undo_stack), list(b._redo_stack), b.text)
    ro[0] = True
    for f in (b.undo, b.redo):
        try:
            f()
        except Exception:
            pass
    return (list(b._undo_stack), list(b._redo_stack), b.text) == before


def generate() -> None:
    try:
        table = rows()
    except Exception as e:  # broken tree: keep the model compilable; gen_ok / the correspondence report it
        table = [("<generator failed: %s>" % type(e).__name__, "", True, True, 0)]
    try:
        stack, calls = sites()
    except Exception:
        stack, calls = ["<generator failed>"], ["<generator failed>"]
    try:
        ro = probe_ro()
    except Exception:
        ro = False
    lb = lambda x: "true" if x else "false"
    body = "namespace Ptk.Gen.C07\n\n"
    body += ("/-- one key binding: handler, keys, `save_before` evaluated for is_repeat = false / true (read from the\n"
             "    real Binding object), and whether the handler's source calls undo (1) / redo (2) / save_to_undo_stack (3) -/\n")
    body += "structure Row where\n  name : String\n  keys : String\n  r0 : Bool\n  r1 : Bool\n  kind : Nat\nderiving Repr, DecidableEq\n\n"
    body += "def table : List Row := [\n"
    body += ",\n".join(f"  ⟨{G.lstr(n)}, {G.lstr(k)}, {lb(r0)}, {lb(r1)}, {kd}⟩" for n, k, r0, r1, kd in table)
    body += "]\n\n"
    row = lambda r: f"⟨{G.lstr(r[0])}, {G.lstr(r[1])}, {lb(r[2])}, {lb(r[3])}, {r[4]}⟩"
    krows = [(i, r) for w in WANTED for i, r in enumerate(table) if (r[0], r[1]) == w]
    body += ("/-- the rows of the bindings the fully modelled key sets use, each with its index in `table`\n"
             "    (`Ptk.Props.C07Table.gen_keyRows_ok` re-checks `table[i]? = some row`) -/\n")
    body += "def keyRows : List (Nat × Row) := [\n" + ",\n".join(f"  ({i}, {row(r)})" for i, r in krows) + "]\n\n"
    body += "/-- every `<file>:<function>:<attribute>` of src/prompt_toolkit that mentions the undo / redo stack -/\n"
    body += "def stackSites : List String := [\n" + ",\n".join("  " + G.lstr(s) for s in stack) + "]\n\n"
    body += "/-- every `<file>:<function>:<method>` that calls `.undo()` / `.redo()` / `.save_to_undo_stack()` -/\n"
    body += "def callSites : List String := [\n" + ",\n".join("  " + G.lstr(s) for s in calls) + "]\n\n"
    body += ("/-- `Buffer.undo()` / `Buffer.redo()` on a read-only buffer leave both stacks alone (probed by behaviour) -/\n")
    body += f"def roChecksFirst : Bool := {lb(ro)}\n\n"
    body += "end Ptk.Gen.C07\n"
    G.write("C07.lean", body)


if __name__ == "__main__":
    generate()
    t = rows()
    print(len(t), "rows;", [r for r in t if not (r[2] and r[3]) or r[4]])
    print(sites())
    print("roChecksFirst", probe_ro())
