"""
C09 plug-in for gen_tables.py: emits into lean/Ptk/Gen/C09.lean the constants of the current
/repo tree that the kill-ring / register model mirrors:

  * the two regex pattern strings used by the word-kill commands
    (`document._FIND_WORD_RE`, `document._FIND_BIG_WORD_RE`) — the hand-written scanner in
    lean/Ptk/Model/C09.lean is valid for exactly these patterns and pins them with
    `example : Gen.C09.findWordRe = "..." := by decide`;
  * `InMemoryClipboard.__init__`'s default `max_size`;
  * `vi.vi_register_names`;
  * the named command (or handler function) behind every Emacs key chord the correspondence types
    (`emacsKeyCommands`: which readline command `C-k`, `M-d`, `c-delete`, `C-w`, ... are bound to in
    load_basic_bindings / load_emacs_bindings / load_emacs_shift_selection_bindings) and behind the
    Vi keys (`viKeyHandlers`) — pinned in lean/Ptk/Model/C09Ext.lean, so that rebinding a key to another
    command breaks the build before any case runs;
  * two behaviour probes for repairs proposed by other checks that touch code modelled here, so that
    the model follows the tree before and after they land:
    `killWordNegFixed` (proposed_fixes/C01-kill-word-negative-arg.diff: kill-word with a negative
    argument kills backward instead of passing a negative count to Buffer.delete) and
    `unknownRegDeleteFixed` (proposed_fixes/C08-unknown-register-delete.diff: `"Ad` with a register
    name outside vi_register_names does nothing instead of deleting text that is stored nowhere).
"""
from __future__ import annotations

import inspect

import gen_tables as G


def generate() -> None:
    import prompt_toolkit.document as D
    from prompt_toolkit.clipboard import InMemoryClipboard
    from prompt_toolkit.key_binding.bindings import vi

    body = "namespace Ptk.Gen.C09\n\n"
    for lean_name, py_name in [("findWordRe", "_FIND_WORD_RE"), ("findBigWordRe", "_FIND_BIG_WORD_RE")]:
        rx = getattr(D, py_name)
        body += f"/-- `document.{py_name}.pattern` -/\n"
        body += f"def {lean_name} : String := {G.lstr(rx.pattern)}\n"
        body += f"/-- `document.{py_name}.flags` (32 = re.UNICODE only) -/\n"
        body += f"def {lean_name}Flags : Nat := {int(rx.flags)}\n\n"
    sig = inspect.signature(InMemoryClipboard.__init__)
    body += "/-- default `max_size` of `InMemoryClipboard` -/\n"
    body += f"def defaultMaxSize : Nat := {int(sig.parameters['max_size'].default)}\n\n"
    body += "/-- `vi.vi_register_names` -/\n"
    body += f"def viRegisterNames : String := {G.lstr(vi.vi_register_names)}\n\n"
    body += "/-- behaviour probe: kill-word with a negative argument kills backward -/\n"
    body += f"def killWordNegFixed : Bool := {'true' if probe_kill_word_neg() else 'false'}\n\n"
    body += "/-- behaviour probe: a delete operator with an unknown register name does nothing -/\n"
    body += f"def unknownRegDeleteFixed : Bool := {'true' if probe_unknown_reg_delete() else 'false'}\n\n"
    body += "/-- key chord -> `source:command` of every binding with exactly these keys, in load order -/\n"
    body += "def emacsKeyCommands : List (String × String) := [\n"
    body += ",\n".join(f"  ({G.lstr(k)}, {G.lstr(v)})" for k, v in emacs_key_commands()) + "]\n\n"
    body += "/-- Vi key sequence -> handler function(s) bound to it in load_vi_bindings -/\n"
    body += "def viKeyHandlers : List (String × String) := [\n"
    body += ",\n".join(f"  ({G.lstr(k)}, {G.lstr(v)})" for k, v in vi_key_handlers()) + "]\n\n"
    body += "end Ptk.Gen.C09\n"
    G.write("C09.lean", body)


EMACS_CHORDS = [("c-k",), ("c-u",), ("escape", "d"), ("c-delete",), ("c-w",), ("escape", "c-h"), ("c-y",),
                ("escape", "y"), ("c-f",), ("c-b",), ("c-@",), ("escape", "w"), ("s-left",), ("s-right",),
                ("c-h",), ("escape",), ("delete",)]
VI_CHORDS = [("x",), ("X",), ("s",), ("D",), ("C",), ("d", "d"), ("y", "y"), ("Y",), ("c", "c"), ("S",), ("p",),
             ("P",), ('"', "<any>", "p"), ('"', "<any>", "P"), ("v",), ("V",), ("c-v",)]


def _key_str(k) -> str:
    return str(getattr(k, "value", k))


def _bindings_with(kb, keys):
    from prompt_toolkit.key_binding.bindings import named_commands
    names = {id(b.handler): n for n, b in named_commands._readline_commands.items()}
    out = []
    for b in kb.bindings:
        if tuple(_key_str(k) for k in b.keys) == keys:
            name = names.get(id(b.handler), b.handler.__qualname__.split(".")[-1])
            if name != "_ignore":
                out.append(name)
    return out


def emacs_key_commands():
    from prompt_toolkit.key_binding.bindings import basic, emacs
    srcs = [("basic", basic.load_basic_bindings()), ("emacs", emacs.load_emacs_bindings()),
            ("shift", emacs.load_emacs_shift_selection_bindings())]
    rows = []
    for keys in EMACS_CHORDS:
        found = [f"{src}:{n}" for src, kb in srcs for n in _bindings_with(kb, keys)]
        rows.append((" ".join(keys), ",".join(found)))
    return rows


def vi_key_handlers():
    from prompt_toolkit.key_binding.bindings import vi
    kb = vi.load_vi_bindings()
    rows = []
    for keys in VI_CHORDS:
        rows.append((" ".join(keys), ",".join(_bindings_with(kb, keys))))
    return rows


def probe_kill_word_neg() -> bool:
    """`kill-word` with argument -1 on 'foo |bar baz qux': True when nothing AFTER the cursor is
    deleted (kills backward), False when text after the cursor disappears"""
    from types import SimpleNamespace

    from prompt_toolkit.buffer import Buffer
    from prompt_toolkit.clipboard import InMemoryClipboard
    from prompt_toolkit.document import Document
    from prompt_toolkit.key_binding.bindings.named_commands import get_by_name

    b = Buffer(document=Document("foo bar baz qux", 4))
    ev = SimpleNamespace(current_buffer=b, arg=-1, is_repeat=False, data="",
                         app=SimpleNamespace(clipboard=InMemoryClipboard(),
                                             emacs_state=SimpleNamespace(last_kill_word_killed=False),
                                             output=SimpleNamespace(bell=lambda: None)))
    try:
        get_by_name("kill-word").handler(ev)
    except Exception:
        return False
    return b.text.endswith("bar baz qux")


def probe_unknown_reg_delete() -> bool:
    """`"Ad` on a selection: True when the text is left alone"""
    from types import SimpleNamespace

    from prompt_toolkit.buffer import Buffer
    from prompt_toolkit.clipboard import InMemoryClipboard
    from prompt_toolkit.document import Document
    from prompt_toolkit.key_binding.bindings import vi
    from prompt_toolkit.key_binding.key_processor import KeyPress
    from prompt_toolkit.selection import SelectionState, SelectionType

    try:
        kb = vi.load_vi_bindings()
        hs = [b for b in kb.bindings if tuple(_key_str(k) for k in b.keys) == ('"', "<any>", "d")
              and b.handler.__name__ == "_operator_in_selection"]
        b = Buffer(document=Document("abc", 1))
        b.selection_state = SelectionState(0, SelectionType.CHARACTERS)
        ev = SimpleNamespace(current_buffer=b, key_sequence=[KeyPress('"'), KeyPress("A"), KeyPress("d")], arg=1,
                             app=SimpleNamespace(clipboard=InMemoryClipboard(),
                                                 vi_state=SimpleNamespace(named_registers={}, input_mode=None)))
        hs[0].handler(ev)
        return b.text == "abc"
    except Exception:
        return False
