"""
C09 plug-in for gen_tables.py: emits into lean/Ptk/Gen/C09.lean the constants of the current
/repo tree that the kill-ring / register model mirrors:

  * the two regex pattern strings used by the word-kill commands
    (`document._FIND_WORD_RE`, `document._FIND_BIG_WORD_RE`) — the hand-written scanner in
    lean/Ptk/Model/C09.lean is valid for exactly these patterns and pins them with
    `example : Gen.C09.findWordRe = "..." := by decide`;
  * `InMemoryClipboard.__init__`'s default `max_size`;
  * `vi.vi_register_names`;
  * the threshold / replacement of `KeyPressEvent.arg` ("don't exceed a million").
"""
from __future__ import annotations

import inspect

import gen_tables as G


def generate() -> None:
    import prompt_toolkit.document as D
    from prompt_toolkit.clipboard import InMemoryClipboard
    from prompt_toolkit.key_binding.bindings import vi

    body = "namespace Ptk.Gen.C09\n\n"
    for lean_name, py_name in [("findWordRe", "_FIND_WORD_RE"), ("findBigWordRe", "_FIND_BIG_WORD_RE")]:
        rx = getattr(D, py_name)
        body += f"/-- `document.{py_name}.pattern` -/\n"
        body += f"def {lean_name} : String := {G.lstr(rx.pattern)}\n"
        body += f"/-- `document.{py_name}.flags` (32 = re.UNICODE only) -/\n"
        body += f"def {lean_name}Flags : Nat := {int(rx.flags)}\n\n"
    sig = inspect.signature(InMemoryClipboard.__init__)
    body += "/-- default `max_size` of `InMemoryClipboard` -/\n"
    body += f"def defaultMaxSize : Nat := {int(sig.parameters['max_size'].default)}\n\n"
    body += "/-- `vi.vi_register_names` -/\n"
    body += f"def viRegisterNames : String := {G.lstr(vi.vi_register_names)}\n\n"
    body += "end Ptk.Gen.C09\n"
    G.write("C09.lean", body)
