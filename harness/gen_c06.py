#!/venv/bin/python
"""
C06 tables: re-extracted from the live objects of the CURRENT tree on every run and written to
lean/Ptk/Gen/C06Vt.lean (only rewritten when the content changes).

  output/vt100.py   FG_ANSI_COLORS, BG_ANSI_COLORS, ANSI_COLORS_TO_RGB (dict order), _256_colors.colors,
                    the escape sequences written by the parameterless emitters of a fresh Vt100_Output
                    (erase_screen, erase_down, hide_cursor, ...), by set_cursor_shape for every CursorShape,
                    and sample renderings of the emitters that take an amount / a position
                    (cursor_up/down/forward/backward for 0, 1, 2, 10, 123; cursor_goto)

The Lean encoder (Ptk/Model/C06Vt.lean) takes the fixed sequences and the colour tables from here; the
theorems pin them (`gen_fixed_ok`, `gen_samples_ok` in Ptk/Props/C06Vt.lean): a change of one of these
strings in /repo breaks the build at the pin and is then searched for by the oracle.
"""
from __future__ import annotations

import io

import gen_tables as G

FIXED = ["erase_screen", "enter_alternate_screen", "quit_alternate_screen", "enable_mouse_support",
         "disable_mouse_support", "erase_end_of_line", "erase_down", "reset_attributes", "disable_autowrap",
         "enable_autowrap", "enable_bracketed_paste", "disable_bracketed_paste", "reset_cursor_key_mode",
         "hide_cursor", "show_cursor", "ask_for_cpr", "scroll_buffer_to_prompt"]
AMOUNTS = [0, 1, 2, 9, 10, 123]
MOVES = ["cursor_up", "cursor_down", "cursor_forward", "cursor_backward"]
GOTOS = [(0, 0), (1, 1), (3, 12), (10, 7)]


def ltext(s: str) -> str:
    return "[" + ", ".join(f"Char.ofNat {ord(c)}" for c in s) + "]"


def camel(name: str) -> str:
    parts = name.split("_")
    return parts[0] + "".join(p.capitalize() for p in parts[1:])


def llist(items, per_line=4) -> str:
    items = list(items)
    if not items:
        return "[]"
    rows = [", ".join(items[i:i + per_line]) for i in range(0, len(items), per_line)]
    return "[\n  " + ",\n  ".join(rows) + "]"


def emitted(call) -> str:
    from prompt_toolkit.data_structures import Size
    from prompt_toolkit.output.vt100 import Vt100_Output
    buf = io.StringIO()
    out = Vt100_Output(buf, lambda: Size(rows=24, columns=80), term="xterm", enable_cpr=False)
    call(out)
    out.flush()
    return buf.getvalue()


def generate() -> None:
    """never raises (every check imports every plug-in): a Gen file that does not compile is written instead"""
    try:
        _generate()
    except Exception as e:  # noqa: BLE001
        msg = (type(e).__name__ + ": " + str(e)).replace("\n", " ")[:300]
        G.write("C06Vt.lean", "-- table extraction from the current tree FAILED: " + msg +
                "\nexample : False := by decide\n")


def _generate() -> None:
    from prompt_toolkit.cursor_shapes import CursorShape
    from prompt_toolkit.output import vt100

    b = "namespace Ptk.Gen.C06\n\n"
    b += "/-- output/vt100.py FG_ANSI_COLORS (dict order) -/\n"
    b += "def fgAnsi : List (List Char × Nat) := " + llist(
        (f"({ltext(k)}, {int(v)})" for k, v in vt100.FG_ANSI_COLORS.items()), 2) + "\n\n"
    b += "/-- output/vt100.py BG_ANSI_COLORS (dict order) -/\n"
    b += "def bgAnsi : List (List Char × Nat) := " + llist(
        (f"({ltext(k)}, {int(v)})" for k, v in vt100.BG_ANSI_COLORS.items()), 2) + "\n\n"
    b += "/-- output/vt100.py ANSI_COLORS_TO_RGB (dict order: the closest-colour search keeps the first minimum) -/\n"
    b += "def ansiRgb : List (List Char × (Nat × Nat × Nat)) := " + llist(
        (f"({ltext(k)}, ({int(v[0])}, {int(v[1])}, {int(v[2])}))" for k, v in vt100.ANSI_COLORS_TO_RGB.items()),
        2) + "\n\n"
    b += "/-- output/vt100.py _256_colors.colors -/\n"
    b += "def palette : List (Nat × Nat × Nat) := " + llist(
        (f"({int(r)}, {int(g)}, {int(bb)})" for (r, g, bb) in vt100._256_colors.colors), 8) + "\n\n"
    b += "/-! the text written by the parameterless emitters of a fresh `Vt100_Output` -/\n"
    for name in FIXED:
        b += f"def {camel(name)} : List Char := {ltext(emitted(lambda o, n=name: getattr(o, n)()))}\n"
    b += "\n/-- `hide_cursor()` when the cursor is already hidden / `show_cursor()` when it is already shown -/\n"
    b += "def hideCursorAgain : List Char := " + ltext(
        emitted(lambda o: (o.hide_cursor(), o.flush(), o.stdout.seek(0), o.stdout.truncate(), o.hide_cursor()))) + "\n"
    b += "def showCursorAgain : List Char := " + ltext(
        emitted(lambda o: (o.show_cursor(), o.flush(), o.stdout.seek(0), o.stdout.truncate(), o.show_cursor()))) + "\n"
    b += "\n/-- `reset_cursor_shape()`: on a fresh output, and after a `set_cursor_shape` that changed the shape -/\n"
    b += "def resetCursorShapeFresh : List Char := " + ltext(emitted(lambda o: o.reset_cursor_shape())) + "\n"
    b += "def resetCursorShapeChanged : List Char := " + ltext(emitted(
        lambda o: (o.set_cursor_shape(CursorShape.BLOCK), o.flush(), o.stdout.seek(0), o.stdout.truncate(),
                   o.reset_cursor_shape()))) + "\n"
    b += "\n/-- `set_cursor_shape(shape)` for every member of `CursorShape`, in definition order -/\n"
    b += "def shapeCodes : List (List Char) := " + llist(
        (ltext(emitted(lambda o, s=s: o.set_cursor_shape(s))) for s in CursorShape), 4) + "\n\n"
    b += "/-- sample renderings `(emitter index in [up, down, forward, backward], amount, text)` -/\n"
    b += "def moveSamples : List (Nat × Nat × List Char) := " + llist(
        (f"({i}, {n}, {ltext(emitted(lambda o, m=m, n=n: getattr(o, m)(n)))})"
         for i, m in enumerate(MOVES) for n in AMOUNTS), 3) + "\n\n"
    b += "/-- sample renderings of `cursor_goto(row, column)` -/\n"
    b += "def gotoSamples : List (Nat × Nat × List Char) := " + llist(
        (f"({r}, {c}, {ltext(emitted(lambda o, r=r, c=c: o.cursor_goto(r, c)))})" for (r, c) in GOTOS), 2) + "\n\n"
    b += "end Ptk.Gen.C06\n"
    G.write("C06Vt.lean", b)


if __name__ == "__main__":
    generate()
