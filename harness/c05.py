#!/venv/bin/python
"""C05 — no key sequence can crash the line editor or break its state invariants.

PARTIAL by design (DESIGN.md §7 C05):
  * Lean theorems (Ptk.Props.C05) cover the choke points through which every handler acts:
    the Buffer state-writing API, _call_handler/_fix_vi_cursor_position, the ViState mode setter,
    EditReadOnlyBuffer swallowing, the accept handler;
  * the model of those choke points is tied to /repo by a differential correspondence
    (kinds "api", "call", "accept") AND by a trace refinement (kind "keys"): the real editor is
    driven key by key with its two Buffers switched to a tracing subclass; the API calls the real
    handlers performed are replayed on the Lean model and the buffer states are compared after
    every call and after every key;
  * crash-freedom and the invariants of the whole ~400-handler state machine are decided by
    SEARCH (enumerated + random key sequences on the real editor, invariants asserted after every
    key).  That part is exploration, not proof, and is labelled so in the evidence.
"""
from __future__ import annotations

import asyncio
import hashlib
import json
import os
import signal
import sys
import traceback
from collections import deque

sys.path.insert(0, os.path.dirname(os.path.abspath(__file__)))
import core
from core import enc_str, enc_bool, enc_opt_int

import c05_editor as E
import c05_skel as S
from prompt_toolkit.buffer import Buffer, EditReadOnlyBuffer
from prompt_toolkit.document import Document
from prompt_toolkit.enums import EditingMode
from prompt_toolkit.filters import Condition, vi_navigation_mode
from prompt_toolkit.key_binding.key_bindings import Binding
from prompt_toolkit.key_binding.key_processor import KeyPress
from prompt_toolkit.key_binding.vi_state import InputMode
from prompt_toolkit.selection import SelectionState, SelectionType
from prompt_toolkit.validation import ValidationError, Validator

ID = "C05"
DRIVER = "drv_c05"
PROPS = ["Ptk.Props.C05", "Ptk.Props.C05Skel", "Ptk.Props.C05Api"]
ANCHORS = ["src/prompt_toolkit/buffer.py", "src/prompt_toolkit/key_binding/key_processor.py",
           "src/prompt_toolkit/key_binding/vi_state.py", "src/prompt_toolkit/key_binding/bindings/vi.py",
           "src/prompt_toolkit/key_binding/bindings/emacs.py", "src/prompt_toolkit/key_binding/bindings/basic.py",
           "src/prompt_toolkit/key_binding/bindings/named_commands.py",
           "src/prompt_toolkit/key_binding/bindings/search.py",
           "src/prompt_toolkit/key_binding/bindings/completion.py", "src/prompt_toolkit/shortcuts/prompt.py",
           "src/prompt_toolkit/filters/app.py", "src/prompt_toolkit/search.py",
           "src/prompt_toolkit/key_binding/key_bindings.py", "src/prompt_toolkit/key_binding/emacs_state.py"]
TECHNIQUE = ("Lean 4 proof over hand-written executable models (the editor's choke points; the MODE SKELETON run over the "
             "regenerated table of all key bindings) + differential correspondence, API-trace refinement and per-key "
             "skeleton refinement against the real editor + key-sequence search (partial)")
LEVEL_TEXT = ("PARTIAL. Three Lean 4 models, all tied to /repo on every run. (1) MODE SKELETON: the projection of the editor "
              "to (Vi input mode, temporary navigation mode, pending operator + count, digraph wait + symbol, selection "
              "type / shift mode of the default and the search buffer, quoted insert, Vi/Emacs macro recording, numeric "
              "argument, search focus, key buffer, input queue); the model runs KeyProcessor._process / process_keys / "
              "_call_handler over the table of ALL 606 key bindings of a PromptSession (keys, filter expression, eager, "
              "handler; regenerated from the running code), evaluates the filters of filters/app.py on the skeleton "
              "and applies a hand-written skeleton effect per handler (228 handler labels; the labels and the skeleton-"
              "relevant statements of every handler body are regenerated and pinned). PROVED for every "
              "table satisfying kernel-decided side conditions, every skeleton state, key and data value: outside a "
              "quoted insert and with no key sequence pending, Escape calls exactly one handler and ends in NAVIGATION "
              "with no pending operator, count or digraph (including a selection started by C-o v while input_mode is "
              "INSERT); a second Escape changes nothing; a quoted insert lasts exactly one key; in Emacs mode Escape ends an "
              "incremental search at once (eager binding) although it is a prefix key; the numeric argument lasts for "
              "exactly one command; keys arriving after the application is done are not executed; by induction over "
              "arbitrary key sequences: at most one of {pending operator, digraph wait, selection} and exactly one of "
              "the eight Vi mode filters holds in every reachable state. (2) CHOKE POINTS: for every program over the "
              "Buffer state-writing API 0 <= cursor <= len(text), selection anchor and multiple cursors stay inside the "
              "text, undo/redo never build an ill-formed Document; _fix_vi_cursor_position after an arbitrary handler; "
              "input_mode=NAVIGATION clears operator and digraph; EditReadOnlyBuffer never leaves _call_handler; accept "
              "hands exactly the buffer text to exit(). (3) EXTENDED BUFFER API with all integer arguments (negative, zero, "
              "oversized counts and indices; Python wrap-around indexing and slicing; assert / IndexError as outcomes): "
              "yank_nth_arg / yank_last_arg with YankNthArgState and the _QUOTED_WORDS_RE split, auto_up / auto_down, "
              "cursor_up / cursor_down, completions (_set_completions, go_to_completion with go_to_index / "
              "new_text_and_position, complete_next / previous, cancel, apply_completion), copy / cut_selection, "
              "paste_clipboard_data, transform_lines / current_line / region, join_next_line / join_selected_lines, "
              "swap_characters_before_cursor, newline / insert_line_above / below, the text coming back from "
              "open_in_editor. PROVED: every program over this API keeps cursor, anchor, multiple cursors inside the text "
              "and the selected completion inside the completion list, and NO call ends with anything but a normal "
              "return or EditReadOnlyBuffer - with no precondition at all for the methods handlers reach with an "
              "arbitrary numeric argument (auto_up, auto_down, yank_nth_arg, yank_last_arg, history_forward / backward, "
              "go_to_history, cursor moves, inserts, deletes, joins, swaps, undo / redo: words[state.n], "
              "history_strings[new_pos], completions[index] are never indexed out of range), and inside the asserted "
              "domain for the others (transform_region from < to, go_to_completion index in range, complete_next / "
              "previous count >= 0, cursor_up / down count >= 1, join_selected_lines with a selection, "
              "apply_completion start_position <= 0); outside the domain the model asserts exactly where the code does "
              "(witness theorems). Tie: differential correspondence of the API, replay of every API "
              "call the real handlers make, and after EVERY key of every session the model's skeleton, the handlers it "
              "dispatched and its filter values are compared with the real editor. Crash-freedom ('no exception "
              "escapes') and the cursor invariants of the individual key handlers are decided by SEARCH only "
              "(enumerated and random key sequences on the real editor, invariants asserted after every key)")
LEVEL_NOTE = ("trusted: Lean kernel, axioms propext/Classical.choice/Quot.sound only; the hand-written models "
              "(correspondence-, trace- and per-key skeleton-checked, not proved equal to the Python); per handler call "
              "the model receives observed DATA bits (text changed, EditReadOnlyBuffer raised, anchor written, cursor "
              "moved, application finished) and the values of the filter atoms it does not evaluate itself - the theorems "
              "hold for every value of them; the AST pin of the writes that by-pass the Buffer API; the key-sequence "
              "part is search, not proof")
RULE = ("api: every single op from every small state (exhaustive), then seeded random API programs; api2: every "
        "single call of the extended API with integer arguments from {-7,-2,-1,0,1,2,3,9} (and all pairs for "
        "transform_region) from sampled small states (text x cursor x history x read-only x selection x completion "
        "/ yank state), then seeded random programs mixing old and new calls; every exception class is compared; "
        "qw: the _QUOTED_WORDS_RE scanner against re; call: random "
        "handler programs through the real KeyProcessor._call_handler under random Vi states; accept: "
        "validate_and_handle with/without a failing validator; keys: every single bound key and (thorough) every "
        "key pair from Vi navigation / Vi insert / Emacs states, then seeded random key sequences (length <= 60, "
        "numeric arguments, registers, macros, searches, pastes) over emacs/vi x single/multi-line x "
        "read-only/writable x documents incl. empty text, empty lines, wide chars, with history and clipboard; "
        "skeleton: every sequence of key-class representatives up to a length bound from 8 start modes, the "
        "temporary-navigation families (insert/replace/search mode, C-o, selection/operator/digraph/count/<any> key, "
        "motions, Escape, probe key) and selection+Escape from every mode. After every key the model's skeleton, "
        "dispatched handlers and filter values are compared with the real editor. A case is non-trivial when at "
        "least one op / key changes the buffer state or calls a handler")
EXHAUSTIVE = True
EXHAUSTIVE_SCOPE = {
    "quick": "api: texts over {a,\\n} len<=2 x all cursors x every single op; keys: every bound key once from 5 "
             "editor states x 3 documents; Vi block insert (C-v motion I|A + one key) and completion-menu "
             "sequences (starter, count, navigation key) in full; samples of the other thorough families; skeleton: "
             "all pairs over 34 Vi key-class representatives from navigation mode, 13 command keys x 34 from insert "
             "mode, 20 x 37 Emacs pairs, every single representative (54 Vi / 37 Emacs) from 8 start modes, the C-o "
             "families (4 modes x 21 heads x 4 motions) and selection+Escape (8 modes x 9 selection keys x rw/ro) in full",
    "thorough": "api: texts over {a,\\n,世} len<=3 x all cursors x every single op; keys: every bound key once "
                "from 5 editor states x 3 documents, and every ordered pair over 116 keys (all named keys + 48 "
                "printable command keys) from Vi navigation, and named-first pairs from Vi insert and Emacs; the Vi "
                "grammar [count] operator (12) x motion/text-object (79) x 3 documents and visual mode (3) x object x "
                "operator (14); Emacs numeric arguments (-, 0, -3, 12) before every key x 3 documents x 3 clipboards; Vi block insert "
                "(10 motions x I|A x all 1- and 2-key tails over 7 keys x 5 documents); completion menus (starter x "
                "count x navigation x navigation, Vi and Emacs, 3 documents); skeleton: all pairs over 54 Vi / 37 Emacs "
                "key-class representatives from 8 start modes, triples (8 + 18 first keys) x 34 x 34 in Vi and "
                "12 x 24 x 24 in Emacs, the C-o and selection+Escape families in full",
}
TRUSTED = ["harness/c05.py + c05_editor.py: the tracing Buffer subclass logs every call of a state-writing primitive "
           "(outermost only) and the state after it; key sessions are run once per check, inside the generating "
           "worker, which also pipes the logged calls through the compiled Lean driver and compares line by line "
           "(core.py gets the full line lists only for sessions that diverged, and on --replay)",
           "harness/c05_skel.py + SkSession: print the skeleton projection of the live editor, the handler that "
           "KeyProcessor._call_handler was given (label = module:qualified name + closed-over configuration), the "
           "value of every filter Condition before / after every handler call, and the observed data bits of the call",
           "Ptk/Model/C05.lean is a hand translation of the Buffer state-writing API, _call_handler, "
           "_fix_vi_cursor_position, vi_navigation_mode, ViState.input_mode/reset, validate_and_handle",
           "Ptk/Model/C05Skel.lean + C05SkelTable.lean are hand translations of filters/app.py, "
           "KeyProcessor._process/process_keys/_call_handler, get_bindings_for_keys/_starting_with_keys and of the "
           "skeleton writes of each handler; Gen/C05Bindings.lean (the binding table, atom / handler / key names) is "
           "regenerated from a live PromptSession by harness/gen_c05.py, together with the pruned source of every "
           "handler body (c05_skel.handler_writes_full: the statements that can write to the skeleton, in order, with their "
           "control flow and early returns, plus the body of the Vi operator function a binding closes over) which handler_writes_pin compares with the text each hand-written class was read off; the "
           "driver resolves atoms and handlers by NAME (theorems: by position, equal when atom_names_pin / "
           "handler_names_pin hold)",
           "Ptk/Model/C05Api.lean is a hand translation of the Buffer methods listed under (3); the scanner for "
           "_QUOTED_WORDS_RE is compared with `re` on every string over a 6-symbol alphabet up to length 5 (quick) / 6 "
           "(thorough) and the pattern string is pinned (quoted_words_re_pin); the runtime character classes (regex \\s, "
           "str.isspace, splitlines breaks) are parameters of the theorems, the driver uses Gen/PyChars",
           "Gen/C05.lean: AST scan of /repo for writes to Buffer private state / selection anchor / multiple cursors "
           "outside buffer.py, pinned by theorem bypass_pin",
           "the default key bindings object is shared between the Applications of one harness process (same "
           "handlers and filters; checked equal to fresh bindings on 500 sessions; C05_FRESH_BINDINGS=1 disables it)"]
ASSUMPTIONS = ["CPython str/list/deque semantics",
               "handlers touch the Buffer state only through the modelled API and the pinned by-passing writes "
               "(checked on every traced key session, not proved)",
               "skeleton: a PromptSession always has a BufferControl focused (buffer_has_focus), the search buffer is "
               "never read-only and has no accept handler, the editing mode is not changed by any binding, the binding "
               "table does not depend on the session options (all compared with the real editor after every key)",
               "skeleton: macro execution (Vi @x, Emacs C-x e) and the external editor feed keys back into the key "
               "processor; the model treats those keys as further input, the harness re-synchronises the skeleton "
               "after such a handler (counted in the evidence)",
               "Escape is judged when it is delivered as a key of its own; an Escape consumed as the <any> argument of "
               "a pending multi-key binding (f<Esc>, \"<Esc>...) is a recorded known finding (Lean: "
               "escape_any_slot_witness)",
               "key sessions run without a renderer (DummyOutput), timeouts are injected as explicit <flush> keys"]
PARTIAL_SCOPE = ["extended API: results of Document queries that live in document.py (cursor up / down position, "
                 "cut_selection, paste_clipboard_data, the margin of the current line) and of user callbacks "
                 "(transform_*) are arguments of the model (any value; Documents handed in must be well formed); "
                 "go_to_history with a negative index, indent / unindent / reshape_text, start_history_lines_completion "
                 "and the asynchronous completer / validator / suggester are not modelled; that a key handler stays "
                 "inside the asserted domains (Vi numeric arguments are >= 1; completion.py / menus.py pass counts >= 0) "
                 "is read off the callers, not proved",
                 "SEARCH, not proof: 'no exception escapes', and the cursor / anchor / multiple-cursor invariants of the "
                 "individual key handlers (~600 bindings), are only explored by enumerated/random key sequences on the "
                 "real editor",
                 "the skeleton theorems are about the MODEL of the key state machine; what each handler does to the text "
                 "enters as data (text changed / edit refused / ...), Document motions (C02), completion menus, "
                 "auto-suggest, mouse events, CPR, open-in-editor, system prompt and suspend are not modelled",
                 "escape_to_navigation assumes that no key sequence is pending in the key processor; with a pending "
                 "sequence the Escape may be consumed by an <any> slot (known finding) - the search half covers those",
                 "the writes that by-pass the API (vi.py text objects writing the selection anchor; block insert writing "
                 "multiple_cursor_positions) are pinned by an AST scan and covered by search only",
                 "hangs (e.g. a Vi macro register that re-executes itself) are outside the property; such sessions are "
                 "cut by a watchdog and counted, not reported"]
_VI = "src/prompt_toolkit/key_binding/bindings/vi.py"
_OPD = "create_operator_decorator.operator_decorator.decorator."
_TOD = "create_text_object_decorator.text_object_decorator.decorator."
MODELLED = {
    "src/prompt_toolkit/filters/app.py": [
        "buffer_has_focus", "control_is_searchable", "emacs_insert_mode", "emacs_mode", "has_arg", "has_focus.test",
        "has_selection", "is_read_only", "is_searching", "shift_selection_mode", "vi_digraph_mode", "vi_insert_mode",
        "vi_insert_multiple_mode", "vi_mode", "vi_navigation_mode", "vi_recording_macro", "vi_replace_mode",
        "vi_replace_single_mode", "vi_selection_mode", "vi_waiting_for_text_object_mode"],
    "src/prompt_toolkit/key_binding/key_processor.py": [
        "KeyProcessor._process", "KeyProcessor._get_matches", "KeyProcessor._is_prefix_of_longer_match",
        "KeyProcessor.process_keys", "KeyProcessor.feed", "KeyProcessor._call_handler",
        "KeyProcessor._fix_vi_cursor_position", "KeyProcessor._leave_vi_temp_navigation_mode",
        "KeyPressEvent.append_to_arg_count"],
    "src/prompt_toolkit/key_binding/key_bindings.py": [
        "KeyBindings.get_bindings_for_keys.get", "KeyBindings.get_bindings_starting_with_keys.get"],
    "src/prompt_toolkit/key_binding/vi_state.py": ["ViState.input_mode", "ViState.reset"],
    "src/prompt_toolkit/key_binding/emacs_state.py": ["EmacsState.is_recording", "EmacsState.start_macro",
                                                      "EmacsState.end_macro"],
    "src/prompt_toolkit/search.py": ["start_search", "stop_search", "accept_search"],
    "src/prompt_toolkit/key_binding/bindings/search.py": [
        "abort_search", "accept_search", "start_forward_incremental_search", "start_reverse_incremental_search"],
    "src/prompt_toolkit/key_binding/bindings/basic.py": [
        "in_quoted_insert", "load_basic_bindings._insert_text", "load_basic_bindings._newline2",
        "load_basic_bindings._cut"],
    "src/prompt_toolkit/key_binding/bindings/named_commands.py": ["quoted_insert", "start_kbd_macro", "end_kbd_macro"],
    "src/prompt_toolkit/key_binding/bindings/emacs.py": [
        "load_emacs_bindings._start_selection", "load_emacs_bindings._cancel_selection", "load_emacs_bindings._copy",
        "load_emacs_bindings._cut", "load_emacs_bindings._dash", "load_emacs_bindings._meta_dash",
        "load_emacs_bindings.handle_digit._", "load_emacs_shift_selection_bindings._start_selection",
        "load_emacs_shift_selection_bindings._extend_selection", "load_emacs_shift_selection_bindings._cancel",
        "load_emacs_shift_selection_bindings._delete", "load_emacs_shift_selection_bindings._newline",
        "load_emacs_shift_selection_bindings._replace_selection", "load_emacs_shift_selection_bindings._yank"],
    _VI: [_OPD + "_operator_in_navigation", _OPD + "_operator_in_selection", _TOD + "_apply_operator_to_text_object",
          _TOD + "_move_in_selection_mode", "digraph_symbol_1_given", "in_block_selection"] + [
        "load_vi_bindings." + n for n in (
            "_back_to_navigation _insert_mode _navigation_mode _a _A _i _I _change_until_end_of_line "
            "_change_current_line _substitute _open_above _open_below insert_in_block_selection _append_after_block "
            "_replace _replace_mode _replace_single _visual _visual_line _visual_block _visual2 _visual_line2 "
            "_visual_block2 _visual_auto_word _cut _digraph _digraph1 _create_digraph _quick_normal_mode _start_macro "
            "_stop_macro _0_arg create_delete_and_change_operators.delete_or_change_operator").split()],
    "src/prompt_toolkit/buffer.py": [
        "Buffer.cursor_position", "Buffer.text", "Buffer.set_document", "Buffer.working_index", "Buffer.reset",
        "Buffer._text_changed", "Buffer.save_to_undo_stack", "Buffer.undo", "Buffer.redo", "Buffer.start_selection",
        "Buffer.exit_selection", "Buffer.copy_selection", "Buffer.insert_text", "Buffer.delete",
        "Buffer.delete_before_cursor", "Buffer._set_history_search", "Buffer._history_matches",
        "Buffer.history_forward", "Buffer.history_backward", "Buffer.go_to_history", "Buffer.validate_and_handle",
        "Buffer._cursor_position_changed", "Buffer.yank_nth_arg", "Buffer.yank_last_arg", "Buffer.auto_up",
        "Buffer.auto_down", "Buffer.cursor_up", "Buffer.cursor_down", "Buffer.cut_selection",
        "Buffer.paste_clipboard_data", "Buffer.transform_lines", "Buffer.transform_current_line",
        "Buffer.transform_region", "Buffer.join_next_line", "Buffer.join_selected_lines",
        "Buffer.swap_characters_before_cursor", "Buffer.newline", "Buffer.insert_line_above",
        "Buffer.insert_line_below", "Buffer._set_completions", "Buffer.go_to_completion", "Buffer.complete_next",
        "Buffer.complete_previous", "Buffer.cancel_completion", "Buffer.apply_completion",
        "CompletionState.go_to_index", "CompletionState.new_text_and_position", "YankNthArgState.__init__"],
    "src/prompt_toolkit/shortcuts/prompt.py": ["PromptSession._create_default_buffer.accept"],
}

KEY_TIMEOUT_S = 30


# =====================================================================================
# state encoding (must equal Drivers/C05.lean encBuf / encVi)
# =====================================================================================
def enc_entry(e):
    return "N" if e is None else f"{enc_str(e[0])}@{e[1]}"


def enc_state(st):
    text, cur, idx, n, sel, multi, ul, rl, ut, rt, hs = st
    t = "X" if text is None else enc_str(text)
    s = "N" if sel is None else f"{sel[0]}:{sel[1]}"
    m = " ".join([str(len(multi))] + [str(p) for p in multi])
    return f"{t} {cur} {idx} {n} {s} [{m}] {ul} {rl} {enc_entry(ut)} {enc_entry(rt)} {'N' if hs is None else enc_str(hs)}"


def buf_state(b: Buffer):
    d = b.__dict__
    wl = d["_working_lines"]
    idx = d["_Buffer__working_index"]
    try:
        text = wl[idx]
    except IndexError:
        text = None
    s = d.get("selection_state")
    sel = None if s is None else (s.original_cursor_position, E.SEL_TYPES.get(s.type, 9))
    us, rs = d["_undo_stack"], d["_redo_stack"]
    return (text, d["_Buffer__cursor_position"], idx, len(wl), sel, tuple(d.get("multiple_cursor_positions", ())),
            len(us), len(rs), us[-1] if us else None, rs[-1] if rs else None, d.get("history_search_text"))


MODES = [InputMode.INSERT, InputMode.INSERT_MULTIPLE, InputMode.NAVIGATION, InputMode.REPLACE,
         InputMode.REPLACE_SINGLE]
SELT = [SelectionType.CHARACTERS, SelectionType.LINES, SelectionType.BLOCK]


def enc_opt_str(s):
    return "N" if s is None else enc_str(s)


def enc_vi(app) -> str:
    vs = app.vi_state
    return (f"{enc_bool(app.editing_mode == EditingMode.VI)} {MODES.index(vs.input_mode)} "
            f"{enc_bool(vs.operator_func is not None)} {enc_opt_int(vs.operator_arg)} "
            f"{enc_bool(vs.waiting_for_digraph)} {enc_opt_str(vs.digraph_symbol1)} "
            f"{enc_bool(vs.temporary_navigation_mode)} {enc_opt_str(vs.recording_register)} "
            f"{enc_str(vs.current_recording)} {enc_opt_str(app.key_processor.arg)} nav={enc_bool(vi_navigation_mode())}")


# =====================================================================================
# op encoding / execution on the real objects
# =====================================================================================
def op_tokens(op):
    """op (list) -> protocol tokens (without the leading 'op k')"""
    k = op[0]
    if k in ("text", "appendleft"):
        return f"{k} {enc_str(op[1])}"
    if k == "doc":
        return f"doc {enc_str(op[1])} {op[2]} {enc_bool(op[3])}"
    if k == "reset":
        return f"reset {enc_str(op[1])} {op[2]}"
    if k == "save":
        return f"save {enc_bool(op[1])}"
    if k == "ins":
        return f"ins {enc_str(op[1])} {enc_bool(op[2])} {enc_bool(op[3])}"
    if k == "cutsel":
        return f"cutsel {enc_str(op[1])} {op[2]}"
    if k == "sel":
        return "sel N" if op[1] is None else f"sel {op[1]} {op[2]}"
    if k == "multi":
        return " ".join(["multi"] + [str(p) for p in op[1]])
    if k == "digraph":
        return f"digraph {enc_bool(op[1])} {enc_opt_str(op[2])}"
    if k == "setop":
        return f"setop {enc_bool(op[1])} {enc_opt_int(op[2])}"
    if k == "tempnav":
        return f"tempnav {enc_bool(op[1])}"
    if k == "arg":
        return f"arg {enc_opt_str(op[1])}"
    return " ".join(str(x) for x in op)  # cur widx undo redo startsel exitsel move del delb hfwd hback goto search mode vireset


def real_buf_op(b: Buffer, op):
    """one API call on the real Buffer (exceptions propagate)"""
    k = op[0]
    if k == "cur":
        b.cursor_position = op[1]
    elif k == "text":
        b.text = op[1]
    elif k == "doc":
        b.set_document(Document(op[1], op[2]), bypass_readonly=bool(op[3]))
    elif k == "widx":
        b.working_index = op[1]
    elif k == "reset":
        b.reset(Document(op[1], op[2]))
    elif k == "save":
        b.save_to_undo_stack(clear_redo_stack=bool(op[1]))
    elif k == "undo":
        b.undo()
    elif k == "redo":
        b.redo()
    elif k == "startsel":
        b.start_selection(SELT[op[1]])
    elif k == "exitsel":
        b.exit_selection()
    elif k == "appendleft":
        # what the history loader (`load_history`) does for one item
        b._working_lines.appendleft(op[1])
        b._Buffer__working_index += 1
    elif k == "move":
        b.cursor_position += op[1]
    elif k == "ins":
        b.insert_text(op[1], overwrite=bool(op[2]), move_cursor=bool(op[3]))
    elif k == "del":
        b.delete(op[1])
    elif k == "delb":
        b.delete_before_cursor(op[1])
    elif k == "hfwd":
        b.history_forward(op[1])
    elif k == "hback":
        b.history_backward(op[1])
    elif k == "goto":
        b.go_to_history(op[1])
    elif k == "search":
        # the tail of Buffer.apply_search
        b.working_index = op[1]
        b.cursor_position = op[2]
    elif k == "cutsel":
        # the tail of Buffer.copy_selection(_cut=True)
        b.document = Document(op[1], op[2])
        b.selection_state = None
    elif k == "sel":
        b.selection_state = None if op[1] is None else SelectionState(op[1], SELT[op[2]])
    elif k == "multi":
        b.multiple_cursor_positions = list(op[1])
    else:
        raise ValueError(op)


def outcome_of(fn):
    try:
        fn()
        return "ok"
    except EditReadOnlyBuffer:
        return "ro"
    except AssertionError:
        return "err:AssertionError"
    except IndexError:
        return "err:IndexError"


def make_buffer(init) -> Buffer:
    ro, hs = bool(init["ro"]), bool(init["hs"])
    b = Buffer(read_only=Condition(lambda: ro), enable_history_search=Condition(lambda: hs))
    set_buffer(b, init)
    return b


def set_buffer(b: Buffer, init):
    lines, idx, cur = init["lines"], init["idx"], init["cur"]
    b.reset(Document(lines[idx], cur))
    b._working_lines = deque(lines)
    b._Buffer__working_index = idx


def init_line(k, init):
    return (f"init {k} {len(init['lines'])} " + " ".join(enc_str(l) for l in init["lines"])
            + f" {init['idx']} {init['cur']} {enc_bool(init['ro'])} {enc_bool(init['hs'])}")


# =====================================================================================
# invariants (the property, restated over the real objects)
# =====================================================================================
def buffer_invariant_violations(b: Buffer, site: str):
    v = []
    try:
        n = len(b.text)
    except IndexError:
        return [{"signature": f"{site} | working_index outside the working lines",
                 "msg": f"working_index={b.working_index} lines={len(b._working_lines)}"}]
    if not (0 <= b.cursor_position <= n):
        v.append({"signature": f"{site} | cursor out of range", "msg": f"cursor={b.cursor_position} len={n}"})
    s = b.selection_state
    if s is not None and not (0 <= s.original_cursor_position <= n):
        v.append({"signature": f"{site} | selection anchor out of range",
                  "msg": f"anchor={s.original_cursor_position} len={n}"})
    for p in b.multiple_cursor_positions:
        if not (0 <= p <= n):
            v.append({"signature": f"{site} | multiple cursor out of range", "msg": f"pos={p} len={n}"})
            break
    return v


# =====================================================================================
# kind "api": programs over the Buffer API on a bare Buffer
# =====================================================================================
def run_api(case):
    """-> (impl lines, violations)"""
    out, viol = [], []
    init = case["init"]

    def one(b, op):
        o = outcome_of(lambda: real_buf_op(b, op))
        out.append(f"{o} {enc_state(buf_state(b))}")
        if o in ("ok", "ro"):
            for x in buffer_invariant_violations(b, "Buffer API " + op[0]):
                x["msg"] += f" after op {op} from init {init}"
                viol.append(x)
        elif o == "err:AssertionError" and op[0] not in ("doc", "reset"):
            # only an ill-formed Document handed in by the caller may assert
            viol.append({"signature": f"Buffer API {op[0]} | AssertionError (ill-formed Document built inside the API)",
                         "msg": f"op {op} from init {init}"})
        elif o == "err:IndexError" and op[0] not in ("widx", "search"):
            viol.append({"signature": f"Buffer API {op[0]} | IndexError", "msg": f"op {op} from init {init}"})

    if case.get("fresh"):
        for op in case["ops"]:
            b = make_buffer(init)
            out.append(enc_state(buf_state(b)))
            one(b, op)
    else:
        b = make_buffer(init)
        out.append(enc_state(buf_state(b)))
        for op in case["ops"]:
            one(b, op)
    return out, viol


def model_lines_api(case):
    il = init_line(0, case["init"])
    out = []
    if case.get("fresh"):
        for op in case["ops"]:
            out += [il, "op 0 " + op_tokens(op)]
    else:
        out.append(il)
        out += ["op 0 " + op_tokens(op) for op in case["ops"]]
    return out


# =====================================================================================
# kind "api2": the rest of the Buffer API the handlers call (lean/Ptk/Model/C05Api.lean), with ALL integer
# arguments (negative / zero / oversized counts and indices); kind "qw": the _QUOTED_WORDS_RE scanner
# =====================================================================================
PASTE_MODES = ["EMACS", "VI_AFTER", "VI_BEFORE"]
# (op, condition) outside the domain of the totality theorem `api2_total` (Op2.pre): the exception is expected
_API2_RESULT: dict = {}


def enc_state2(b: Buffer) -> str:
    y = b.yank_nth_arg_state
    ys = "N" if y is None else f"{y.history_position},{y.n},{enc_str(y.previous_inserted_word)}"
    c = b.complete_state
    if c is None:
        cs = "N"
    else:
        idx = "N" if c.complete_index is None else str(c.complete_index)
        cs = (f"{enc_str(c.original_document.text)}@{c.original_document.cursor_position};{idx};{len(c.completions)}"
              + "".join(f";{enc_str(x.text)}:{x.start_position}" for x in c.completions))
    return f"{enc_state(buf_state(b))} Y={ys} C={cs}"


def make_buffer2(init) -> Buffer:
    from prompt_toolkit.history import InMemoryHistory
    ro, hs = bool(init["ro"]), bool(init["hs"])
    h = InMemoryHistory()
    for x in init["hist"]:
        h.append_string(x)
    b = Buffer(read_only=Condition(lambda: ro), enable_history_search=Condition(lambda: hs), history=h)
    set_buffer(b, init)
    if init.get("sel") is not None:
        b.selection_state = SelectionState(init["sel"][0], SELT[init["sel"][1]])
    return b


def init2_line(init):
    sel = "N" if init.get("sel") is None else f"{init['sel'][0]} {init['sel'][1]}"
    return (f"init2 {len(init['lines'])} " + " ".join(enc_str(l) for l in init["lines"])
            + f" {init['idx']} {init['cur']} {enc_bool(init['ro'])} {enc_bool(init['hs'])} {len(init['hist'])}"
            + "".join(" " + enc_str(h) for h in init["hist"]) + " " + sel)


def _compl(text, start):
    """a Completion (its constructor asserts start_position <= 0; a positive one is passed as a plain object)"""
    from prompt_toolkit.completion import Completion
    if start <= 0:
        return Completion(text, start_position=start)
    import types
    return types.SimpleNamespace(text=text, start_position=start, display=text, display_meta="")


def api2_step(b: Buffer, op):
    """-> (protocol line for the model, callable that performs the call on the real Buffer)"""
    from prompt_toolkit.clipboard import ClipboardData
    from prompt_toolkit.selection import PasteMode
    k = op[0]
    d = b.document
    if k == "old":
        return "op2 old " + op_tokens(op[1]), (lambda: real_buf_op(b, op[1]))
    if k == "yank":
        return f"op2 yank {enc_opt_int(op[1])} {enc_bool(op[2])}", (lambda: b.yank_nth_arg(n=op[1], _yank_last_arg=bool(op[2])))
    if k == "setc":
        cs = [_compl(t, st) for t, st in op[1]]
        return (f"op2 setc {len(cs)}" + "".join(f" {enc_str(t)} {st}" for t, st in op[1]),
                (lambda: b._set_completions(cs)))
    if k == "gotoc":
        return f"op2 gotoc {enc_opt_int(op[1])}", (lambda: b.go_to_completion(op[1]))
    if k == "cnext":
        return f"op2 cnext {op[1]} {enc_bool(op[2])}", (lambda: b.complete_next(count=op[1], disable_wrap_around=bool(op[2])))
    if k == "cprev":
        return f"op2 cprev {op[1]} {enc_bool(op[2])}", (lambda: b.complete_previous(count=op[1], disable_wrap_around=bool(op[2])))
    if k == "ccancel":
        return "op2 ccancel", b.cancel_completion
    if k == "capply":
        c = _compl(op[1], op[2])
        return f"op2 capply {enc_str(op[1])} {op[2]}", (lambda: b.apply_completion(c))
    if k in ("updown", "aup", "adown"):
        count = op[1]
        col = b.preferred_column or d.cursor_position_col
        up = (k == "aup") if k != "updown" else bool(op[2])
        eff_up, n = (up, count) if count >= 1 else (not up, -count)
        if n >= 1:
            dd = (d.get_cursor_up_position if eff_up else d.get_cursor_down_position)(count=n, preferred_column=col)
        else:
            dd = 0
        if k == "updown":
            return f"op2 updown {count} {dd}", (lambda: (b.cursor_up if up else b.cursor_down)(count=count))
        fn = b.auto_up if k == "aup" else b.auto_down
        return (f"op2 {k} {count} {enc_bool(op[2])} {dd}",
                (lambda: fn(count=count, go_to_start_of_line_if_history_changes=bool(op[2]))))
    if k == "copysel":
        nd, _ = d.cut_selection()
        return (f"op2 copysel {enc_bool(op[1])} {enc_str(nd.text)} {nd.cursor_position}",
                (lambda: b.copy_selection(_cut=bool(op[1]))))
    if k == "paste":
        data = ClipboardData(op[1], SELT[op[2]])
        mode = PasteMode[PASTE_MODES[op[3]]]
        nd = d.paste_clipboard_data(data, paste_mode=mode, count=op[4])
        return (f"op2 paste {enc_str(nd.text)} {nd.cursor_position}",
                (lambda: b.paste_clipboard_data(data, paste_mode=mode, count=op[4])))
    if k == "tcl":
        return f"op2 tcl {enc_str(op[1])}", (lambda: b.transform_current_line(lambda s_: op[1]))
    if k == "treg":
        return f"op2 treg {op[1]} {op[2]} {enc_str(op[3])}", (lambda: b.transform_region(op[1], op[2], lambda s_: op[3]))
    if k == "joinn":
        return f"op2 joinn {enc_str(op[1])}", (lambda: b.join_next_line(separator=op[1]))
    if k == "joins":
        return f"op2 joins {enc_str(op[1])}", (lambda: b.join_selected_lines(separator=op[1]))
    if k == "swap":
        return "op2 swap", b.swap_characters_before_cursor
    if k in ("nl", "ila", "ilb"):
        m = d.leading_whitespace_in_current_line if op[1] else ""
        fn = {"nl": b.newline, "ila": b.insert_line_above, "ilb": b.insert_line_below}[k]
        return f"op2 {k} {enc_str(m)}", (lambda: fn(copy_margin=bool(op[1])))
    if k == "edres":
        def edres():
            # the tail of Buffer.open_in_editor.run (the editor itself is not started)
            text = op[1]
            if text.endswith("\n"):
                text = text[:-1]
            b.document = Document(text=text, cursor_position=len(text))
        return f"op2 edres {enc_str(op[1])}", edres
    if k == "tl":
        return None, None
    raise ValueError(op)


def api2_expected_exception(b, op) -> bool:
    """the call is outside the domain of the totality theorem (`Op2.pre`): an exception is expected"""
    k = op[0]
    if k == "old":
        return op[1][0] in ("doc", "reset", "widx", "search", "cutsel")
    if k == "treg":
        return not op[1] < op[2]
    if k == "gotoc":
        cs = b.complete_state
        return cs is None or (bool(cs.completions) and op[1] is not None and not 0 <= op[1] < len(cs.completions))
    if k in ("cnext", "cprev"):
        return op[1] < 0
    if k == "updown":
        return op[1] < 1
    if k == "joins":
        return b.selection_state is None
    if k == "capply":
        return op[2] > 0
    if k == "setc":
        return False
    return False


def run_api2(case):
    key = case_key(case)
    if key in _API2_RESULT:
        return _API2_RESULT[key]
    model, impl, viol = [], [], []
    init = case["init"]

    def other_exc(fn):
        try:
            return outcome_of(fn)
        except Exception as e:  # noqa: anything else is reported with its type
            return "err:" + type(e).__name__

    def comp_ok(b):
        cs = b.complete_state
        return cs is None or cs.complete_index is None or 0 <= cs.complete_index < len(cs.completions)

    def one(b, op):
        if op[0] == "tl":
            model.append("tl " + enc_str(op[1]) + "".join(f" {i}" for i in op[2]))
            try:
                impl.append(enc_str(b.transform_lines(op[2], lambda l: op[1] + l)))
            except Exception as e:  # noqa
                impl.append("err:" + type(e).__name__)
                viol.append({"signature": f"Buffer API transform_lines | {type(e).__name__}", "msg": f"{op} from {init}"})
            return
        expected = api2_expected_exception(b, op)
        try:
            line, call = api2_step(b, op)
        except Exception as e:  # noqa: a Document query of document.py (cut_selection / paste / cursor up) failed
            viol.append({"signature": f"Document query for Buffer API {op[0]} | {type(e).__name__}",
                         "msg": f"op {op} from init {init}: {str(e)[:120]}"})
            return
        model.append(line)
        o = other_exc(call)
        impl.append(f"{o} {enc_state2(b)}")
        name = op[0] if op[0] != "old" else op[1][0]
        if o in ("ok", "ro"):
            for x in buffer_invariant_violations(b, "Buffer API " + name):
                x["msg"] += f" after op {op} from init {init}"
                viol.append(x)
            if not comp_ok(b):
                viol.append({"signature": f"Buffer API {name} | completion index out of range", "msg": f"{op} from {init}"})
        elif not expected:
            viol.append({"signature": f"Buffer API {name} | {o[4:]} for arguments in the domain of the method",
                         "msg": f"op {op} from init {init}"})

    if case.get("fresh"):
        for pre, op in case["ops"]:
            b = make_buffer2(init)
            model.append(init2_line(init))
            impl.append(enc_state2(b))
            for p_ in pre:
                one(b, p_)
            one(b, op)
    else:
        b = make_buffer2(init)
        model.append(init2_line(init))
        impl.append(enc_state2(b))
        for op in case["ops"]:
            one(b, op)
    res = (model, impl, viol)
    if len(_API2_RESULT) > 8:
        _API2_RESULT.clear()
    _API2_RESULT[key] = res
    return res


def qw_real(line: str):
    from prompt_toolkit.buffer import _QUOTED_WORDS_RE
    words = [w.strip() for w in _QUOTED_WORDS_RE.split(line)]
    return [w for w in words if w]


def run_qw(case):
    model = ["qw " + enc_str(t) for t in case["texts"]]
    impl = []
    for t in case["texts"]:
        ws = qw_real(t)
        impl.append(" ".join([str(len(ws))] + [enc_str(w) for w in ws]))
    return model, impl, []


# =====================================================================================
# kinds "call" / "accept": the real KeyProcessor / ViState / accept handler
# =====================================================================================
def apply_hop(app, buff, op):
    """one handler op on the real application objects (exceptions propagate)"""
    k = op[0]
    vs = app.vi_state
    if k == "mode":
        vs.input_mode = MODES[op[1]]
    elif k == "setop":
        vs.operator_func = (lambda e, t: None) if op[1] else None
        vs.operator_arg = op[2]
    elif k == "digraph":
        vs.waiting_for_digraph = bool(op[1])
        vs.digraph_symbol1 = op[2]
    elif k == "tempnav":
        vs.temporary_navigation_mode = bool(op[1])
    elif k == "arg":
        app.key_processor.arg = op[1]
    elif k == "vireset":
        vs.reset()
    else:
        real_buf_op(buff, op)


def app_line(cfg):
    return (f"app {enc_bool(cfg['vi'])} {cfg['mode']} {enc_bool(cfg['op'])} {enc_opt_int(cfg['oparg'])} "
            f"{enc_bool(cfg['dg'])} {enc_opt_str(cfg['dg1'])} {enc_bool(cfg['tn'])} {enc_opt_str(cfg['arg'])}")


def model_lines_call(case):
    out = [init_line(0, case["init"]), app_line(case["app"])]
    for step in case["ops"]:
        if step[0] == "hop":
            out.append("hop " + op_tokens(step[1]))
        elif step[0] == "call":
            out.append(f"hbegin {enc_bool(step[1])}")
            out += ["h " + op_tokens(h) for h in step[2]]
            out.append("hend")
        elif step[0] == "accept":
            out.append(f"accept {enc_opt_int(step[1])}")
    return out


class _V(Validator):
    def __init__(self):
        self.err = None

    def validate(self, document):
        if self.err is not None:
            raise ValidationError(cursor_position=self.err, message="no")


def run_call(case):
    out, viol = [], []
    init, cfg = case["init"], case["app"]
    with E.editor(text="", vi=cfg["vi"], multiline=True, traced=False, completer=False) as ed:
        app, b = ed.app, ed.buffer
        val = _V()
        ed.session.validator = val
        ed.session.validate_while_typing = False
        acc = [st for st in case["ops"] if st[0] == "accept"]
        if acc:
            val.err = acc[0][1]   # the validator is a fixed function for the whole case
        ro, hs = bool(init["ro"]), bool(init["hs"])
        b.read_only = Condition(lambda: ro)
        b.enable_history_search = Condition(lambda: hs)
        set_buffer(b, init)
        out.append(enc_state(buf_state(b)))
        vs = app.vi_state
        vs._ViState__input_mode = MODES[cfg["mode"]]
        vs.operator_func = (lambda e, t: None) if cfg["op"] else None
        vs.operator_arg = cfg["oparg"]
        vs.waiting_for_digraph = bool(cfg["dg"])
        vs.digraph_symbol1 = cfg["dg1"]
        vs.temporary_navigation_mode = bool(cfg["tn"])
        kp = app.key_processor
        kp.arg = cfg["arg"]
        out.append(enc_vi(app))

        def full():
            return f"{enc_state(buf_state(b))} | {enc_vi(app)}"

        async def body():
            for step in case["ops"]:
                was_clean = not buffer_invariant_violations(b, "")
                if step[0] == "hop":
                    hop = step[1]
                    o = outcome_of(lambda: apply_hop(app, b, hop))
                    out.append(f"{o} {full()}")
                    if o in ("ok", "ro") and was_clean and hop[0] not in ("sel", "multi"):
                        for x in buffer_invariant_violations(b, "handler over the Buffer API"):
                            x["msg"] += f" hop {hop}"
                            viol.append(x)
                    if hop[0] == "mode" and MODES[hop[1]] == InputMode.NAVIGATION or hop[0] == "vireset":
                        if vs.operator_func is not None or vs.operator_arg is not None or vs.waiting_for_digraph \
                                or vs.digraph_symbol1 is not None:
                            viol.append({"signature": "ViState.input_mode setter | pending operator or digraph survives",
                                         "msg": f"after {hop}: {enc_vi(app)}"})
                elif step[0] == "call":
                    save, prog = bool(step[1]), step[2]
                    raised = []

                    def handler(event, prog=prog, raised=raised):
                        try:
                            for h in prog:
                                apply_hop(event.app, event.current_buffer, h)
                        except BaseException as e:  # noqa
                            raised.append(type(e).__name__)
                            raise

                    binding = Binding(keys=("x",), handler=handler, save_before=lambda e, s=save: s)
                    out.append("-")
                    out.extend("-" for _ in prog)

                    def call():
                        kp._call_handler(binding, key_sequence=[KeyPress("x", "x")])

                    o = outcome_of(call)
                    out.append(f"{o} {full()}")
                    # (d) EditReadOnlyBuffer never leaves _call_handler
                    if o == "ro":
                        viol.append({"signature": "KeyProcessor._call_handler | EditReadOnlyBuffer escapes",
                                     "msg": f"prog {prog}"})
                    # (b) after a handler that returned normally
                    if o == "ok" and not raised and vi_navigation_mode():
                        d = b.document
                        if d.is_cursor_at_the_end_of_line and len(d.current_line) > 0:
                            viol.append({"signature": "KeyProcessor._fix_vi_cursor_position | navigation cursor past the "
                                                      "last character of a non-empty line",
                                         "msg": f"prog {prog} -> {full()}"})
                    if o in ("ok", "ro") and was_clean and not [h for h in prog if h[0] in ("sel", "multi")]:
                        # (by-passing writes may break the invariant by construction)
                        for x in buffer_invariant_violations(b, "handler over the Buffer API"):
                            x["msg"] += f" prog {prog}"
                            viol.append(x)
                elif step[0] == "accept":
                    text_then = b.text
                    o = outcome_of(b.validate_and_handle)
                    await asyncio.sleep(0)
                    res = ed.result if (ed.done and ed.exc is None) else None
                    out.append(f"{enc_opt_str(res)} {enc_state(buf_state(b))}")
                    if step[1] is None:
                        if res != text_then or ed.exit_text != text_then:
                            viol.append({"signature": "accept | returned value differs from the buffer text",
                                         "msg": f"text {text_then!r} result {res!r}"})
                    elif res is not None:
                        viol.append({"signature": "accept | accepted although the validator failed", "msg": repr(res)})

        ed.loop.run_until_complete(body())
    return out, viol


# =====================================================================================
# the mode skeleton (lean/Ptk/Model/C05Skel.lean): projection of the live editor, per-key protocol
# =====================================================================================
# atoms of the binding filters that the MODEL evaluates from the skeleton (all others are data whose
# value is sent along with every key); must name the non-`.env` entries of `Skel.atomTable`
SK_ATOMS = {
    "app:buffer_has_focus", "app:control_is_searchable", "app:emacs_insert_mode", "app:emacs_mode", "app:has_arg",
    "app:has_focus.has_focus_filter[test=app:has_focus.test[value='DEFAULT_BUFFER']]", "app:has_selection",
    "app:is_read_only", "app:is_searching", "app:shift_selection_mode", "app:vi_digraph_mode",
    "app:vi_insert_mode", "app:vi_insert_multiple_mode", "app:vi_mode", "app:vi_navigation_mode",
    "app:vi_recording_macro", "app:vi_replace_mode", "app:vi_replace_single_mode", "app:vi_selection_mode",
    "app:vi_waiting_for_text_object_mode", "basic:in_quoted_insert", "emacs:is_arg", "emacs:is_returnable",
    "vi:digraph_symbol_1_given", "vi:in_block_selection", "vi:is_returnable"}
# handlers that feed keys back into the key processor (macro execution, external editor): the model
# treats the keys they feed as further input, so the harness re-synchronises the skeleton after them
SK_RESYNC = {"vi:load_vi_bindings._execute_macro", "named_commands:call_last_kbd_macro",
             "named_commands:edit_and_execute", "mouse:load_mouse_bindings._scroll_up",
             "mouse:load_mouse_bindings._scroll_down"}
_SK: dict = {}


def _find_paths(bs, names):
    """for every atom name a path (binding index, attribute, steps) to a Condition with that name"""
    paths = {}

    def walk(f, i, attr, path):
        if hasattr(f, "filters"):
            for j, x in enumerate(f.filters):
                walk(x, i, attr, path + (j,))
        elif type(f).__name__ == "_Invert":
            walk(f.filter, i, attr, path + (-1,))
        elif hasattr(f, "func"):
            n = S.fn_label(f.func)
            if n not in paths:
                paths[n] = (i, attr, path)

    for i, b in enumerate(bs):
        walk(b.filter, i, "filter", ())
        walk(b.eager, i, "eager", ())
        if len(paths) == len(names):
            break
    return paths


def sk_ctx():
    """per process: the table of the running code (names, ids, hash)"""
    if not _SK:
        rows, atoms, same = S.canonical_app()
        an, hn, kn = S.table_names(rows, atoms)
        from prompt_toolkit.key_binding.bindings.vi import vi_register_names
        _SK.update(atoms=an, handlers={n: i for i, n in enumerate(hn)}, kids=S.KeyIds(kn), hash=S.table_hash(rows, atoms),
                   nrows=len(rows), nh=len(hn), regs=vi_register_names, checked=set(), paths=None,
                   any=S.NAMED_BASE + kn.index("<any>") if "<any>" in kn else S.NAMED_BASE + 999999,
                   enter=S.NAMED_BASE + kn.index("c-m") if "c-m" in kn else S.NAMED_BASE + 999999)
    return _SK


def sk_atoms(ed, cfg_key):
    """the Condition objects of this session, by atom name (full table check once per configuration)"""
    ctx = sk_ctx()
    app = ed.app
    if cfg_key not in ctx["checked"] or ctx["paths"] is None:
        rows, atoms = S.table(app)
        if S.table_hash(rows, atoms) != ctx["hash"]:
            raise RuntimeError("the binding table of this session differs from the generated one")
        ctx["checked"].add(cfg_key)
        if ctx["paths"] is None:
            ctx["paths"] = _find_paths(S.live_bindings(app), ctx["atoms"])
        return [atoms[n] for n in ctx["atoms"]]
    bs = S.live_bindings(app)
    if len(bs) != ctx["nrows"]:
        raise RuntimeError("the binding table of this session differs from the generated one")
    out = []
    for n in ctx["atoms"]:
        i, attr, path = ctx["paths"][n]
        f = getattr(bs[i], attr)
        for st in path:
            f = f.filter if st < 0 else f.filters[st]
        out.append(f)
    return out


def sk_enc_keys(kp, ctx):
    ks = [(ctx["kids"].of(k.key), S.data_class(k.data, ctx["regs"])) for k in kp.key_buffer]
    return " ".join([str(len(ks))] + [f"{a} {b}" for a, b in ks])


def sk_state(ed, ctx) -> str:
    """the skeleton projection of the live editor (encoding of Drivers/C05.lean SkD.encSk)"""
    app = ed.app
    vs, kp = app.vi_state, app.key_processor

    def sel(b):
        x = b.selection_state
        return "N" if x is None else f"{E.SEL_TYPES.get(x.type, 9)}{int(bool(x.shift_mode))}"

    op = vs.operator_func
    if op is None:
        ops = "N"
    else:
        # "will the pending operator end with input_mode = INSERT": a change operator; `"xc` only when the
        # register name x (taken from the operator's own key sequence) exists
        lab = S.fn_label(op)
        change = "delete_only=False" in lab
        if change and "with_register=True" in lab:
            try:
                cells = dict(zip(op.__code__.co_freevars, op.__closure__))
                data = cells["operator_key_sequence"].cell_contents[1].data
                change = S.data_class(data, ctx["regs"]) != 0
            except Exception:  # noqa
                pass
        ops = "1" if change else "0"
    rr = vs.recording_register
    rec = "N" if rr is None else ("1" if rr else "0")
    arg = "N" if kp.arg is None else ("1" if kp.arg == "-" else "0")
    return (f"{enc_bool(app.editing_mode == EditingMode.VI)} {enc_bool(ed.read_only)} {MODES.index(vs.input_mode)} "
            f"{enc_bool(vs.temporary_navigation_mode)} {ops} {enc_bool(vs.operator_arg is not None)} "
            f"{enc_bool(vs.waiting_for_digraph)} {enc_bool(vs.digraph_symbol1 is not None)} "
            f"{sel(ed.buffer)} {sel(ed.search_buffer)} {enc_bool(app.layout.is_searching)} "
            f"{enc_bool(app.quoted_insert)} {rec} {enc_bool(app.emacs_state.is_recording)} {arg} "
            f"{enc_bool(app.is_done)} {sk_enc_keys(kp, ctx)}")


class SkSession:
    """captures, for every KeyPress fed to the real key processor, what the model needs as input (the
    data atoms before / after every handler call, the data of every handler call) and what it must
    reproduce (the handlers called, the skeleton afterwards, the value of the skeleton atoms)"""

    def __init__(self, ed, cfg_key):
        self.ed = ed
        self.ctx = sk_ctx()
        self.atoms = sk_atoms(ed, cfg_key)
        self.names = self.ctx["atoms"]
        self.calls = []
        self.resyncs = 0
        kp = ed.app.key_processor
        orig = kp._call_handler
        me = self

        def wrapped(handler, key_sequence):
            app = ed.app
            b = app.current_buffer
            x = b.selection_state
            pre = (b.cursor_position, None if x is None else x.original_cursor_position, b.text == "",
                   ed.buffer._tr_tc, ed.search_buffer._tr_tc, ed.buffer._tr_anchor + ed.search_buffer._tr_anchor,
                   len(ed.log))
            try:
                return orig(handler, key_sequence)
            finally:
                ro = any(o == "ro" for (_, _, o, _) in ed.log[pre[6]:])
                hd = (ed.buffer._tr_tc != pre[3], ed.search_buffer._tr_tc != pre[4], ro,
                      ed.buffer._tr_anchor + ed.search_buffer._tr_anchor != pre[5], app.is_done,
                      b.cursor_position != pre[0], pre[1] is not None and b.cursor_position == pre[1], pre[2])
                lab = S.fn_label(handler.handler)
                me.calls.append((me.ctx["handlers"].get(lab, -1), lab, "".join(enc_bool(v) for v in hd), me.env()))

        kp._call_handler = wrapped

    def env(self) -> str:
        return "".join("1" if f() else "0" for f in self.atoms)

    def init_lines(self):
        c = self.ctx
        st = sk_state(self.ed, c)
        return (["skhello", "skset " + st],
                [f"{c['hash']} {c['nrows']} {len(c['atoms'])} {c['nh']} {c['any']} {c['enter']}", st])

    def feed(self, kpress):
        """feed one KeyPress to the real editor -> (model line, impl line); exceptions propagate"""
        c = self.ctx
        flush = kpress is E._Flush
        kid = 0 if flush else c["kids"].of(kpress.key)
        dc = 0 if flush else S.data_class(kpress.data, c["regs"])
        env0 = self.env()
        del self.calls[:]
        self.ed.feed_key(kpress)
        st = sk_state(self.ed, c)
        if any(lab in SK_RESYNC for (_, lab, _, _) in self.calls):
            self.resyncs += 1
            return "skset " + st, st
        line = f"skkey {kid} {dc} {enc_bool(flush)} {env0} {len(self.calls)}"
        for (_, _, hd, env) in self.calls:
            line += f" {hd} {env}"
        envn = self.env()
        abits = "".join((envn[i] if n in SK_ATOMS else "-") for i, n in enumerate(self.names))
        return line, f"{st} h={','.join(str(h) for (h, _, _, _) in self.calls)} a={abits}"


# =====================================================================================
# kind "keys": the real editor, key by key, traced
# =====================================================================================
def trace_op_line(k, op):
    name, args = op
    if name == "cur":
        return f"op {k} cur {args[0]}"
    if name == "text":
        return f"op {k} text {enc_str(args[0])}"
    if name == "doc":
        return f"op {k} doc {enc_str(args[0])} {args[1]} {enc_bool(args[2])}"
    if name == "widx":
        return f"op {k} widx {args[0]}"
    if name == "reset":
        return f"op {k} reset {enc_str(args[0])} {args[1]}"
    if name == "save":
        return f"op {k} save {enc_bool(args[0])}"
    if name in ("undo", "redo"):
        return f"op {k} {name}"
    if name in ("sel", "selw"):
        s = args[0] if name == "sel" else args
        return f"op {k} sel N" if s is None else f"op {k} sel {s[0]} {s[1]}"
    if name == "multi":
        return " ".join([f"op {k} multi"] + [str(p) for p in args[0]])
    if name == "hs":
        return f"op {k} hs {enc_opt_str(args[0])}"
    return f"op {k} private {args[0]}"  # a write to private Buffer state outside every primitive


def keys_init(ed):
    def ini(b, ro):
        return {"lines": list(b._working_lines), "idx": b.working_index, "cur": b.cursor_position,
                "ro": ro, "hs": bool(b.enable_history_search())}
    return ini(ed.buffer, ed.read_only), ini(ed.search_buffer, False)


_KEYS_CACHE: dict = {}


def case_key(case):
    c = {k: v for k, v in case.items() if k not in ("trace", "tkey")}
    return hashlib.sha1(json.dumps(c, sort_keys=True).encode()).hexdigest()[:16]


class _Hang(Exception):
    pass


def run_keys(case):
    """Drive the real editor through case['ops'].
    -> dict(model=[protocol lines], impl=[reply lines], viol=[...], stats={...})"""
    key = case_key(case)
    if key in _KEYS_CACHE:
        return _KEYS_CACHE[key]
    model, impl, viol = [], [], []
    stats = {"keys": 0, "prims": 0, "hang": 0, "done": 0, "handlers": 0, "sk": 0, "sk_resync": 0}

    def on_alarm(*a):
        raise _Hang()

    old = signal.signal(signal.SIGALRM, on_alarm)
    signal.alarm(KEY_TIMEOUT_S)
    try:
        with E.editor(text=case["text"], cursor=case["cur"], vi=case["vi"], multiline=case["ml"],
                      history=case["hist"], read_only=case["ro"], clip=case.get("clip"),
                      clip_type=case.get("clip_type", "CHARACTERS"), hs=case.get("hs", False),
                      sug=case.get("sug", False), val=case.get("val", False)) as ed:
            app, kp = ed.app, ed.app.key_processor
            i0, i1 = keys_init(ed)
            model += [init_line(0, i0), init_line(1, i1)]
            impl += [enc_state(buf_state(ed.buffer)), enc_state(buf_state(ed.search_buffer))]
            log = ed.log
            sk = SkSession(ed, (case["vi"], case["ml"], case["ro"], bool(case.get("hs")), bool(case.get("sug")),
                                bool(case.get("val"))))
            m0, r0 = sk.init_lines()
            model += m0
            impl += r0

            def feed_tok(t):
                """one key token through the real editor; -> skeleton (model line, impl line) per KeyPress"""
                lines = []
                for kpress in E.key_presses(t):
                    if ed.done:
                        break
                    lines.append(sk.feed(kpress))
                return lines

            handler_ran = False
            bells = [0]
            orig_bell = app.output.bell

            def bell():
                bells[0] += 1
                return orig_bell()
            app.output.bell = bell
            for i, tok in enumerate(case["ops"]):
                if ed.done:
                    break
                stats["keys"] += 1
                quoted = app.quoted_insert
                pending = bool(kp.key_buffer)
                d0 = app.current_buffer.document
                was_bad = bool(vi_navigation_mode() and d0.is_cursor_at_the_end_of_line and len(d0.current_line) > 0)
                prev_handler = kp._previous_handler
                prev_seq = kp._previous_key_sequence
                del log[:]
                crashed = None
                sk_lines = []
                try:
                    sk_lines = feed_tok(tok)
                except _Hang:
                    raise
                except BaseException as e:  # noqa: the property: no exception escapes the editor
                    tb = traceback.extract_tb(e.__traceback__)
                    fr = [f for f in tb if "prompt_toolkit" in f.filename and "c05_editor" not in f.filename]
                    site = (os.path.basename(fr[-1].filename) + ":" + fr[-1].name) if fr else "?"
                    crashed = {"signature": f"key session | {type(e).__name__} escapes from {site}",
                               "msg": f"key #{i} {tok!r}: {type(e).__name__}: {str(e)[:200]}"}
                # --- replay of the logged API calls on the model
                for (bid, op, outcome, st) in log:
                    model.append(trace_op_line(bid, op))
                    impl.append(f"{outcome} {enc_state(st)}")
                    stats["prims"] += 1
                model += ["sync 0", "sync 1"]
                impl += [enc_state(buf_state(ed.buffer)), enc_state(buf_state(ed.search_buffer))]
                for (ml_, il_) in sk_lines:
                    model.append(ml_)
                    impl.append(il_)
                    stats["sk"] += 1
                if crashed:
                    viol.append(crashed)
                    break
                ran = kp._previous_handler is not prev_handler or kp._previous_key_sequence is not prev_seq
                if ran:
                    handler_ran = True
                    stats["handlers"] += 1
                hname = getattr(getattr(kp._previous_handler, "handler", None), "__name__", "?")
                # --- invariants after every key
                for b in (ed.buffer, ed.search_buffer):
                    for x in buffer_invariant_violations(b, f"key session ({b.name})"):
                        x["msg"] += f" after key #{i} {tok!r} (handler {hname})"
                        viol.append(x)
                if handler_ran and not ed.done and not kp.key_buffer and not was_bad and vi_navigation_mode():
                    d = app.current_buffer.document
                    if d.is_cursor_at_the_end_of_line and len(d.current_line) > 0:
                        viol.append({"signature": "key session | vi navigation cursor rests past the last character "
                                                  "of a non-empty line",
                                     "msg": f"after key #{i} {tok!r} (handler {hname}): text={d.text!r} "
                                            f"cursor={d.cursor_position}"})
                if tok == "escape" and case["vi"] and not quoted and not ed.done:
                    # Escape + the timeout: must be in navigation mode with nothing pending
                    del log[:]
                    sk_lines = []
                    try:
                        sk_lines = feed_tok("<flush>")
                    except _Hang:
                        raise
                    except BaseException as e:  # noqa
                        viol.append({"signature": f"key session | {type(e).__name__} escapes from flush after Escape",
                                     "msg": str(e)[:200]})
                        break
                    for (bid, op, outcome, st) in log:
                        model.append(trace_op_line(bid, op))
                        impl.append(f"{outcome} {enc_state(st)}")
                    model += ["sync 0", "sync 1"]
                    impl += [enc_state(buf_state(ed.buffer)), enc_state(buf_state(ed.search_buffer))]
                    for (ml_, il_) in sk_lines:
                        model.append(ml_)
                        impl.append(il_)
                        stats["sk"] += 1
                    vs = app.vi_state
                    if not ed.done and not (
                            vs.input_mode == InputMode.NAVIGATION      # (also in a read-only buffer)
                            and vs.operator_func is None and vs.operator_arg is None
                            and not vs.waiting_for_digraph and vs.digraph_symbol1 is None):
                        hname = getattr(getattr(kp._previous_handler, "handler", None), "__name__", "?")
                        what = (f"mode={vs.input_mode.name} operator_pending={vs.operator_func is not None} "
                                f"waiting_for_digraph={vs.waiting_for_digraph} digraph_symbol1={vs.digraph_symbol1!r}")
                        if pending:
                            sig = "Escape | consumed as the <any> argument of a pending key sequence"
                        else:
                            sig = "Escape | not in navigation mode or something still pending"
                        viol.append({"signature": sig, "msg": f"after key #{i} (handler {hname}): {what}"})
                if ed.done and ed.exc is None:
                    stats["done"] += 1
                    if ed.result != ed.exit_text:
                        viol.append({"signature": "accept | returned value differs from the buffer text",
                                     "msg": f"result {ed.result!r} text at exit {ed.exit_text!r}"})
                if ed.bg_errors:
                    viol.append({"signature": "key session | exception in a background task of the editor",
                                 "msg": ed.bg_errors[0][:300]})
                    break
                if viol:
                    break
            stats["sk_resync"] = sk.resyncs
    except _Hang:
        stats["hang"] = 1
    finally:
        signal.alarm(0)
        signal.signal(signal.SIGALRM, old)
    res = {"model": model, "impl": impl, "viol": viol, "stats": stats}
    if len(_KEYS_CACHE) > 4:
        _KEYS_CACHE.clear()
    _KEYS_CACHE[key] = res
    return res


# =====================================================================================
# plugin interface
# =====================================================================================
# Key sessions are executed ONCE per run, inside `cases()` (worker pool): the worker drives the real
# editor, pipes the API calls it logged through the compiled Lean driver, compares the two line lists
# and keeps only the verdict (`_PRE`).  `model_lines` / `impl_lines` hand the full line lists to
# core.py only for sessions that diverged (or when the session was not pre-computed: replay, shrinking).
_PRE: dict = {}


def _pre(case):
    if "--replay" in sys.argv:
        return None
    k = case.get("tkey")
    if k is None or k not in _PRE or k != case_key(case):
        return None
    return _PRE[k]


def model_lines(case):
    k = case["kind"]
    if k == "api":
        return model_lines_api(case)
    if k == "call":
        return model_lines_call(case)
    if k == "api2":
        return run_api2(case)[0]
    if k == "qw":
        return run_qw(case)[0]
    if k == "keys":
        p = _pre(case)
        if p is not None and not p["div"]:
            return []
        return run_keys(case)["model"]
    raise ValueError(k)


def impl_lines(case):
    k = case["kind"]
    if k == "api":
        return run_api(case)[0]
    if k == "call":
        return run_call(case)[0]
    if k == "api2":
        return run_api2(case)[1]
    if k == "qw":
        return run_qw(case)[1]
    if k == "keys":
        p = _pre(case)
        if p is not None and not p["div"]:
            return []
        return run_keys(case)["impl"]
    raise ValueError(k)


def oracle(case):
    k = case["kind"]
    if k == "api":
        v = run_api(case)[1]
    elif k == "call":
        v = run_call(case)[1]
    elif k == "api2":
        v = run_api2(case)[2]
    elif k == "qw":
        v = []
    else:
        p = _pre(case)
        v = p["viol"] if p is not None else run_keys(case)["viol"]
    seen, out = set(), []
    for x in v:
        if x["signature"] not in seen:
            seen.add(x["signature"])
            out.append(x)
    return out


# =====================================================================================
# generators
# =====================================================================================
KEYS_PRINT = list("abwx .(\"'0123459$^%{}[]<>~@qdcyipPuUJGghjklefFtTrRsSoOvVnNBWEMHL/?*#;,|-+_`mzIAaCDXY=!&:") \
    + ["世", "é"]
KEYS_NAMED = ["escape", "c-a", "c-b", "c-c", "c-d", "c-e", "c-f", "c-g", "c-h", "c-i", "c-j", "c-k", "c-l", "c-m",
              "c-n", "c-o", "c-p", "c-q", "c-r", "c-s", "c-t", "c-u", "c-v", "c-w", "c-x", "c-y", "c-z", "c-@",
              "c-\\", "c-]", "c-^", "c-_", "up", "down", "left", "right", "home", "end", "delete", "insert",
              "pageup", "pagedown", "s-tab", "s-left", "s-right", "s-up", "s-down", "s-home", "s-end",
              "c-left", "c-right", "c-up", "c-down", "c-home", "c-end", "c-delete", "s-delete", "c-insert", "s-insert",
              "c-s-left", "c-s-right", "c-s-home", "c-s-end", "f1", "f4", "<flush>", "<paste:p q\nr>", "<paste:>"]
ALL_KEYS = KEYS_PRINT + KEYS_NAMED
PAIR_KEYS = list("aw (\"'05$^%}>~@qdcyipuJGgjlefFtrRsoOvV/?*;|IACDxX.") + KEYS_NAMED
HISTS = [[], ["one", "two words"], ["a\nb", "", "x  y", "世界 (z)"], ["   "], ["ls -l", " \t ", "echo 'a b' \"c d\" e"],
         ["x", "", "  ", "cmd arg1 arg2 arg3"]]
# histories for the history-reading commands (yank-last-arg / yank-nth-arg): entries with 0, 1, 2, 3 words,
# blank-only entries, quoted words, multi-line entries
YANK_HISTS = [["   "], ["\t \n"], ["one"], ["ls -l"], ["cmd a1 a2 a3"], ["echo 'a b' \"c d\" e"], ["x", "  ", "ls -l"],
              ["", "two words"], ["a\nb c", "   ", "'q"]]
CLIPS = [(None, "CHARACTERS"), ("clip", "CHARACTERS"), ("li\nne", "CHARACTERS"), ("", "CHARACTERS"),
         ("whole line", "LINES"), ("bl\nck", "BLOCK")]
DOCS = ["", "a", "ab cd", "a\n\nb", "\n", "世界 x", "  (a.b) 'q'\n\tz", "x\n", "\nx", "ab\ncd\nef"]
PREFIXES = {"vi-nav": ["escape", "<flush>"], "vi-ins": [], "emacs": [], "vi-visual": ["escape", "<flush>", "v"],
            "vi-op": ["escape", "<flush>", "d"]}


def limit_digits(ops):
    out, run = [], 0
    for t in ops:
        if len(t) == 1 and t.isdigit():
            run += 1
            if run > 3:
                continue
        else:
            run = 0
        out.append(t)
    return out


def keys_case(vi, ml, ro, text, cur, hist, clip, ops, hs=False, sug=False, val=False):
    c = {"kind": "keys", "vi": vi, "ml": ml, "ro": ro, "hs": hs, "text": text, "cur": min(cur, len(text)), "hist": hist,
         "clip": clip[0], "clip_type": clip[1], "ops": limit_digits(list(ops))}
    if sug:
        c["sug"] = True     # auto-suggestion from the history
    if val:
        c["val"] = True     # a validator that rejects texts containing 'x'
    return c


def rand_text(rng, ml):
    alpha = ["a", "b", " ", " ", "\n" if ml else " ", "\n" if ml else "x", ".", "(", ")", "世", "é", "\t", "'", "x"]
    n = rng.choice([0, 0, 1, 2, 3, 5, 8, 14, 30])
    return "".join(rng.choice(alpha) for _ in range(n))


SNIPPETS = [["escape", "<flush>"], ["\"", "a", "y", "w"], ["\"", "a", "p"], ["q", "a"], ["q"], ["@", "a"],
            ["c-v", "j", "I"], ["c-v", "l", "j", "A"], ["c-v", "k", "A"], ["c-v", "j", "$", "A"], ["c-v", "k", "l", "I"],
            ["right", "right"], ["left", "x"], ["c-x", "c-l"], ["c-o", "5", "c-n"], ["c-o", "3", "down"],
            ["escape", "5", "down"], ["escape", "4", "up"], ["c-i", "c-i"], ["c-n", "c-n"], ["c-p", "c-p"], ["v", "i", "w"], ["v", "a", "("], ["V", "j", "d"], ["d", "d"],
            ["c", "w"], ["y", "y", "p"], ["/", "a", "c-m"], ["?", "b", "c-m"], ["c-r", "a"], ["c-s", "a"],
            ["escape", "3"], ["escape", "-"], ["escape", "_"], ["escape", "-", "escape", "5", "escape", "."],
            ["escape", "-", "5", "escape", "c-y"], ["escape", "0", "escape", "."], ["escape", "7", "escape", "c-y"],
            ["escape", ".", "escape", "."], ["escape", "-", "2", "escape", "_", "escape", "_"], ["c-u"], ["c-x", "("], ["c-x", ")"], ["c-x", "e"], ["c-x", "c-x"],
            ["c-@", "c-e", "c-w"], ["c-@", "c-c"], ["c-k", "a", ":"], ["c-k", "a"], ["c-o", "d", "w"], ["g", "g"],
            ["g", "u", "w"], ["g", "~", "$"], ["g", "?", "?"], [">", ">"], ["<", "<"], ["g", "q", "q"], ["R", "x"],
            ["r", "z"], ["c-q", "escape"], ["c-v", "escape"], ["escape", "c-m"], ["c-i"], ["c-n"], ["c-p"],
            ["2", "3"], ["u"], ["c-r"], ["c-_"], ["c-x", "c-u"], ["escape", "."], ["escape", "c-y"], ["c-y"],
            ["escape", "y"], ["c-c", ">"], ["c-c", "<"], ["s-right", "s-right"], ["c-w"], ["escape", "d"],
            ["escape", "u"], ["escape", "l"], ["escape", "c"], ["escape", "\\"], ["escape", "#"], ["c-t"], ["~"],
            ["J"], ["g", "J"], ["x"], ["X"], ["D"], ["C"], ["S"], ["Y"], ["P"], ["%"], ["|"], ["5", "|"], ["{"], ["}"],
            ["(", ")"], ["f", "a"], ["T", "b", ";", ","], ["*"], ["#"], ["n"], ["N"], ["g", "e"], ["g", "E"], ["g", "m"],
            ["g", "_"], ["z", "z"], ["z", "t"], ["c-e"], ["c-y"], ["c-d"], ["c-u"], ["c-f"], ["c-b"], ["H"], ["M"], ["L"]]


def rand_keys(rng, n):
    ops = []
    while len(ops) < n:
        r = rng.random()
        if r < 0.35:
            ops += rng.choice(SNIPPETS)
        elif r < 0.75:
            ops.append(rng.choice(KEYS_PRINT))
        else:
            ops.append(rng.choice(KEYS_NAMED))
    return ops[:n]


def gen_keys_cases(tier, rng):
    out = []
    states = [("vi-nav", True), ("vi-ins", True), ("emacs", False), ("vi-visual", True), ("vi-op", True)]
    docs3 = ["ab cd\n\n世 x", "", "a"]
    # every bound key once, from every editor state
    for name, vi in states:
        for doc in docs3:
            for ro in (False, True):
                if ro and (doc != docs3[0] or name in ("vi-visual", "vi-op", "vi-ins")):
                    continue
                if tier == "quick" and doc != docs3[0] and not (doc == "" and name in ("vi-nav", "emacs")):
                    continue
                for kk in ALL_KEYS:
                    out.append(keys_case(vi, True, ro, doc, min(1, len(doc)), HISTS[1], CLIPS[1],
                                         PREFIXES[name] + [kk] + (["escape"] if vi else [])))
    if tier == "thorough":
        # every ordered pair of keys from three states (first key of the insert states: named keys and a
        # few printable ones -- the other printable keys only self-insert there)
        for name, vi in (("vi-nav", True), ("vi-ins", True), ("emacs", False)):
            first = PAIR_KEYS if name == "vi-nav" else KEYS_NAMED + list("a (\"5.")
            for k1 in first:
                for k2 in PAIR_KEYS:
                    out.append(keys_case(vi, True, False, "ab cd\n\n世 x", 1, HISTS[1], CLIPS[1],
                                         PREFIXES[name] + [k1, k2]))
    # Vi grammar: [count] operator [count] motion/text-object, and visual-mode selections + operator
    operators = [["d"], ["c"], ["y"], [">"], ["<"], ["g", "~"], ["g", "u"], ["g", "U"], ["g", "?"], ["g", "q"],
                 ["\"", "a", "d"], ["\"", "A", "y"], ["\"", "a", "c"], ["\"", "A", "c"], ["\"", "A", "d"]]
    objs = [[a, o] for a in "ia" for o in "wW()[]{}<>\"'`tbBps"] + \
           [["f", "x"], ["t", "c"], ["F", "a"], ["T", "x"], ["g", "g"], ["g", "e"], ["g", "E"], ["g", "_"], ["g", "m"],
            ["}"], ["{"], ["%"], ["$"], ["0"], ["^"], ["w"], ["b"], ["e"], ["G"], ["j"], ["k"], ["h"], ["l"], ["H"], ["L"],
            ["n"], ["N"], ["*"], ["#"], [";"], [","], ["|"], ["-"], ["+"], ["c-m"], [" "], ["c-h"]]
    vdocs = ["(ab 'x c') {d}\n  <t>q</t>\n\nlast w", "a", ""]
    grammar = []
    for op in operators:
        for cnt in ([], ["2"]):
            for ob in objs:
                for doc in vdocs:
                    grammar.append(keys_case(True, True, False, doc, min(5, len(doc)), HISTS[1], CLIPS[1],
                                             ["escape", "<flush>"] + cnt + op + ob + ["escape"]))
    for vis in (["v"], ["V"], ["c-v"]):
        for ob in objs:
            for vop in (["d"], ["c"], ["y"], ["~"], ["u"], ["U"], ["J"], [">"], ["<"], ["r", "x"], ["I", "z"],
                        ["A", "z"], ["x"], ["p"], ["\"", "a", "c"], ["\"", "A", "c"], ["\"", "A", "d"]):
                grammar.append(keys_case(True, True, False, vdocs[0], 5, HISTS[1], CLIPS[2],
                                         ["escape", "<flush>"] + vis + ob + vop + ["escape"]))
    # Emacs numeric arguments incl. negative and zero (Esc -, Esc 0, Esc - 3, Esc 1 2) before every key
    negarg = []
    for pre in (["escape", "-"], ["escape", "0"], ["escape", "-", "3"], ["escape", "1", "2"]):
        for kk in ALL_KEYS:
            for doc, cur in (("ab cd\n\n世 x", 1), ("ab cd\n\n世 x", 9), ("", 0)):
                for clip in (CLIPS[1], CLIPS[4], CLIPS[5]):
                    for ro in (False, True):
                        if ro and (clip is not CLIPS[1] or doc == ""):
                            continue
                        negarg.append(keys_case(False, True, ro, doc, cur, HISTS[1], clip, pre + [kk, kk]))
    # Vi block insert (insert-multiple mode): C-v <motion> I|A, then arrows / typed text / Backspace /
    # Delete / Escape.  The first group (one key after I|A) is run in both tiers.
    blk_core, blk_more = [], []
    bmotions = [["k"], ["j"], ["l"], ["h"], ["$"], ["k", "l"], ["j", "$"], ["k", "h"], ["j", "j"], []]
    btails = [["left"], ["right"], ["x"], ["世"], ["c-h"], ["delete"], ["escape"]]
    bdocs = [("ab\ncd", 5), ("ab\ncd", 1), ("abc\nde\nf", 9), ("abc\nde\nf", 5), ("a\n\nbc", 5)]
    for doc, cur in bdocs:
        for mo in bmotions:
            for ia in ("I", "A"):
                pre = ["escape", "<flush>", "c-v"] + mo + [ia]
                for t1 in btails:
                    blk_core.append(keys_case(True, True, False, doc, cur, HISTS[0], CLIPS[0], pre + t1 + ["escape"]))
                    for t2 in btails:
                        blk_more.append(keys_case(True, True, False, doc, cur, HISTS[0], CLIPS[0],
                                                  pre + t1 + t2 + ["right", "x", "escape"]))
    # completion menus: line completion / C-n / C-p / Tab, then a count (C-o <n> in Vi, Esc <n> in Emacs)
    # and a menu navigation key
    comp_core, comp_more = [], []
    cdocs = [("abc\nab zz", 6, HISTS[0]), ("al", 2, ["alpha beta", "alps"]), ("x\nab", 4, ["abc", "abd", "ab\nabe"])]
    navs = [["c-n"], ["c-p"], ["up"], ["down"], ["pageup"], ["pagedown"], ["c-i"], ["s-tab"]]
    for vi in (True, False):
        starters = [["c-x", "c-l"], ["c-n"], ["c-p"], ["c-i"]] if vi else [["c-i"], ["c-i", "c-i"], ["escape", "/"]]
        counts = [[], ["c-o", "2"], ["c-o", "5"], ["c-o", "9"], ["c-o"]] if vi else \
                 [[], ["escape", "2"], ["escape", "5"], ["escape", "9"], ["escape", "-"], ["escape", "0"]]
        for doc, cur, hist in cdocs:
            for st in starters:
                for cn in counts:
                    for nv in navs:
                        comp_core.append(keys_case(vi, True, False, doc, cur, hist, CLIPS[0], st + cn + nv))
                        for nv2 in navs:
                            comp_more.append(keys_case(vi, True, False, doc, cur, hist, CLIPS[0],
                                                       st + cn + nv + cn + nv2 + ["c-m"]))
    if tier == "thorough":
        out += grammar + negarg + blk_core + blk_more + comp_core + comp_more
    else:
        out += rng.sample(grammar, 250) + rng.sample(negarg, 400)
        out += blk_core + rng.sample(blk_more, 200) + comp_core + rng.sample(comp_more, 300)
    out += gen_yank_cases(tier, rng)
    out += gen_skeleton_cases(tier, rng)
    nrand = 1200 if tier == "quick" else 30000
    for _ in range(nrand):
        vi = rng.random() < 0.65
        ml = rng.random() < 0.5
        text = rng.choice(DOCS) if rng.random() < 0.3 else rand_text(rng, True)
        if not ml:
            text = text.replace("\n", " ")
        cur = rng.choice([0, len(text), rng.randrange(len(text) + 1)])
        n = rng.choice([1, 2, 3, 5, 8, 13, 20, 35, 60])
        ops = rand_keys(rng, n)
        if vi and rng.random() < 0.6:
            ops = ["escape", "<flush>"] + ops
        out.append(keys_case(vi, ml, rng.random() < 0.12, text, cur, rng.choice(HISTS), rng.choice(CLIPS), ops,
                             hs=rng.random() < 0.2, sug=rng.random() < 0.15, val=rng.random() < 0.15))
    return out


def gen_yank_cases(tier, rng):
    """Emacs history-reading commands: M-. / M-_ (yank-last-arg), M-C-y (yank-nth-arg), repeated (wrap-around
    through the history), each with no / positive / zero / negative / oversized numeric argument (M-- followed by
    digits, M-<n>), over histories whose entries have 0, 1, 2, 3 words, only blanks, quoted words"""
    out = []
    cmds = [["escape", "."], ["escape", "_"], ["escape", "c-y"]]
    args = [[], ["escape", "-"], ["escape", "0"], ["escape", "1"], ["escape", "2"], ["escape", "9"],
            ["escape", "-", "1"], ["escape", "-", "5"], ["escape", "-", "escape", "5"], ["escape", "1", "2"],
            ["escape", "-", "escape", "2"]]
    for hist in YANK_HISTS:
        for cmd in cmds:
            for arg in args:
                for rep in (1, 2, 4):
                    if tier == "quick" and rep == 2:
                        continue
                    ops = []
                    for i in range(rep):
                        ops += (arg if i == 0 or rep == 2 else []) + cmd
                    out.append(keys_case(False, len(hist) % 2 == 0, False, "ab c", 2, hist, CLIPS[0], ops + ["x", "c-_"]))
    # mixed: argument only before a later repetition, another command in between, read-only buffer, Vi insert mode
    for hist in YANK_HISTS:
        for cmd in cmds:
            out.append(keys_case(False, False, False, "", 0, hist, CLIPS[0], cmd + ["escape", "-", "3"] + cmd + cmd))
            out.append(keys_case(False, False, False, "q", 1, hist, CLIPS[0], cmd + ["left"] + cmd + ["escape", "5"] + cmd))
            out.append(keys_case(False, True, True, "ro", 1, hist, CLIPS[0], ["escape", "-"] + cmd + cmd))
            out.append(keys_case(False, False, False, "w", 1, hist, CLIPS[0], ["escape", "<"] + cmd + ["escape", ">"] + cmd))
    return out


# representatives of every key CLASS of the mode skeleton (lean/Ptk/Model/C05Skel.lean)
VI_REPS = ["escape", "c-o", "v", "V", "c-v", "d", "c", "y", ">", "g", "~", "w", "b", "$", "j", "i", "a", "I", "A",
           "o", "R", "r", "s", "C", "x", "c-k", "c-q", "q", "@", ":", "2", "0", "/", "c-m", "c-r", "c-g", "J", "u",
           "p", "f", "\"", "<flush>", "left", "up", "c-h", "delete", "insert", "z", "<paste:p>", "<paste:>", "c-j",
           "c-x", "c-l", "c-n"]
VI_CORE = ["escape", "c-o", "v", "V", "c-v", "d", "c", "y", "g", "w", "i", "A", "R", "r", "x", "c-k", "c-q", "q", "@",
           "2", "0", "/", "c-m", "c-g", "u", "f", "\"", "<flush>", "left", "insert", "<paste:>", "c-j", "c-h", "I"]
EMACS_REPS = ["escape", "c-@", "s-right", "s-left", "c-s-end", "s-up", "right", "left", "x", "c-g", "c-w", "c-q", "c-x",
              "(", ")", "e", "c-r", "c-s", "c-m", "c-j", "-", "3", "0", "c-y", "c-h", "c-c", "<", ">", "c-o", "w", "<flush>",
              "<paste:p>", "c-_", "n", "/", "c-d", "up"]
SK_STARTS = {"vi-ins": (True, []), "vi-nav": (True, ["escape", "<flush>"]), "vi-rep": (True, ["escape", "<flush>", "R"]),
             "vi-vis": (True, ["escape", "<flush>", "v"]), "vi-search": (True, ["escape", "<flush>", "/"]),
             "emacs": (False, []), "emacs-sel": (False, ["c-@", "right"]), "emacs-search": (False, ["c-r"])}


def gen_skeleton_cases(tier, rng):
    """key-class sequences for the mode-skeleton correspondence (and for the Escape / invariant oracle):
    exhaustive over representatives of every key class up to a length bound, from every start mode"""
    import itertools
    out = []
    doc, cur = "ab cd\nef", 4

    def case(vi, ro, ops, text=doc, c=cur, clip=CLIPS[1]):
        return keys_case(vi, True, ro, text, c, HISTS[1], clip, ops)

    # (1) the families around temporary navigation mode: from insert / replace / search-insert mode C-o, then a
    #     selection / operator / digraph / count / pending <any> key, optional motions, Escape, and a probe key
    pres = [[], ["escape", "<flush>", "R"], ["escape", "<flush>", "/"], ["escape", "<flush>", "A"]]
    heads = [["v"], ["V"], ["c-v"], ["d"], ["c"], ["y"], ["g", "~"], [">"], ["\"", "a", "d"], ["\"", "A", "c", "w"],
             ["\"", "a", "c", "w"], ["v", "\"", "A", "c"], ["v", "\"", "a", "c"], ["v", "\"", "A", "d"], ["2"], ["f"], ["r"],
             ["q", "a"], ["c-k"], ["v", "i", "w"], ["V", "j"], ["c-v", "l", "j"], ["/"], ["R"], ["i"], ["2", "d"]]
    mids = [[], ["l"], ["b"], ["2"]]
    for pre in pres:
        for hd in heads:
            for mid in mids:
                for co in (["c-o"], ["c-k", "a", "c-o"] if hd == ["v"] else None):
                    if co is None:
                        continue
                    out.append(case(True, False, pre + co + hd + mid + ["escape", "x", "escape"]))
    # (2) selection + Escape from every mode (incl. read-only, Emacs: Escape is a prefix there)
    for name, (vi, pre) in SK_STARTS.items():
        for selk in (["v"], ["V"], ["c-v"], ["c-o", "v"], ["c-o", "V"], ["c-o", "c-v"], ["c-@", "right"], ["s-right"],
                     ["s-right", "s-left"]):
            for ro in (False, True):
                out.append(case(vi, ro, pre + selk + ["escape", "<flush>", "x"]))
                out.append(case(vi, ro, pre + selk + ["l", "escape", "escape", "x"]))
    # (3) every sequence of key-class representatives up to a length bound, from every start mode
    def seqs(reps, n):
        return itertools.product(reps, repeat=n)
    if tier == "quick":
        plan = [("vi-nav", VI_CORE, 2), ("vi-rep", VI_CORE, 1), ("vi-vis", VI_REPS, 1),
                ("vi-search", VI_REPS, 1), ("vi-ins", VI_REPS, 1), ("vi-nav", VI_REPS, 1),
                ("emacs-sel", EMACS_REPS, 1), ("emacs-search", EMACS_REPS, 1), ("emacs", EMACS_REPS, 1)]
        # pairs from the insert states: first keys that are commands there (the others self-insert)
        for k1 in ["escape", "c-o", "c-k", "c-q", "c-v", "insert", "c-j", "c-m", "c-h", "left", "<paste:>", "<flush>", "x"]:
            for k2 in VI_CORE:
                out.append(case(True, False, [k1, k2, "escape"]))
        for k1 in EMACS_REPS[:20]:
            for k2 in EMACS_REPS:
                out.append(case(False, False, [k1, k2]))
    else:
        plan = [("vi-ins", VI_REPS, 2), ("vi-nav", VI_REPS, 2), ("vi-rep", VI_REPS, 2), ("vi-vis", VI_REPS, 2),
                ("vi-search", VI_REPS, 2), ("emacs", EMACS_REPS, 2), ("emacs-sel", EMACS_REPS, 2),
                ("emacs-search", EMACS_REPS, 2)]
        # triples: the first key from the keys that change the mode skeleton
        for k1 in ["escape", "c-o", "c-k", "c-q", "c-v", "insert", "c-j", "<flush>"]:
            for k2, k3 in seqs(VI_CORE, 2):
                out.append(case(True, False, [k1, k2, k3, "escape"]))
        for k1 in VI_CORE[:18]:
            for k2, k3 in seqs(VI_CORE, 2):
                out.append(case(True, False, ["escape", "<flush>", k1, k2, k3, "escape"]))
        for k1 in EMACS_REPS[:12]:
            for k2, k3 in seqs(EMACS_REPS[:24], 2):
                out.append(case(False, False, [k1, k2, k3]))
    for name, reps, n in plan:
        vi, pre = SK_STARTS[name]
        for tup in seqs(reps, n):
            out.append(case(vi, False, pre + list(tup) + (["escape"] if vi else [])))
    # read-only buffer: single keys and pairs over the core set (navigation bindings are taken in every input mode)
    for tup in itertools.chain(seqs(VI_CORE, 1), seqs(VI_CORE[:16], 2)):
        out.append(case(True, True, list(tup) + ["escape"]))
    if tier == "quick":
        # a seeded sample of triples
        for _ in range(300):
            name = rng.choice(["vi-ins", "vi-nav", "vi-vis", "vi-rep", "vi-search", "emacs", "emacs-sel"])
            vi, pre = SK_STARTS[name]
            reps = VI_REPS if vi else EMACS_REPS
            out.append(case(vi, rng.random() < 0.1, pre + [rng.choice(reps) for _ in range(3)] + (["escape"] if vi else []),
                            text=rng.choice([doc, "", "a"]), c=0))
    return out


def _keys_worker(chunk):
    """real editor + Lean driver + comparison for a chunk of key sessions; returns small verdicts"""
    runs, lines, spans = [], [], []
    for c in chunk:
        try:
            r = run_keys(c)
        except Exception as e:  # harness problem: reported as a divergence by the main pass
            r = {"model": ["harness-exception"], "impl": ["harness-exception:" + repr(e)[:200]], "viol": [],
                 "stats": {"keys": 0, "prims": 0, "hang": 0, "done": 0, "handlers": 0, "sk": 0, "sk_resync": 0}}
        spans.append((len(lines), len(r["model"])))
        lines += r["model"]
        runs.append(r)
    try:
        mout = core.run_driver(DRIVER, lines)
    except Exception:
        mout = None
    res = []
    for r, (a, n) in zip(runs, spans):
        div = mout is None or mout[a:a + n] != r["impl"]
        res.append({"div": div, "viol": r["viol"], "stats": r["stats"], "nlines": n})
    return res


def precompute_keys(cases):
    """run every key session once (worker pool) and remember the verdicts in `_PRE`
    (sessions already run in this process -- the enumerated part under seed escalation -- are not repeated)"""
    procs = int(os.environ.get("VERIF_PROCS", "0")) or min(16, os.cpu_count() or 4)
    for c in cases:
        c["tkey"] = case_key(c)
    todo, seen = [], set()
    for c in cases:
        if c["tkey"] not in _PRE and c["tkey"] not in seen:
            seen.add(c["tkey"])
            todo.append(c)
    if len(todo) < 32 or procs == 1:
        res = _keys_worker(todo)
    else:
        import multiprocessing as mp
        n = max(1, min(len(todo) // (procs * 4), 400))
        chunks = [todo[i:i + n] for i in range(0, len(todo), n)]
        with mp.get_context("fork").Pool(procs) as pool:
            res = [t for r in pool.map(_keys_worker, chunks) for t in r]
    for c, r in zip(todo, res):
        _PRE[c["tkey"]] = r
    return cases


# ---- api / call generators
def api_single_ops(n, nlines):
    ops = []
    for v in range(-1, n + 2):
        ops.append(["cur", v])
        ops.append(["move", v - 1])
    for t in ["", "a", "a\nb", "世世世"]:
        ops.append(["text", t])
        for c in range(-1, len(t) + 2):
            for bp in (0, 1):
                ops.append(["doc", t, c, bp])
        for c in range(0, len(t) + 2):
            ops.append(["reset", t, c])
        ops.append(["appendleft", t])
        for c in (0, len(t)):
            ops.append(["cutsel", t, c])
    for i in range(nlines + 1):
        ops += [["widx", i], ["goto", i], ["search", i, 1]]
    ops += [["save", 0], ["save", 1], ["undo"], ["redo"], ["exitsel"]]
    ops += [["startsel", t] for t in (0, 1, 2)]
    for d in ["", "x", "\n", "xy"]:
        for o in (0, 1):
            for m in (0, 1):
                ops.append(["ins", d, o, m])
    for k in range(n + 2):
        ops += [["del", k], ["delb", k]]
    for c in (-1, 0, 1, 2, 5):
        ops += [["hfwd", c], ["hback", c]]
    return ops


def rand_api_op(rng, n, nlines, last):
    RA = ["a", "b", " ", "\n", "世", "x"]

    def rt(k=4):
        return "".join(rng.choice(RA) for _ in range(rng.randrange(0, k)))
    k = rng.randrange(20)
    if k == 0:
        return ["cur", rng.randrange(-3, n + 4)]
    if k == 1:
        return ["move", rng.randrange(-n - 2, n + 3)]
    if k == 2:
        return ["text", rt(6)]
    if k == 3:
        t = rt(6)
        return ["doc", t, rng.randrange(-2, len(t) + (2 if rng.random() < 0.1 else 1)), int(rng.random() < 0.2)]
    if k == 4:
        if last and rng.random() < 0.3:
            return ["widx", nlines + rng.randrange(0, 2)]
        return ["widx", rng.randrange(nlines)]
    if k == 5 and rng.random() < 0.3:
        t = rt(5)
        return ["reset", t, rng.randrange(0, len(t) + 1)]
    if k == 6:
        return ["save", rng.randrange(2)]
    if k == 7:
        return ["undo"]
    if k == 8:
        return ["redo"]
    if k == 9:
        return ["startsel", rng.randrange(3)]
    if k == 10:
        return ["exitsel"]
    if k == 11:
        return ["appendleft", rt(5)]
    if k == 12:
        return ["ins", rt(4), rng.randrange(2), rng.randrange(2)]
    if k == 13:
        return ["del", rng.choice([0, 1, 2, n, n + 3])]
    if k == 14:
        return ["delb", rng.choice([0, 1, 2, n, n + 3])]
    if k == 15:
        return ["hfwd", rng.choice([1, 1, 2, 0, -1, 5])]
    if k == 16:
        return ["hback", rng.choice([1, 1, 2, 0, -1, 5])]
    if k == 17:
        return ["goto", rng.randrange(nlines + 2)]
    if k == 18:
        return ["search", rng.randrange(nlines), rng.randrange(-1, n + 3)]
    t = rt(5)
    return ["cutsel", t, rng.randrange(0, len(t) + 1)]


def rand_init(rng, small=False):
    RA = ["a", "b", " ", "\n", "世", "x"]
    nl = rng.choice([1, 1, 2, 3, 5])
    lines = ["".join(rng.choice(RA) for _ in range(rng.choice([0, 1, 2, 4, 9]))) for _ in range(nl)]
    idx = rng.randrange(nl)
    cur = rng.choice([0, len(lines[idx]), rng.randrange(len(lines[idx]) + 1)])
    return {"lines": lines, "idx": idx, "cur": cur, "ro": int(rng.random() < 0.15), "hs": int(rng.random() < 0.3)}


def track(op, n, nlines, program=False):
    """generator-side bookkeeping of (some upper bound of) text length and of the number of working
    lines.  Inside a handler program an op may be skipped (an earlier op raised), so `nlines` must
    stay a LOWER bound there: an `appendleft` is not counted."""
    if op[0] == "appendleft" and not program:
        nlines += 1
    if op[0] == "reset":
        nlines = 1
    if op[0] in ("text", "doc", "reset", "cutsel"):
        n = len(op[1])
    if op[0] == "ins":
        n += len(op[1])
    return max(n, 6), nlines


def gen_api_cases(tier, rng):
    import itertools
    alpha = ["a", "\n"] if tier == "quick" else ["a", "\n", "世"]
    maxlen = 2 if tier == "quick" else 3
    for n in range(maxlen + 1):
        for tup in itertools.product(alpha, repeat=n):
            text = "".join(tup)
            for cur in range(n + 1):
                for lines, idx in (([text], 0), (["h1", text, "z"], 1)):
                    for ro in (0, 1):
                        init = {"lines": lines, "idx": idx, "cur": cur, "ro": ro, "hs": 0}
                        yield {"kind": "api", "init": init, "fresh": True, "ops": api_single_ops(n, len(lines))}
    nrand = 2000 if tier == "quick" else 40000
    for _ in range(nrand):
        init = rand_init(rng)
        n, nlines = len(init["lines"][init["idx"]]), len(init["lines"])
        k = rng.randrange(1, 16)
        ops = []
        for j in range(k):
            op = rand_api_op(rng, n, nlines, j == k - 1)
            ops.append(op)
            n, nlines = track(op, n, nlines)
        yield {"kind": "api", "init": init, "fresh": False, "ops": ops}


def rand_hop(rng, n, nlines):
    k = rng.randrange(14)
    if k == 0:
        return ["mode", rng.randrange(5)]
    if k == 1:
        return ["setop", rng.randrange(2), rng.choice([None, 1, 3])]
    if k == 2:
        return ["digraph", rng.randrange(2), rng.choice([None, "a", ":"])]
    if k == 3:
        return ["tempnav", rng.randrange(2)]
    if k == 4:
        return ["arg", rng.choice([None, "3", "-", "12"])]
    if k == 5 and rng.random() < 0.3:
        return ["vireset"]
    if k == 6 and rng.random() < 0.4:
        return ["sel", rng.randrange(-2, n + 3), rng.randrange(3)]
    if k == 7 and rng.random() < 0.4:
        return ["multi", [rng.randrange(-1, n + 3) for _ in range(rng.randrange(0, 3))]]
    if k == 8:
        # end-of-line biased cursor moves: what _fix_vi_cursor_position is about
        return ["cur", rng.choice([n, n - 1, 0, rng.randrange(0, n + 2)])]
    op = rand_api_op(rng, n, nlines, False)
    while op[0] in ("widx", "search", "goto") and op[1] >= nlines:
        op = rand_api_op(rng, n, nlines, False)
    return op


def gen_call_cases(tier, rng):
    n_cases = 1200 if tier == "quick" else 25000
    for _ in range(n_cases):
        init = rand_init(rng)
        n, nlines = len(init["lines"][init["idx"]]), len(init["lines"])
        cfg = {"vi": int(rng.random() < 0.85), "mode": rng.choice([0, 2, 2, 2, 3, 1, 4]), "op": int(rng.random() < 0.15),
               "oparg": rng.choice([None, None, 2]), "dg": int(rng.random() < 0.1), "dg1": rng.choice([None, None, "a"]),
               "tn": int(rng.random() < 0.2), "arg": rng.choice([None, None, "4"])}
        steps = []
        accepted = False
        for _ in range(rng.randrange(1, 6)):
            r = rng.random()
            if r < 0.2:
                h = rand_hop(rng, n, nlines)
                steps.append(["hop", h])
                n, nlines = track(h, n, nlines, program=True)
            elif r < 0.93 or accepted:
                prog = []
                for _ in range(rng.randrange(0, 5)):
                    h = rand_hop(rng, n, nlines)
                    prog.append(h)
                    n, nlines = track(h, n, nlines, program=True)
                steps.append(["call", int(rng.random() < 0.5), prog])
            else:
                v = rng.choice([None, None, 0, -3, n + 4, 1])
                steps.append(["accept", v])
                break
        yield {"kind": "call", "init": init, "app": cfg, "ops": steps}


API2_INTS = [-7, -2, -1, 0, 1, 2, 3, 9]
API2_COMPS = [[], [["alpha", 0]], [["x", -1], ["", 0], ["yy z", -2]], [["q", -9], ["r", 1]]]


def api2_single_ops():
    ops = []
    for n in [None] + API2_INTS:
        for last in (0, 1):
            ops.append(["yank", n, last])
    for i in [None] + API2_INTS:
        ops.append(["gotoc", i])
    for c in API2_INTS:
        for w in (0, 1):
            ops += [["cnext", c, w], ["cprev", c, w]]
        ops += [["updown", c, 0], ["updown", c, 1]]
        for g in (0, 1):
            ops += [["aup", c, g], ["adown", c, g]]
    ops.append(["ccancel"])
    for st in (-9, -2, -1, 0, 1):
        ops.append(["capply", "cm", st])
    for cs in API2_COMPS:
        ops.append(["setc", cs])
    ops += [["copysel", 0], ["copysel", 1]]
    for text in ("", "x", "p\nq"):
        for ty in (0, 1, 2):
            for mode in (0, 1, 2):
                for count in (-1, 0, 1, 2):
                    ops.append(["paste", text, ty, mode, count])
    for r in ("", "Zz", "\n"):
        ops.append(["tcl", r])
    for f in API2_INTS:
        for t in API2_INTS:
            ops.append(["treg", f, t, "R"])
    ops += [["joinn", " "], ["joinn", ""], ["joins", " "], ["joins", ""], ["swap"]]
    for cm in (0, 1):
        ops += [["nl", cm], ["ila", cm], ["ilb", cm]]
    for t in ("", "q\n", "a\nb", "\n"):
        ops.append(["edres", t])
    ops += [["tl", "> ", [-5, -1, 0, 1, 7]], ["tl", "", [0, 0, 2]], ["tl", "#", []]]
    ops += [["old", ["hback", c]] for c in (-1, 0, 1, 5)] + [["old", ["hfwd", c]] for c in (-1, 0, 1, 5)]
    ops += [["old", ["goto", i]] for i in (0, 1, 2, 3)] + [["old", ["startsel", 1]], ["old", ["exitsel"]],
                                                            ["old", ["undo"]], ["old", ["redo"]]]
    return ops


def rand_api2_op(rng, n, nlines):
    RA = ["a", "b", " ", "\n", "世", "'", "\""]

    def rt(k=4):
        return "".join(rng.choice(RA) for _ in range(rng.randrange(0, k)))
    ri = lambda: rng.choice(API2_INTS + [rng.randrange(-n - 2, n + 3)])  # noqa
    k = rng.randrange(24)
    if k == 0:
        return ["yank", rng.choice([None, None, ri()]), rng.randrange(2)]
    if k == 1:
        return ["setc", [[rt(4), rng.choice([0, 0, -1, -2, -n, -n - 3])] for _ in range(rng.randrange(0, 4))]]
    if k == 2:
        return ["gotoc", rng.choice([None, 0, 1, 2, ri()])]
    if k == 3:
        return [rng.choice(["cnext", "cprev"]), rng.choice([1, 1, 2, 0, ri()]), rng.randrange(2)]
    if k == 4:
        return ["ccancel"]
    if k == 5:
        return ["capply", rt(4), rng.choice([0, -1, -2, -n - 1, 1])]
    if k == 6:
        return ["updown", rng.choice([1, 2, ri()]), rng.randrange(2)]
    if k in (7, 8):
        return [rng.choice(["aup", "adown"]), rng.choice([1, 1, 2, ri()]), rng.randrange(2)]
    if k == 9:
        return ["copysel", rng.randrange(2)]
    if k == 10:
        return ["paste", rt(5), rng.randrange(3), rng.randrange(3), rng.choice([1, 1, 2, 0, -1, 3])]
    if k == 11:
        return ["tcl", rt(4)]
    if k == 12:
        return ["treg", ri(), ri(), rt(3)]
    if k == 13:
        return ["joinn", rng.choice([" ", "", "--"])]
    if k == 14:
        return ["joins", rng.choice([" ", ""])]
    if k == 15:
        return ["swap"]
    if k == 16:
        return [rng.choice(["nl", "ila", "ilb"]), rng.randrange(2)]
    if k == 17:
        return ["edres", rt(6)]
    if k == 18:
        return ["tl", rt(3), [ri() for _ in range(rng.randrange(0, 4))]]
    if k == 19:
        return ["old", ["startsel", rng.randrange(3)]]
    op = rand_api_op(rng, n, nlines, False)
    while op[0] in ("widx", "search", "goto") and op[1] >= nlines or op[0] in ("appendleft", "reset", "cutsel"):
        op = rand_api_op(rng, n, nlines, False)
    return ["old", op]


def gen_api2_cases(tier, rng):
    import itertools
    texts = ["", "a", "a b", "ab\ncd", "\n", " x\n  y z"]
    hists = [[], ["   "], ["ls -l"], ["x", "  ", "a 'b c' \"d e\" f"]]
    pres = [[], [["setc", API2_COMPS[2]]], [["setc", API2_COMPS[2]], ["gotoc", 0]], [["setc", API2_COMPS[2]], ["gotoc", 2]],
            [["setc", API2_COMPS[0]]], [["yank", None, 1]], [["yank", 0, 0], ["yank", None, 0]]]
    combos = []
    for text in texts:
        for cur in sorted({0, len(text) // 2, len(text)}):
            for lines, idx in (([text], 0), (["h1 w", text, "z"], 1)):
                for hist in hists:
                    for ro in (0, 1):
                        for sel in (None, [0, 0], [len(text), 1]):
                            for pre in pres:
                                combos.append((text, cur, lines, idx, hist, ro, sel, pre))
    combos = rng.sample(combos, 70 if tier == "quick" else 1200)
    single = api2_single_ops()
    for (text, cur, lines, idx, hist, ro, sel, pre) in combos:
        init = {"lines": lines, "idx": idx, "cur": cur, "ro": ro, "hs": 0, "hist": hist, "sel": sel}
        yield {"kind": "api2", "init": init, "fresh": True, "ops": [[pre, op] for op in single]}
    nrand = 1500 if tier == "quick" else 25000
    for _ in range(nrand):
        init = rand_init(rng)
        init["hist"] = rng.choice(hists + [["one two", "", "'q' r"]])
        init["sel"] = rng.choice([None, None, [rng.randrange(len(init["lines"][init["idx"]]) + 1), rng.randrange(3)]])
        n, nlines = len(init["lines"][init["idx"]]), len(init["lines"])
        yield {"kind": "api2", "init": init, "fresh": False,
               "ops": [rand_api2_op(rng, max(n, 6), nlines) for _ in range(rng.randrange(1, 14))]}
    # the _QUOTED_WORDS_RE scanner against `re`: every string over a 6-symbol alphabet up to a length bound
    alpha = ["a", " ", "\"", "'", "\n", "\t"]
    maxlen = 5 if tier == "quick" else 6
    batch = []
    for ln in range(maxlen + 1):
        for tup in itertools.product(alpha, repeat=ln):
            batch.append("".join(tup))
            if len(batch) == 400:
                yield {"kind": "qw", "texts": batch}
                batch = []
    for _ in range(400 if tier == "quick" else 4000):
        batch.append("".join(rng.choice(alpha + ["b", "世", "\u00a0", "\r", "\x1c", "\u2028"]) for _ in range(rng.randrange(0, 16))))
    yield {"kind": "qw", "texts": batch}


def cases(tier, rng):
    out = list(gen_api_cases(tier, rng)) + list(gen_call_cases(tier, rng)) + list(gen_api2_cases(tier, rng))
    out += precompute_keys(gen_keys_cases(tier, rng))
    return out


# =====================================================================================
# evidence helpers
# =====================================================================================
def sample_view(case):
    c = {k: v for k, v in case.items() if k not in ("trace", "tkey")}
    if case["kind"] in ("api", "api2") and case.get("fresh"):
        c["ops"] = case["ops"][:4] + [f"... {len(case['ops'])} single ops, each from a fresh init"]
    if case["kind"] == "qw":
        c["texts"] = case["texts"][:6] + [f"... {len(case['texts'])} lines"]
    if case["kind"] == "keys":
        p = _PRE.get(case.get("tkey"))
        if p:
            c["api_calls_replayed_on_the_model"] = p["stats"]["prims"]
    return c


def nontrivial(case):
    if case["kind"] == "keys":
        p = _PRE.get(case.get("tkey"))
        # at least one API call was made by a handler, or a handler ran (skeleton step)
        return bool(p) and (p["stats"]["prims"] > 0 or p["stats"]["handlers"] > 0)
    if case["kind"] == "qw":
        return len(case["texts"]) > 0
    return len(case["ops"]) > 0


def distribution(cases_):
    d = {"kind": {}, "keys_mode": {}, "keys_len": {}, "api_ops": {},
         "search": {"note": "the key-session part is SEARCH (exploration of the real editor), not proof",
                    "key_sessions": 0, "keys_fed": 0, "handler_calls": 0, "api_calls_traced": 0,
                    "model_lines_replayed": 0, "skeleton_keys_compared": 0, "skeleton_resyncs_after_macro": 0,
                    "sessions_accepted": 0, "sessions_cut_by_watchdog": 0,
                    "read_only_sessions": 0,
                    "multiline_sessions": 0, "vi_sessions": 0, "emacs_sessions": 0}}
    s = d["search"]
    seen = set()
    for c in cases_:
        d["kind"][c["kind"]] = d["kind"].get(c["kind"], 0) + 1
        if c["kind"] == "keys":
            if c.get("tkey") in seen:     # the enumerated part repeats under seed escalation
                continue
            seen.add(c.get("tkey"))
            s["key_sessions"] += 1
            p = _PRE.get(c.get("tkey"))
            if p:
                s["keys_fed"] += p["stats"]["keys"]
                s["handler_calls"] += p["stats"]["handlers"]
                s["api_calls_traced"] += p["stats"]["prims"]
                s["model_lines_replayed"] += p["nlines"]
                s["skeleton_keys_compared"] += p["stats"].get("sk", 0)
                s["skeleton_resyncs_after_macro"] += p["stats"].get("sk_resync", 0)
                s["sessions_accepted"] += p["stats"]["done"]
                s["sessions_cut_by_watchdog"] += p["stats"]["hang"]
            s["read_only_sessions"] += int(bool(c["ro"]))
            s["multiline_sessions"] += int(bool(c["ml"]))
            s["vi_sessions" if c["vi"] else "emacs_sessions"] += 1
            b = len(c["ops"])
            key = str(b) if b < 5 else ("5-9" if b < 10 else "10-29" if b < 30 else "30+")
            d["keys_len"][key] = d["keys_len"].get(key, 0) + 1
        elif c["kind"] == "api":
            for op in c["ops"]:
                d["api_ops"][op[0]] = d["api_ops"].get(op[0], 0) + 1
        elif c["kind"] == "api2":
            for op in c["ops"]:
                o = op[1] if c.get("fresh") else op
                name = "api2:" + (o[0] if o[0] != "old" else o[1][0])
                d["api_ops"][name] = d["api_ops"].get(name, 0) + 1
    return d


def _patch_evidence():
    """add the explicit `search` block to coverage (core writes the rest)"""
    p = os.path.join(core.ROOT, "evidence", f"{ID}.json")
    try:
        ev = json.load(open(p))
        dist = ev["coverage"].get("distribution", {})
        if "search" in dist:
            ev["coverage"]["search"] = dist["search"]
            ev["coverage"]["correspondence"]["model_lines"] += dist["search"]["model_lines_replayed"]
            ev["coverage"]["correspondence"]["note"] = (
                "key sessions are replayed on the model inside the generating worker; their "
                f"{dist['search']['model_lines_replayed']} protocol lines are included in model_lines")
            ev["coverage"]["level_detail"] = ("proof (partial): choke points and the mode skeleton of the key state "
                                              "machine proved; crash-freedom and per-handler cursor invariants searched")
            core.write_json(p, ev)
    except Exception:
        pass


if __name__ == "__main__":
    rc = core.main(sys.modules[__name__])
    _patch_evidence()
    sys.exit(rc)
