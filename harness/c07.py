#!/venv/bin/python
"""C07 — undo / redo: correspondence with Ptk.Model.C07 + property oracle.

Two kinds of cases:

  api   a bare `Buffer` driven through its API: edits, save_to_undo_stack(clear), undo(), redo(),
        reset().  The model predicts text, cursor and both stacks after every call.
  keys  a real `PromptSession` (emacs or vi mode), keys fed one by one into the real
        `KeyProcessor`.  Every call of `KeyProcessor._call_handler` is observed (handler identity,
        the binding's `save_before` as a function of is_repeat, the Buffer.undo()/redo() calls made
        by the handler, state before/after).  The body of a non-undo handler is a parameter of the
        model (its observed result is passed in); the model predicts the is_repeat decision, the
        boundary save, both stacks, `_previous_handler`, and the complete effect of undo / redo.
"""
from __future__ import annotations

import asyncio
import itertools
import json
import os
import sys
import types

sys.path.insert(0, os.path.dirname(os.path.abspath(__file__)))
import core
from core import enc_str

from prompt_toolkit.buffer import Buffer
from prompt_toolkit.document import Document

ID = "C07"
DRIVER = "drv_c07"
PROPS = ["Ptk.Props.C07"]
TECHNIQUE = "Lean 4 proof over an executable model + differential correspondence + property oracle"
LEVEL_TEXT = ("Lean 4 theorems over an executable model of Buffer.save_to_undo_stack / undo / redo / reset and of the "
              "command boundary of KeyProcessor._call_handler (is_repeat, save_before): for every session (any handler "
              "bodies, any save_before rules, any initial document) the undo stack is a subsequence of the log of "
              "(text, cursor) states held at command boundaries, every undo restores such a strictly earlier state with "
              "a different text, successive undos walk the log backwards, repeated undo reaches the initial text, a run "
              "of one if_no_repeat handler (also followed by motions / Escape) is undone as one group, redo after undo "
              "restores (text, cursor) exactly (also n-fold, and undo after redo), every editing command leaves the "
              "redo stack empty, snapshots stay valid documents; hypothesis-free instances for the shipped emacs and "
              "Vi bindings of a fully modelled key set; the model is tied to /repo on every run by a differential "
              "correspondence (bare Buffer API; real PromptSession key processor in emacs and vi mode with observed "
              "handler bodies; fully modelled emacs and vi key sets) and the property oracle on the real objects")
LEVEL_NOTE = ("trusted: Lean kernel, axioms propext/Classical.choice/Quot.sound only; the hand-written model "
              "(validated by the correspondence, not proved equal to the Python); in the 'keys' cases handler bodies "
              "other than undo/redo are parameters (their observed result is fed to the model), in the 'ekeys'/'vkeys' "
              "cases the model predicts everything from the key names alone")
RULE = ("api: every sequence over {save(1), save(0), ins a, ins b, backspace, cursor=0, undo, redo} up to the tier's "
        "length from two initial documents, every sequence of save-then-edit commands/undo/redo up to the tier's "
        "length, then seeded random sequences (<= 40 calls incl. reset, text/cursor/document setters, unicode); keys: "
        "(cursor position reports are injected at random key boundaries of the sampled / random sessions) "
        "every key sequence up to the tier's length over a small emacs and a small vi alphabet (incl. undo keys, a redo "
        "binding, custom bindings with if_no_repeat / only-on-repeat rules), then seeded random sessions (<= 40 keys "
        "over ~70 emacs / ~60 vi key tokens, single and multi line, with history, macros, counts, paste, with tails of "
        "repeated undo/redo); ekeys/vkeys: every sequence up to the tier's length over the fully modelled emacs / vi "
        "key sets, then random ones (<= 30 keys, multi-line and wide characters); a case is non-trivial when at least "
        "one undo or redo changed the buffer")
EXHAUSTIVE = True
EXHAUSTIVE_SCOPE = {
    "quick": "api: all sequences len<=4 over 8 calls x 2 initial docs, all command sequences len<=4 over 7 commands; "
             "keys: all sequences len<=2 over 9 emacs keys and 9 vi keys (+150 sampled of len 3-5 each); fully modelled "
             "emacs keys: all sequences len<=3 over {a, b, backspace, left, c-k, c-_, c-x c-u, redo} (+250 sampled of len 4-5); "
             "fully modelled vi keys: all sequences len<=3 over {i, a, x, u, escape, redo} (+200 sampled of len 4-6)",
    "thorough": "api: all sequences len<=5 over 8 calls x 2 initial docs, all command sequences len<=5 over 7 commands; "
                "keys: all sequences len<=3 over 9 emacs keys and 9 vi keys (+1000 sampled of len 4-6 each); fully "
                "modelled emacs keys: all sequences len<=4 over {a, b, backspace, left, c-k, c-_, c-x c-u, redo} (+2000 sampled "
                "of len 5-7); fully modelled vi keys: all sequences len<=4 over {i, a, x, u, escape, redo} (+1500 "
                "sampled of len 5-8)"}
TRUSTED = ["harness/c07.py observes every KeyProcessor._call_handler call by wrapping the bound method on the instance "
           "(the real method runs unchanged inside) and counts Buffer.undo()/redo()/save_to_undo_stack() calls the same way",
           "the save_before rule of a binding is read by calling binding.save_before on two stub events (is_repeat False/True); "
           "in the ekeys/vkeys cases the rules and handler identities are the static tables of the Lean model instead",
           "Ptk/Model/C07.lean is a hand translation of buffer.py undo machinery, _call_handler, _fix_vi_cursor_position and of "
           "11 emacs / 6 vi key handlers (correspondence-checked)"]
ASSUMPTIONS = ["CPython list append/pop and str equality semantics",
               "one focused buffer per session (keys that move the focus to the search/system buffer are not generated)",
               "in 'keys' cases handler bodies are parameters: the model is told the (text, cursor) a non-undo handler produced",
               "snapshots satisfy cursor <= len(text) (proved for the model: snapshots_valid), so Document() never asserts in undo/redo",
               "a session = one Buffer.reset(); accept / abort (which reset the buffer) start a new session and are not generated"]
PARTIAL_SCOPE = ["exceptions raised by handlers (KeyProcessor.reset() on error) and read-only buffers are not modelled "
                 "(a read-only buffer's undo() pops the stack and then raises EditReadOnlyBuffer)",
                 "several buffers / focus changes (search, system prompt) are not modelled: save_before acts on app.current_buffer",
                 "Vi 'u' with a count is modelled as n Buffer.undo() calls in one command (theorems: Body.undo n); there is no redo "
                 "binding in the library (redo is driven through the Buffer API and a harness-defined binding)",
                 "KeyBindings caches that re-create Binding objects when bindings are added at run time (is_repeat is identity "
                 "based) are outside the sessions generated here",
                 "the hypothesis-free theorems cover the fully modelled key sets only; for all other bindings the general "
                 "theorems apply under WF (handler kind fixed per binding, editing bindings save when not a repeat), which the "
                 "correspondence observes on every generated session but does not prove for the whole binding table"]

GROUP_SIG = "undo after run of repeated char insert/delete | run not undone as one group"

# ------------------------------------------------------------------ encoding


def enc_stack(st):
    return " ".join([str(len(st))] + [f"{enc_str(t)} {c}" for t, c in st])


def state_line(text, cur, prev, U, R):
    return f"{enc_str(text)} {cur} {prev} U {enc_stack(U)} R {enc_stack(R)}"


# ------------------------------------------------------------------ api cases
def api_line(op):
    k = op[0]
    if k in ("ins", "text"):
        return f"{k} {enc_str(op[1])}"
    if k in ("set", "reset"):
        return f"{k} {enc_str(op[1])} {op[2]}"
    return " ".join(str(x) for x in op)


def api_apply(b: Buffer, op):
    k = op[0]
    if k == "ins":
        b.insert_text(op[1])
    elif k == "delb":
        b.delete_before_cursor(op[1])
    elif k == "del":
        b.delete(op[1])
    elif k == "cur":
        b.cursor_position = op[1]
    elif k == "text":
        b.text = op[1]
    elif k == "set":
        b.document = Document(op[1], op[2])
    elif k == "save":
        b.save_to_undo_stack(clear_redo_stack=bool(op[1]))
    elif k == "undo":
        b.undo()
    elif k == "redo":
        b.redo()
    elif k == "reset":
        b.reset(Document(op[1], op[2]))
    else:
        raise ValueError(op)


def api_state(b: Buffer):
    return state_line(b.text, b.cursor_position, "N", list(b._undo_stack), list(b._redo_stack))


def api_impl(case):
    b = Buffer(document=Document(case["text"], case["cur"]))
    out = [api_state(b)]
    for op in case["ops"]:
        api_apply(b, op)
        out.append(api_state(b))
    return out


def api_model(case):
    return [f"init {enc_str(case['text'])} {case['cur']}"] + [api_line(op) for op in case["ops"]]


def _greedy_desc(log, restored):
    """are the restored states findable in `log` at strictly decreasing positions?"""
    idx = len(log)
    for r in restored:
        j = idx - 1
        while j >= 0 and log[j] != r:
            j -= 1
        if j < 0:
            return False
        idx = j
    return True


def _check_redo(chain, exact, pre, post, right_after_undo, bad, *a):
    """k undos that each changed something, then k redos: every redo must restore exactly the state
    that the matching undo left (so the k-th redo ends on the state before the first undo); a redo
    entry disappears only through a new (saving) edit."""
    if chain:
        exp = chain.pop()
        if post != exp:
            if right_after_undo:
                bad("Buffer.redo | not the state before undo", "redo right after undo did not restore exactly", *a)
            elif post == pre:
                bad("Buffer.redo | redo history lost without a new edit",
                    f"redo did nothing although {len(chain) + 1} undone state(s) were pending (expected {exp})", *a)
            else:
                bad("Buffer.redo | k undos then k redos do not walk back",
                    f"redo restored {post} instead of {exp}", *a)
    elif exact and post != pre:
        bad("Buffer.redo | restored something although nothing was undone since the last edit",
            f"redo changed {pre} to {post}", *a)


def api_oracle(case):
    v = []

    def bad(sig, msg):
        v.append({"signature": sig, "msg": f"{msg}: init=({case['text']!r},{case['cur']}) ops={case['ops'][:i + 1]}"})

    b = Buffer(document=Document(case["text"], case["cur"]))
    log = []            # every state held at a call boundary since the last reset
    init_text = case["text"]
    streak = []         # states restored by the current streak of consecutive changing undos
    streak_log = None
    chain, exact = [], True   # states the pending redos must restore (top last); exact = mirrors the whole redo history
    disciplined = bool(case.get("disc"))
    i = -1
    for i, op in enumerate(case["ops"]):
        pre = (b.text, b.cursor_position)
        log.append(pre)
        api_apply(b, op)
        post = (b.text, b.cursor_position)
        k = op[0]
        if k == "undo":
            if post != pre:
                if post[0] == pre[0]:
                    bad("Buffer.undo | state changed but text did not", "undo changed only the cursor")
                if post not in log[:-1] and post != log[-1]:
                    bad("Buffer.undo | restored state never held", "undo invented a state")
                if streak_log is None:
                    streak_log = list(log)
                streak.append(post)
                if not _greedy_desc(streak_log, streak):
                    bad("Buffer.undo | not in reverse chronological order", "successive undos do not walk back")
                chain.append(pre)
            else:
                if b._undo_stack:
                    bad("Buffer.undo | no-op with non-empty stack", "undo did nothing but left entries")
        else:
            streak, streak_log = [], None
            if k == "redo":
                _check_redo(chain, exact, pre, post, i > 0 and case["ops"][i - 1][0] == "undo", bad)
                if post != pre and post not in log:
                    bad("Buffer.redo | restored state never held", "redo invented a state")
            elif k == "save":
                if op[1]:
                    chain, exact = [], True          # a saving command boundary = a new edit: redo history goes
            elif k == "reset":
                chain, exact = [], True
            else:
                if chain:                            # an edit without a save keeps the redo stack; not tracked further
                    chain, exact = [], False
            if k == "save" and op[1] and b._redo_stack:
                bad("Buffer.save_to_undo_stack | redo history kept", "saving edit kept the redo stack")
            if k == "reset":
                log = []
                init_text = op[1]
                if b._undo_stack or b._redo_stack:
                    bad("Buffer.reset | stacks kept", "reset kept undo/redo entries")
    if disciplined:
        n = len(b._undo_stack) + 1
        for _ in range(n):
            b.undo()
        if b.text != init_text:
            bad("repeated undo | does not reach the initial text", f"after {n} undos text={b.text!r}")
        b.undo()
        if b.text != init_text:
            bad("repeated undo | does not stay at the initial text", f"text={b.text!r}")
    return v


# ------------------------------------------------------------------ key sessions
_TRACE = {}


def _case_key(case):
    return json.dumps(case, sort_keys=True)


def _probe_rule(binding):
    """the binding's save_before as a function of is_repeat -> (r0, r1)"""
    out = []
    for rep in (False, True):
        ev = types.SimpleNamespace(is_repeat=rep, arg=1, arg_present=False, data="", key_sequence=[],
                                   previous_key_sequence=[])
        try:
            out.append(1 if binding.save_before(ev) else 0)
        except Exception:
            out.append(1)
    return out


def _mk_key(name):
    from prompt_toolkit.keys import Keys
    try:
        return Keys(name)
    except ValueError:
        return name


KEY_DATA = {"c-z": "\x1a", "c-m": "\r", "c-i": "\t", "c-j": "\n", "escape": "\x1b", "c-h": "\x7f"}


async def _session(case):
    from prompt_toolkit import PromptSession
    from prompt_toolkit.application.current import set_app
    from prompt_toolkit.clipboard import InMemoryClipboard
    from prompt_toolkit.enums import EditingMode
    from prompt_toolkit.filters import vi_navigation_mode
    from prompt_toolkit.history import InMemoryHistory
    from prompt_toolkit.input import DummyInput
    from prompt_toolkit.key_binding import KeyBindings
    from prompt_toolkit.key_binding.key_processor import KeyPress, _Flush
    from prompt_toolkit.key_binding.vi_state import InputMode
    from prompt_toolkit.keys import Keys
    from prompt_toolkit.output import DummyOutput

    kb = KeyBindings()

    @kb.add("f12", save_before=lambda e: False)
    def _redo(event):
        event.current_buffer.redo()

    @kb.add("f9", save_before=lambda e: not e.is_repeat)
    def _grouped(event):
        event.current_buffer.insert_text("!")

    @kb.add("f10", save_before=lambda e: e.is_repeat)
    def _odd(event):
        event.current_buffer.insert_text("?")

    @kb.add("f8", save_before=lambda e: False)
    def _redo2(event):
        event.current_buffer.redo()
        event.current_buffer.redo()

    mode = EditingMode.VI if case["mode"] == "vi" else EditingMode.EMACS
    hist = InMemoryHistory(list(case.get("history") or []))
    session = PromptSession(input=DummyInput(), output=DummyOutput(), key_bindings=kb, editing_mode=mode,
                            multiline=bool(case.get("multiline")), history=hist, clipboard=InMemoryClipboard())
    app = session.app
    app.timeoutlen = None
    app.ttimeoutlen = None
    buf = session.default_buffer
    kp = app.key_processor
    recs = []
    tr = {"recs": recs, "note": None, "init": (case["text"], case["cur"])}
    hids = {}
    cur = {"atoms": None, "steps": None, "saved": 0, "in_redo": False}

    o_undo, o_redo, o_save = buf.undo, buf.redo, buf.save_to_undo_stack

    def w_undo():
        pre = (buf.text, buf.cursor_position)
        o_undo()
        if cur["atoms"] is not None:
            cur["atoms"].append("U")
            cur["steps"].append(("U", pre, (buf.text, buf.cursor_position)))

    def w_redo():
        pre = (buf.text, buf.cursor_position)
        cur["in_redo"] = True
        try:
            o_redo()
        finally:
            cur["in_redo"] = False
        if cur["atoms"] is not None:
            cur["atoms"].append("R")
            cur["steps"].append(("R", pre, (buf.text, buf.cursor_position)))

    def w_save(clear_redo_stack=True):
        if not cur["in_redo"]:
            cur["saved"] += 1
        o_save(clear_redo_stack=clear_redo_stack)

    buf.undo, buf.redo, buf.save_to_undo_stack = w_undo, w_redo, w_save

    o_call = kp._call_handler
    fed = {"i": -1, "key": None}

    def hid_of(h):
        if h is None:
            return "N"
        return hids.setdefault(id(h), (len(hids), h))[0]

    def spy(handler, key_sequence):
        pre = (buf.text, buf.cursor_position)
        insert = (app.vi_state.input_mode == InputMode.INSERT) if mode == EditingMode.VI else True
        sel = buf.selection_state is not None
        cur["atoms"], cur["steps"], cur["saved"], cur["fix_nav"] = [], [], 0, False
        try:
            o_call(handler, key_sequence)
        except BaseException:
            # the handler raised (KeyProcessor.reset() follows): not a completed command, the session ends
            cur["atoms"], cur["steps"] = None, None
            tr["raised"] = True
            raise
        else:
            atoms, cur["atoms"] = cur["atoms"], None
            steps, cur["steps"] = cur["steps"], None
            if atoms and cur["fix_nav"]:
                atoms.append("F")       # KeyProcessor._fix_vi_cursor_position ran in navigation mode
            r0, r1 = _probe_rule(handler)
            recs.append({
                "h": hid_of(handler), "r0": r0, "r1": r1, "atoms": atoms, "steps": steps, "saved": cur["saved"],
                "pre": pre, "post": (buf.text, buf.cursor_position),
                "prev": hid_of(kp._previous_handler),
                "U": list(buf._undo_stack), "R": list(buf._redo_stack),
                "fed": fed["i"], "fedx": fed["i"] - sum(1 for n_, _ in case["ops"][:max(fed["i"], 0)] if n_ == "<cpr>"),
                "key": fed["key"], "nkeys": len(key_sequence),
                "name": getattr(handler.handler, "__name__", "?"), "insert": insert and not sel,
                "bkeys": [getattr(x, "value", x) for x in handler.keys],
                "ins_after": app.vi_state.input_mode == InputMode.INSERT,
                "data": key_sequence[-1].data if key_sequence else "",
            })

    kp._call_handler = spy
    o_fix = kp._fix_vi_cursor_position

    def w_fix(event):
        cur["fix_nav"] = bool(vi_navigation_mode())
        o_fix(event)

    kp._fix_vi_cursor_position = w_fix

    with set_app(app):
        buf.reset(Document(case["text"], case["cur"]))
        if case.get("history"):
            buf.load_history_if_not_yet_loaded()
            for _ in range(50):
                await asyncio.sleep(0)
                if buf._load_history_task is None or buf._load_history_task.done():
                    break
        try:
            for i, (name, data) in enumerate(case["ops"]):
                fed["i"], fed["key"] = i, name
                if name == "<flush>":
                    kp.feed(_Flush)
                    kp.process_keys()
                    continue
                if name == "<cpr>":
                    # a cursor position report (ESC [ row ; col R) arriving at this key boundary: it is
                    # answered by KeyProcessor._process_cpr_response, not by _call_handler
                    kp.feed(KeyPress(Keys.CPRResponse, "\x1b[3;1R"))
                    kp.process_keys()
                    recs.append({"cpr": True, "post": (buf.text, buf.cursor_position),
                                 "prev": hid_of(kp._previous_handler), "U": list(buf._undo_stack),
                                 "R": list(buf._redo_stack), "fed": i})
                    continue
                if name == "<kpreset>":
                    # KeyProcessor.reset() (what Application.reset() does): forgets the previous handler
                    kp.reset()
                    recs.append({"kp_reset": True, "post": (buf.text, buf.cursor_position),
                                 "prev": hid_of(kp._previous_handler), "U": list(buf._undo_stack),
                                 "R": list(buf._redo_stack), "fed": i})
                    continue
                if name in ("c-m", "c-j"):
                    # Enter accepts (and resets) outside multiline insert mode: a new session, not generated
                    ins = (app.vi_state.input_mode == InputMode.INSERT) if mode == EditingMode.VI else True
                    if not (case.get("multiline") and ins):
                        continue
                if data is None:
                    data = KEY_DATA.get(name)
                kp.feed(KeyPress(_mk_key(name), data) if data is not None else KeyPress(_mk_key(name)))
                kp.process_keys()
                await asyncio.sleep(0)
                if app.current_buffer is not buf:
                    tr["note"] = f"focus left the buffer at key {i} ({name})"
                    break
                if app.is_done:
                    tr["note"] = f"application done at key {i} ({name})"
                    break
            else:
                fed["i"], fed["key"] = len(case["ops"]), "<flush>"
                kp.feed(_Flush)
                kp.process_keys()
        except Exception as e:  # a handler raised: KeyProcessor.reset(); the session ends here
            tr["note"] = f"exception {type(e).__name__}: {str(e)[:120]}"
        # tail: direct Buffer.undo() calls until nothing is left
        tail = []
        buf.undo, buf.redo, buf.save_to_undo_stack = o_undo, o_redo, o_save
        if app.current_buffer is buf and not tr.get("raised"):
            for _ in range(len(buf._undo_stack) + 1):
                buf.undo()
                tail.append({"post": (buf.text, buf.cursor_position), "U": list(buf._undo_stack),
                             "R": list(buf._redo_stack), "prev": hid_of(kp._previous_handler)})
        tr["tail"] = tail
        # cancel whatever background tasks the session created
        for t in list(app._background_tasks):
            t.cancel()
        await asyncio.sleep(0)
    return tr


def trace(case):
    key = _case_key(case)
    t = _TRACE.get(key)
    if t is None:
        t = asyncio.run(_session(case))
        _TRACE[key] = t
    return t


def keys_model(case):
    tr = trace(case)
    out = [f"init {enc_str(case['text'])} {case['cur']}"]
    for r in tr["recs"]:
        if r.get("kp_reset"):
            out.append("kpreset")
            continue
        if r.get("cpr"):
            out.append("cpr")
            continue
        atoms = " ".join(r["atoms"]) if r["atoms"] else f"E {enc_str(r['post'][0])} {r['post'][1]}"
        out.append(f"call {r['h']} {r['r0']} {r['r1']} {atoms}")
    out += ["undo"] * len(tr["tail"])
    return out


def keys_impl(case):
    tr = trace(case)
    out = [state_line(case["text"], case["cur"], "N", [], [])]
    for r in tr["recs"]:
        out.append(state_line(r["post"][0], r["post"][1], r["prev"], r["U"], r["R"]))
    for t in tr["tail"]:
        out.append(state_line(t["post"][0], t["post"][1], t["prev"], t["U"], t["R"]))
    return out


def _is_char_insert(r):
    """a handler call that inserted >= 1 copies of the typed printable character at the cursor"""
    d = r["data"]
    if not (r["insert"] and r["nkeys"] == 1 and isinstance(d, str) and len(d) == 1 and d.isprintable()
            and r["key"] == d and not r["atoms"]):
        return False
    (t0, c0), (t1, c1) = r["pre"], r["post"]
    k = len(t1) - len(t0)
    return k >= 1 and t1 == t0[:c0] + d * k + t0[c0:] and c1 == c0 + k


def _is_char_delete(r, key):
    if not (r["insert"] and r["nkeys"] == 1 and r["key"] == key and not r["atoms"]):
        return False
    (t0, c0), (t1, c1) = r["pre"], r["post"]
    k = len(t0) - len(t1)
    if k < 1:
        return False
    if key == "c-h":
        return c1 == c0 - k and t1 == t0[:c1] + t0[c0:]
    return c1 == c0 and t1 == t0[:c0] + t0[c0 + k:]


def keys_oracle(case):
    tr = trace(case)
    # KeyProcessor.reset() markers and cursor position reports are not commands
    recs = [r for r in tr["recs"] if not r.get("kp_reset") and not r.get("cpr")]
    v = []
    names = [k for k, _ in case["ops"]]
    odd = "f10" in names        # a harness binding that edits without saving: only soundness is required

    def bad(sig, msg, i):
        r = recs[i]
        v.append({"signature": sig,
                  "msg": f"{msg}: mode={case['mode']} init=({case['text']!r},{case['cur']}) "
                         f"keys={names[:r['fed'] + 1]} call#{i} {r['name']} pre={r['pre']} steps={r['steps']} "
                         f"post={r['post']}"})

    log = []                     # states at command boundaries (before every handler call)
    streak, streak_log = [], None
    chain, exact = [], True      # states the pending redos must restore (top last)
    prev_step = None
    for i, r in enumerate(recs):
        pre, post = tuple(r["pre"]), tuple(r["post"])
        log.append(pre)
        if r["steps"]:
            for kind, spre, spost in r["steps"]:
                spre, spost = tuple(spre), tuple(spost)
                if log[-1] != spre:
                    log.append(spre)     # a state held between two undo()/redo() calls of one handler
                if kind == "U":
                    if spost != spre:
                        if spost[0] == spre[0]:
                            bad("Buffer.undo | state changed but text did not", "undo changed only the cursor", i)
                        if spost not in log[:-1] and spost != log[-1]:
                            bad("Buffer.undo | restored state never held at an earlier boundary",
                                "undo invented a state", i)
                        if streak_log is None:
                            streak_log = list(log)
                        streak.append(spost)
                        if not _greedy_desc(streak_log, streak):
                            bad("Buffer.undo | not in reverse chronological order",
                                "successive undos do not walk back", i)
                        chain.append(spre)
                else:
                    streak, streak_log = [], None
                    _check_redo(chain, exact, spre, spost, prev_step == "U", bad, i)
                    if spost != spre and spost not in log:
                        bad("Buffer.redo | restored state never held at an earlier boundary", "redo invented a state", i)
                prev_step = kind
            if post[0] != tuple(r["steps"][-1][2])[0]:
                bad("undo/redo command | text changed after the restore", "handler changed the restored text", i)
        else:
            streak, streak_log = [], None
            prev_step = None
        if r["saved"] and not r["steps"]:
            # the command boundary of a non-undo/redo command saved: a new edit, the redo history goes.
            # (An undo / redo command is NOT a new edit: the states undone before it must stay redoable,
            # whichever undo key — C-_ or C-x C-u — was used.)
            chain, exact = [], True
        if not r["steps"]:
            if post[0] != pre[0] and r["R"] and not odd:
                bad("edit command | redo history kept", "a new edit did not discard the redo stack", i)

    # grouping: maximal run of char insertions (or backspaces, or deletes), then commands that keep the
    # text, then a single undo  ==>  the state before the run comes back
    if not odd:
        i = 0
        n = len(recs)
        while i < n:
            kinds = [("ins", _is_char_insert(recs[i])), ("c-h", _is_char_delete(recs[i], "c-h")),
                     ("delete", _is_char_delete(recs[i], "delete"))]
            kind = next((k for k, ok in kinds if ok), None)
            if kind is None:
                i += 1
                continue

            def member(r):
                return _is_char_insert(r) if kind == "ins" else _is_char_delete(r, kind)
            j = i
            # consecutive typed keys; a CPR response in between must be invisible (fedx skips them)
            while (j + 1 < n and member(recs[j + 1]) and recs[j + 1]["fedx"] == recs[j]["fedx"] + 1
                   and recs[j + 1]["h"] == recs[i]["h"]):
                j += 1
            left_ok = not (i > 0 and recs[i - 1]["h"] == recs[i]["h"])
            k = j + 1
            while k < n and not recs[k]["atoms"] and recs[k]["post"][0] == recs[k]["pre"][0] \
                    and recs[k]["h"] != recs[i]["h"]:
                k += 1
            if (left_ok and k < n and recs[k]["steps"] and recs[k]["steps"][0][0] == "U"
                    and tuple(recs[j]["post"])[0] != tuple(recs[i]["pre"])[0]):
                got = tuple(recs[k]["steps"][0][2])
                if got != tuple(recs[i]["pre"]):
                    bad(GROUP_SIG, f"run of {j - i + 1} '{kind}' calls starting at call#{i} then undo restored "
                                   f"{got} instead of {recs[i]['pre']}", k)
            i = j + 1

    # repeated undo reaches the text the session started with
    if not odd and tr["tail"] and tr["note"] is None:
        final = tr["tail"][-1]["post"]
        if final[0] != case["text"]:
            v.append({"signature": "repeated undo | does not reach the initial text",
                      "msg": f"mode={case['mode']} init=({case['text']!r},{case['cur']}) keys={names} "
                             f"after {len(tr['tail'])} undos text={final[0]!r}"})
        if tr["tail"][-1]["U"]:
            v.append({"signature": "repeated undo | stack not exhausted",
                      "msg": f"mode={case['mode']} keys={names}"})
    return v


# ------------------------------------------------------------------ fully modelled emacs keys
EKEYS = ["a", "b", "c-h", "delete", "left", "right", "home", "end", "c-k", "c-_", "c-x_c-u", "f12"]
# identity of the shipped bindings, as the Lean model numbers them (EKey.hid)
E_HID = {("self_insert", ("<any>",)): 0, ("backward_delete_char", ("c-h",)): 1, ("delete_char", ("delete",)): 2,
         ("backward_char", ("left",)): 3, ("forward_char", ("right",)): 4, ("beginning_of_line", ("home",)): 5,
         ("end_of_line", ("end",)): 6, ("kill_line", ("c-k",)): 7, ("undo", ("c-_",)): 8,
         ("undo", ("c-x", "c-u")): 9, ("_redo", ("f12",)): 10}


def _ekeys_as_keys(case):
    ops = []
    for name, data in case["ops"]:
        if name == "c-x_c-u":
            ops += [["c-x", None], ["c-u", None]]
        else:
            ops.append([name, data])
    return {"kind": "keys", "mode": "emacs", "multiline": bool(case.get("multiline")), "text": case["text"],
            "cur": case["cur"], "history": [], "ops": ops}


def ekeys_model(case):
    out = [f"init {enc_str(case['text'])} {case['cur']}"]
    for name, data in case["ops"]:
        out.append("cpr" if name == "<cpr>" else f"ekey char {ord(data)}" if len(name) == 1 else f"ekey {name}")
    return out


def _static_lines(tr, first, hid_of_rec, suffix):
    """one line per handler call / CPR response; the previous handler is reported with the static id"""
    out = [first]
    last = ("N", None)       # (static id, session-local id) of the last handler that ran
    for r in tr["recs"]:
        if r.get("cpr"):
            hid = last[0] if r["prev"] == (last[1] if last[1] is not None else "N") else f"prev-changed-by-cpr({r['prev']})"
            out.append(state_line(r["post"][0], r["post"][1], hid, r["U"], r["R"]) + suffix(r, out[-1]))
            continue
        hid = hid_of_rec(r)
        if r["prev"] != r["h"]:
            hid = f"prev-not-updated({hid})"
        last = (hid, r["h"])
        out.append(state_line(r["post"][0], r["post"][1], hid, r["U"], r["R"]) + suffix(r, out[-1]))
    return out


def ekeys_impl(case):
    tr = trace(_ekeys_as_keys(case))
    return _static_lines(tr, state_line(case["text"], case["cur"], "N", [], []),
                         lambda r: E_HID.get((r["name"], tuple(r["bkeys"])), f"?{r['name']}{r['bkeys']}"),
                         lambda r, prev_line: "")


# ------------------------------------------------------------------ fully modelled vi keys
VKEYS = ["i", "a", "x", "u", "escape", "f12"]
V_HID = {"self_insert": 0, "_redo": 10, "_back_to_navigation": 20, "_i": 21, "_a": 22, "_delete": 23, "_undo": 24}


def _vkeys_as_keys(case):
    return {"kind": "keys", "mode": "vi", "multiline": bool(case.get("multiline")), "text": case["text"],
            "cur": case["cur"], "history": [], "ops": [[n, d] for n, d in case["ops"]]}


def vkeys_model(case):
    return [f"vinit {enc_str(case['text'])} {case['cur']}"] + \
        ["vcpr" if name == "<cpr>" else f"vkey {name}" for name, _ in case["ops"]]


def vkeys_impl(case):
    tr = trace(_vkeys_as_keys(case))

    def suffix(r, prev_line):
        if r.get("cpr"):
            return prev_line[-2:]          # a CPR response leaves the input mode alone
        return " I" if r["ins_after"] else " N"
    return _static_lines(tr, state_line(case["text"], case["cur"], "N", [], []) + " I",
                         lambda r: V_HID.get(r["name"], f"?{r['name']}"), suffix)


def _as_keys(case):
    if case["kind"] == "ekeys":
        return _ekeys_as_keys(case)
    if case["kind"] == "vkeys":
        return _vkeys_as_keys(case)
    return case


# ------------------------------------------------------------------ generators
API_ALPHA = [["save", 1], ["save", 0], ["ins", "a"], ["ins", "b"], ["delb", 1], ["cur", 0], ["undo"], ["redo"]]
CMD_ALPHA = {
    "A": [["save", 1], ["ins", "a"]], "B": [["save", 1], ["ins", "b"]], "H": [["save", 1], ["delb", 1]],
    "L": [["save", 1], ["cur", 0]], "K": [["save", 1], ["del", 99]], "U": [["undo"]], "R": [["redo"]],
}
RAND_CHARS = ["a", "b", "c", " ", "\n", "世", "é", "x"]

EMACS_SMALL = ["a", "b", "c-h", "left", "c-k", "c-_", "f12", "f9", "escape"]
VI_SMALL = ["i", "a", "escape", "x", "u", "f12", "c-h", "2", "f9"]

EMACS_TOKENS = (
    [[c] for c in ["a", "b", " ", "(", "x", "世", "a", "b"]] +
    [["c-h"], ["c-h"], ["delete"], ["delete"], ["c-delete"], ["left"], ["right"], ["home"], ["end"], ["up"], ["down"],
     ["c-a"], ["c-b"], ["c-e"], ["c-f"], ["c-k"], ["c-u"], ["c-w"], ["c-y"], ["c-t"],
     ["c-_"], ["c-_"], ["c-_"], ["c-x", "c-u"], ["f12"], ["f12"], ["f9"], ["f9"],
     ["escape", "b"], ["escape", "f"], ["escape", "d"], ["escape", "c-h"], ["escape", "c"], ["escape", "l"],
     ["escape", "u"], ["escape", "y"], ["escape", "\\"], ["escape", "3"], ["escape", "2", "a"], ["escape"],
     ["c-q", "a"], ["c-z"], ["c-@"], ["c-g"], ["c-left"], ["c-right"], ["c-home"], ["c-end"],
     ["escape", "<"], ["escape", ">"], ["c-n"], ["c-p"], ["pageup"], ["pagedown"], ["c-m"],
     ["c-x", "("], ["c-x", ")"], ["c-x", "e"], ["<bracketed-paste>"], ["<flush>"], ["escape", "w"], ["<kpreset>"]])
VI_TOKENS = (
    [[c] for c in ["a", "b", "x", "i", "w", "d", "u", "u", "h", "l", "0", "$", "2", "3", "p", "P", "y", "c", "A", "I",
                   "D", "C", "X", "s", "J", "o", "O", "~", "e", "v", "k", "j", "G", "R", " ", "世"]] +
    [["escape"], ["escape"], ["escape"], ["c-h"], ["c-h"], ["delete"], ["left"], ["right"], ["c-w"], ["c-v", "a"],
     ["c-m"], ["d", "d"], ["d", "w"], ["c", "w"], ["y", "y"], ["r", "z"], ["g", "g"], ["f12"], ["f12"], ["f9"],
     ["escape", "u"], ["escape", "u"], ["escape", "2", "u"], ["escape", "3", "u"], ["i", "a", "b", "escape"],
     ["<bracketed-paste>"], ["<flush>"], ["c-o"], ["up"], ["down"], ["c-k"], ["c-t"], ["<kpreset>"]])


def _flatten(tokens, rng=None):
    ops = []
    for tok in tokens:
        for k in tok:
            if k == "<bracketed-paste>":
                data = "".join(rng.choice(RAND_CHARS) for _ in range(rng.randrange(0, 4))) if rng else "p\nq"
                ops.append([k, data])
            elif len(k) == 1:
                ops.append([k, k])
            else:
                ops.append([k, None])
    return ops


_GEN_CALLS = 0


def cases(tier, rng):
    # The second call in one process is core's "search harder" pass after a broken proof or
    # correspondence (always asked for as "thorough", with another seed): real key sessions cost
    # ~15 ms each, so that pass keeps the thorough API cases but uses the quick-sized session lists
    # (new random sessions because of the new seed) to stay within minutes.
    global _GEN_CALLS
    _GEN_CALLS += 1
    api_quick = tier == "quick"
    quick = tier == "quick" or _GEN_CALLS > 1
    yield from _api_cases(api_quick, rng)
    yield from _key_cases(quick, rng)


def _api_cases(quick, rng):
    # ---- api, exhaustive raw call sequences
    maxlen = 4 if quick else 5
    for n in range(1, maxlen + 1):
        for tup in itertools.product(API_ALPHA, repeat=n):
            yield {"kind": "api", "text": "", "cur": 0, "ops": [list(o) for o in tup]}
            if n <= 4:
                yield {"kind": "api", "text": "ab", "cur": 1, "ops": [list(o) for o in tup]}
    # ---- api, exhaustive command sequences (save before every edit)
    maxlen = 4 if quick else 5
    for n in range(1, maxlen + 1):
        for tup in itertools.product("ABHLKUR", repeat=n):
            ops = [list(o) for c in tup for o in CMD_ALPHA[c]]
            yield {"kind": "api", "text": "ab" if n % 2 else "", "cur": 1 if n % 2 else 0, "disc": True, "ops": ops}
    # ---- api, random
    for _ in range(2000 if quick else 15000):
        n = rng.choice([0, 1, 2, 3, 5, 8, 20])
        text = "".join(rng.choice(RAND_CHARS) for _ in range(n))
        cur = rng.choice([0, len(text), rng.randrange(0, len(text) + 1)])
        disc = rng.random() < 0.5
        ops = []
        for _ in range(rng.randrange(1, 41)):
            k = rng.randrange(20)
            if k < 5:
                ops.append(["undo"])
            elif k < 8:
                ops.append(["redo"])
            elif k < 10 and not disc:
                ops.append(["save", rng.choice([1, 1, 0])])
            elif k == 10 and not disc:
                t = "".join(rng.choice(RAND_CHARS) for _ in range(rng.randrange(0, 5)))
                ops.append(["reset", t, rng.randrange(0, len(t) + 1)])
            else:
                if disc:
                    ops.append(["save", 1])
                e = rng.randrange(7)
                if e == 0:
                    ops.append(["ins", "".join(rng.choice(RAND_CHARS) for _ in range(rng.randrange(0, 4)))])
                elif e == 1:
                    ops.append(["delb", rng.choice([0, 1, 1, 2, 50])])
                elif e == 2:
                    ops.append(["del", rng.choice([0, 1, 1, 2, 50])])
                elif e == 3:
                    ops.append(["cur", rng.randrange(-2, 25)])
                elif e == 4:
                    ops.append(["text", "".join(rng.choice(RAND_CHARS) for _ in range(rng.randrange(0, 6)))])
                elif e == 5:
                    t = "".join(rng.choice(RAND_CHARS) for _ in range(rng.randrange(0, 6)))
                    ops.append(["set", t, rng.randrange(0, len(t) + 1)])
                else:
                    ops.append(["ins", rng.choice(RAND_CHARS)])
        yield {"kind": "api", "text": text, "cur": cur, "disc": disc, "ops": ops}


def _inject_cpr(ops, rng, p=0.5):
    """cursor position reports arrive at arbitrary key boundaries (also inside a key sequence)"""
    if rng.random() < p:
        ops = list(ops)
        for _ in range(rng.randrange(1, 4)):
            ops.insert(rng.randrange(len(ops) + 1), ["<cpr>", None])
    return ops


def _key_cases(quick, rng):
    kcases = []
    maxlen = 2 if quick else 3
    for mode, alpha in (("emacs", EMACS_SMALL), ("vi", VI_SMALL)):
        tups = [t for n in range(1, maxlen + 1) for t in itertools.product(alpha, repeat=n)]
        # beyond the exhaustive bound: a seeded sample of longer sequences over the same alphabet
        if quick:
            tups += [tuple(rng.choice(alpha) for _ in range(rng.choice([3, 3, 4, 5]))) for _ in range(150)]
        else:
            tups += [tuple(rng.choice(alpha) for _ in range(rng.choice([4, 4, 5, 6]))) for _ in range(1000)]
        nex = sum(len(alpha) ** n for n in range(1, maxlen + 1))
        for idx, tup in enumerate(tups):
            odd = len(tup) % 2
            ops = _flatten([[k] for k in tup])
            if idx >= nex:
                ops = _inject_cpr(ops, rng)
            kcases.append({"kind": "keys", "mode": mode, "multiline": False, "text": "xy" if odd else "",
                           "cur": 1 if odd else 0, "history": [], "ops": ops})
    for _ in range(350 if quick else 4500):
        mode = rng.choice(["emacs", "vi"])
        toks = EMACS_TOKENS if mode == "emacs" else VI_TOKENS
        n = rng.choice([0, 0, 1, 2, 3, 6, 12])
        text = "".join(rng.choice(["a", "b", " ", "x", "\n", "世"]) for _ in range(n))
        if rng.random() < 0.6:
            text = text.replace("\n", " ")
        cur = rng.choice([0, len(text), rng.randrange(0, len(text) + 1)])
        tl = [rng.choice(toks) for _ in range(rng.randrange(1, 26))]
        if rng.random() < 0.6:
            # a tail that exercises deep undo / redo: m undos, up to m redos, an edit, more undos
            def u():     # emacs: both undo keys, mixed within one chain
                return rng.choice([["c-_"], ["c-x", "c-u"]]) if mode == "emacs" else ["escape", "u"]
            m = rng.randrange(1, 5)
            tl += [u() for _ in range(m)] + [["f12"]] * rng.randrange(0, m + 1)
            if rng.random() < 0.5:
                tl += [rng.choice(toks)] + [u() for _ in range(rng.randrange(0, 3))] + [["f12"]] * rng.randrange(0, 2)
        r = rng.random()
        if r < 0.08:
            tl.insert(rng.randrange(len(tl) + 1), ["f10"])
            tl.insert(rng.randrange(len(tl) + 1), ["f10"])
        elif r < 0.16:
            tl.insert(rng.randrange(len(tl) + 1), ["f8"])
        kcases.append({"kind": "keys", "mode": mode, "multiline": "\n" in text or rng.random() < 0.4,
                       "text": text, "cur": cur,
                       "history": rng.choice([[], [], ["old one", "older\ntwo"]]),
                       "ops": _inject_cpr(_flatten(tl, rng), rng)})
    # ---- fully modelled emacs keys: the model predicts the text too, rules and identities are static
    ecases = []
    small = ["a", "b", "c-h", "left", "c-k", "c-_", "c-x_c-u", "f12"]
    maxlen = 3 if quick else 4
    tups = [t for n in range(1, maxlen + 1) for t in itertools.product(small, repeat=n)]
    if quick:   # beyond the exhaustive bound: a seeded sample of longer sequences
        tups += [tuple(rng.choice(small) for _ in range(rng.choice([4, 4, 5]))) for _ in range(250)]
    else:
        tups += [tuple(rng.choice(small) for _ in range(rng.choice([5, 5, 6, 7]))) for _ in range(2000)]
    nex = sum(len(small) ** n for n in range(1, maxlen + 1))
    for idx, tup in enumerate(tups):
        odd = len(tup) % 2
        ops = [[k, k if len(k) == 1 else None] for k in tup]
        if idx >= nex:
            ops = _inject_cpr(ops, rng)
        ecases.append({"kind": "ekeys", "multiline": False, "text": "xy" if odd else "", "cur": 1 if odd else 0,
                       "ops": ops})
    for _ in range(150 if quick else 1500):
        n = rng.choice([0, 1, 2, 3, 6, 12])
        text = "".join(rng.choice(["a", "b", " ", "x", "\n", "世"]) for _ in range(n))
        if rng.random() < 0.5:
            text = text.replace("\n", " ")
        cur = rng.choice([0, len(text), rng.randrange(0, len(text) + 1)])
        ops = []
        for _ in range(rng.randrange(1, 30)):
            k = rng.choice(EKEYS + ["a", "b", "世", " ", "c-_", "c-_", "f12", "c-h"])
            ops.append([k, k if len(k) == 1 else None])
        ecases.append({"kind": "ekeys", "multiline": "\n" in text, "text": text, "cur": cur,
                       "ops": _inject_cpr(ops, rng)})
    # ---- fully modelled vi keys
    vcases = []
    maxlen = 3 if quick else 4
    tups = [t for n in range(1, maxlen + 1) for t in itertools.product(VKEYS, repeat=n)]
    if quick:
        tups += [tuple(rng.choice(VKEYS) for _ in range(rng.choice([4, 5, 6]))) for _ in range(200)]
    else:
        tups += [tuple(rng.choice(VKEYS) for _ in range(rng.choice([5, 6, 7, 8]))) for _ in range(1500)]
    nex = sum(len(VKEYS) ** n for n in range(1, maxlen + 1))
    for idx, tup in enumerate(tups):
        m = len(tup) % 3
        ops = [[k, k if len(k) == 1 else None] for k in tup]
        if idx >= nex:
            ops = _inject_cpr(ops, rng)
        vcases.append({"kind": "vkeys", "multiline": m == 2, "text": ["", "xy", "ab\ncd"][m], "cur": [0, 1, 2][m],
                       "ops": ops})
    for _ in range(150 if quick else 1500):
        n = rng.choice([0, 1, 2, 3, 6, 12])
        text = "".join(rng.choice(["a", "b", " ", "x", "\n", "世"]) for _ in range(n))
        if rng.random() < 0.5:
            text = text.replace("\n", " ")
        cur = rng.choice([0, len(text), rng.randrange(0, len(text) + 1)])
        ops = []
        for _ in range(rng.randrange(1, 30)):
            k = rng.choice(VKEYS + ["escape", "u", "i"])
            ops.append([k, k if len(k) == 1 else None])
        vcases.append({"kind": "vkeys", "multiline": "\n" in text, "text": text, "cur": cur,
                       "ops": _inject_cpr(ops, rng)})
    _warm(kcases + [_as_keys(c) for c in ecases + vcases])
    yield from kcases
    yield from ecases
    yield from vcases


def _trace_worker(chunk):
    out = []
    for c in chunk:
        try:
            out.append(asyncio.run(_session(c)))
        except Exception as e:
            out.append({"recs": [], "tail": [], "note": f"harness exception {type(e).__name__}: {e}",
                        "init": (c["text"], c["cur"])})
    return out


def _warm(kcases):
    """run the real sessions once, in parallel, and remember the traces (model input, impl output and
    oracle are all views of the same real run)"""
    todo = [c for c in kcases if _case_key(c) not in _TRACE]
    if not todo:
        return
    procs = int(os.environ.get("VERIF_PROCS", "0")) or min(16, os.cpu_count() or 4)
    if len(todo) < 32 or procs == 1:
        res = _trace_worker(todo)
    else:
        import multiprocessing as mp
        n = max(1, min(len(todo) // (procs * 4), 200))
        chunks = [todo[i:i + n] for i in range(0, len(todo), n)]
        with mp.get_context("fork").Pool(procs) as pool:
            res = [t for r in pool.map(_trace_worker, chunks) for t in r]
    for c, t in zip(todo, res):
        _TRACE[_case_key(c)] = t


# ------------------------------------------------------------------ plugin interface
def model_lines(case):
    return {"api": api_model, "keys": keys_model, "ekeys": ekeys_model, "vkeys": vkeys_model}[case["kind"]](case)


def impl_lines(case):
    return {"api": api_impl, "keys": keys_impl, "ekeys": ekeys_impl, "vkeys": vkeys_impl}[case["kind"]](case)


def oracle(case):
    if case["kind"] == "api":
        v = api_oracle(case)
    else:
        v = keys_oracle(_as_keys(case))
    seen, out = set(), []
    for x in v:
        if x["signature"] not in seen:
            seen.add(x["signature"])
            out.append(x)
    return out


def nontrivial(case):
    if case["kind"] == "api":
        return any(o[0] in ("undo", "redo") for o in case["ops"]) and any(o[0] == "save" for o in case["ops"])
    tr = trace(_as_keys(case))
    return any(r.get("atoms") and tuple(r["pre"]) != tuple(r["post"]) for r in tr["recs"])


def sample_view(case):
    return case


def distribution(cases):
    d = {"kind": {}, "ops": {}, "len": {}, "key_calls": 0, "undo_cmds_changing": 0, "redo_cmds_changing": 0,
         "grouped_calls(no save at boundary)": 0, "sessions_cut_short": {}}
    for c in cases:
        k = c["kind"] + ("/" + c["mode"] if c["kind"] == "keys" else "")
        c = _as_keys(c)
        d["kind"][k] = d["kind"].get(k, 0) + 1
        n = len(c["ops"])
        key = str(n) if n < 8 else ("8-15" if n < 16 else "16+")
        d["len"][key] = d["len"].get(key, 0) + 1
        if c["kind"] == "api":
            for op in c["ops"]:
                d["ops"][op[0]] = d["ops"].get(op[0], 0) + 1
        else:
            tr = _TRACE.get(_case_key(c))
            if tr is None:
                continue
            if tr["note"]:
                nk = tr["note"].split(" at key")[0][:40]
                d["sessions_cut_short"][nk] = d["sessions_cut_short"].get(nk, 0) + 1
            for r in tr["recs"]:
                if r.get("kp_reset") or r.get("cpr"):
                    continue
                d["key_calls"] += 1
                if r["atoms"] and tuple(r["pre"]) != tuple(r["post"]):
                    d["undo_cmds_changing" if "U" in r["atoms"] else "redo_cmds_changing"] += 1
                if not r["saved"] and not r["atoms"]:
                    d["grouped_calls(no save at boundary)"] += 1
    return d


if __name__ == "__main__":
    sys.exit(core.main(sys.modules[__name__]))
