#!/venv/bin/python
"""C07 — undo / redo: correspondence with Ptk.Model.C07 / C07Multi + property oracle.

Kinds of cases:

  api    a bare `Buffer` (with a dynamic read_only filter) driven through its API: edits, save_to_undo_stack(clear),
         undo(), redo(), reset(), read-only on/off.  The model predicts text, cursor and both stacks after every call.
  keys   a real `PromptSession` (emacs or vi mode), keys fed one by one into the real `KeyProcessor`.  Every call of
         `KeyProcessor._call_handler` is observed (handler identity, the binding's `save_before` as a function of
         is_repeat, the Buffer.undo()/redo()/save_to_undo_stack()/reset() calls made by the handler, how the handler
         ended: returned / EditReadOnlyBuffer / raised, state before/after).  The body of a non-undo handler is a
         parameter of the model (its observed result is passed in); the model predicts the is_repeat decision, the
         boundary save, both stacks, `_previous_handler`, and the complete effect of undo / redo — also on a read-only
         buffer.  Markers between keys: <cpr> (cursor position report), <kpreset> (KeyProcessor.reset()), <ro> (the
         buffer becomes read-only / writable), <restart> (a new prompt on the same PromptSession: Buffer.reset +
         Application.reset); edits made outside a command (asynchronous completions) are detected and passed to the
         model as `ext` items.  Every shipped binding that ran is looked up in the regenerated table (`rowhas`).
  mkeys  the same with several tracked buffers: a PromptSession with search and system prompt (default / search / system
         buffer), or a two-field form (an Application with two BufferControls, `c-n` moves the focus, optionally an
         on_text_insert callback that advances the focus).  Model: Ptk.Model.C07Multi (`mcall` lines carry, per buffer,
         what the handler did to it, and the new focus).
  ekeys / vkeys   fully modelled emacs / vi key sets: the model predicts everything from the key names alone.

The oracle restates the property per buffer and per session (a `Buffer.reset` starts a new one) on the real run.
"""
from __future__ import annotations

import asyncio
import itertools
import json
import os
import sys
import types

sys.path.insert(0, os.path.dirname(os.path.abspath(__file__)))
import core
import gen_c07
from core import enc_str

from prompt_toolkit.buffer import Buffer, EditReadOnlyBuffer
from prompt_toolkit.filters import Condition
from prompt_toolkit.document import Document

ID = "C07"
DRIVER = "drv_c07"
PROPS = ["Ptk.Props.C07", "Ptk.Props.C07Group", "Ptk.Props.C07RO", "Ptk.Props.C07Table", "Ptk.Props.C07Keys",
         "Ptk.Props.C07Multi"]
TECHNIQUE = "Lean 4 proof over an executable model + regenerated binding table + differential correspondence + property oracle"
ANCHORS = ["src/prompt_toolkit/buffer.py", "src/prompt_toolkit/key_binding/key_processor.py",
           "src/prompt_toolkit/key_binding/key_bindings.py", "src/prompt_toolkit/key_binding/bindings/basic.py",
           "src/prompt_toolkit/key_binding/bindings/emacs.py", "src/prompt_toolkit/key_binding/bindings/vi.py",
           "src/prompt_toolkit/key_binding/bindings/named_commands.py", "src/prompt_toolkit/key_binding/bindings/cpr.py"]
# functions whose bodies Ptk/Model/C07*.lean follows line by line and the correspondence exercises
MODELLED = {
    "src/prompt_toolkit/buffer.py": ["Buffer.save_to_undo_stack", "Buffer.undo", "Buffer.redo", "Buffer.reset"],
    "src/prompt_toolkit/key_binding/key_processor.py": [
        "KeyProcessor._call_handler", "KeyProcessor.reset", "KeyProcessor._process_cpr_response",
        "KeyProcessor._fix_vi_cursor_position", "KeyPressEvent.arg", "KeyPressEvent.append_to_arg_count"],
    "src/prompt_toolkit/key_binding/bindings/basic.py": ["if_no_repeat"],
    "src/prompt_toolkit/key_binding/bindings/named_commands.py": [
        "self_insert", "backward_delete_char", "delete_char", "backward_char", "forward_char", "beginning_of_line",
        "end_of_line", "kill_line", "unix_line_discard", "undo"],
    "src/prompt_toolkit/key_binding/bindings/vi.py": [
        "load_vi_bindings._back_to_navigation", "load_vi_bindings._i", "load_vi_bindings._a", "load_vi_bindings._A",
        "load_vi_bindings._delete", "load_vi_bindings._delete_before_cursor", "load_vi_bindings._undo"],
}
LEVEL_TEXT = ("Lean 4 theorems over an executable model of Buffer.save_to_undo_stack / undo / redo / reset (also on a "
              "read-only buffer), of KeyProcessor._call_handler (is_repeat, save_before on app.current_buffer, the three "
              "ways a handler can end: return, EditReadOnlyBuffer, any other exception -> KeyProcessor.reset()), of "
              "KeyProcessor.reset / _process_cpr_response and of an application with several buffers and a focus. For "
              "EVERY session -- any number of commands with any handler bodies and any save_before value at every call, "
              "handlers that raise, KeyProcessor.reset(), cursor position reports, edits made outside a command "
              "(asynchronous completions), from any initial document -- the undo stack is a subsequence of the log of "
              "(text, cursor) states held at command boundaries, every undo restores such a strictly earlier state with a "
              "different text, successive undos walk the log backwards, snapshots stay valid documents, neighbouring "
              "snapshots differ; in every session in which no text change lacks a snapshot (Disciplined; implied by a "
              "STATIC condition on the bindings) repeated undo reaches the initial text and every text-changing edit "
              "leaves the redo stack empty; redo after undo restores (text, cursor) exactly (also n-fold through any "
              "mix of undo commands, and undo after redo). The save_before bits of ALL key bindings a PromptSession "
              "can dispatch (587 rows today) are READ from the real Binding objects into a regenerated table; the session theorems hold "
              "for every table satisfying a decidable predicate (every non-undo binding snapshots when it is not a "
              "repeat, undo bindings never snapshot) which the kernel re-decides on the regenerated table on every run, "
              "together with a pin of every function that touches the stacks or calls undo/redo/save_to_undo_stack. "
              "Grouping: exactly the bindings with bits (save when not a repeat, not when a repeat) -- self-insert, "
              "Backspace, Delete and the Vi multiple-cursor insert binding (regenerated) -- are undone as ONE group: "
              "proved for insertion runs (also at several cursors), Backspace and "
              "Delete runs, runs followed by motions / Escape, runs with CPR responses inside, two runs split by a "
              "motion (first undo = state before the second run, second undo = state before the first), and a "
              "default-rule handler is proved NOT grouped; an exception, KeyProcessor.reset() or a new prompt starts a "
              "new group. Several buffers: every buffer of a multi-buffer session is proved to BE a single-buffer "
              "session (projection), so all of the above holds per buffer. Hypothesis-free instances for fully modelled "
              "emacs (all printable characters + 15 keys) and Vi (10 keys incl. counts) key sets whose rules are looked "
              "up in the table. The model is tied to /repo on every run by the regenerated table and probes, and by a "
              "differential correspondence (bare Buffer API incl. read-only phases; real PromptSession key processor "
              "in emacs and vi mode with observed handler bodies, raising handlers, read-only phases, new prompts, "
              "asynchronous completions; search / system-prompt sessions and a two-field form with three / two "
              "buffers; fully modelled key sets) and the property oracle on the real objects")
LEVEL_NOTE = ("boundary = one KeyProcessor._call_handler call in the theorems, one physical key press in the oracle (fed keys "
              "belong to the key press that fed them); trusted: Lean kernel, axioms propext/Classical.choice/Quot.sound only; the hand-written model "
              "(validated by the correspondence, not proved equal to the Python); harness/gen_c07.py (prints the "
              "Binding objects it reads; `kind` = does the handler's own source call undo/redo, observed kinds are "
              "compared with it on every session); in the 'keys'/'mkeys' cases handler bodies other than undo/redo/"
              "save/reset are parameters (their observed result is fed to the model), in the 'ekeys'/'vkeys' cases the "
              "model predicts everything from the key names alone. Two genuine defects are listed as known findings: "
              "undo()/redo() on a read-only buffer lose history (fix proposed; the model follows the probed flag "
              "Gen.C07.roChecksFirst), and a grouped run carried into another buffer by a callback takes no snapshot")
RULE = ("api: every sequence over {save(1), save(0), ins a, ins b, backspace, cursor=0, undo, redo} up to the tier's "
        "length from two initial documents, every sequence of save-then-edit commands/undo/redo up to the tier's "
        "length, every sequence over {edit, backspace, undo, redo, read-only on, read-only off} with a read-only "
        "phase, then seeded random sequences (<= 40 calls incl. reset, text/cursor/document setters, unicode, read-only "
        "phases); keys: (cursor position reports are injected at random key boundaries of the sampled / random sessions) "
        "every key sequence up to the tier's length over a small emacs and a small vi alphabet (incl. undo keys, a redo "
        "binding, custom bindings with if_no_repeat / only-on-repeat rules, two bindings that raise after their edit), "
        "every Vi multiple-cursor insert session (c-v, motion, I / A, then every body up to the tier's length over {x, y, "
        "left, backspace, CPR}, Escape, u u / count u / redo), every emacs shift-selection sequence up to the tier's length over {s-left, s-home, X, Y, backspace, undo, redo} (+ sampled ones with s-right, s-end, Delete, C-w, C-y, Enter, motions that cancel the selection by feeding the key again), every sequence with a read-only phase over a Vi alphabet, every sequence with a new prompt (Buffer.reset + "
        "Application.reset) over an emacs alphabet, sessions with a completer (asynchronous insertions), then seeded "
        "random sessions (<= 40 keys over ~70 emacs / ~60 vi key tokens, single and multi line, with history, macros, "
        "counts, paste, raising bindings, read-only phases, new prompts, with tails of repeated undo/redo); mkeys: every "
        "sequence containing C-r over an incremental-search alphabet (three buffers), random search / system-prompt "
        "sessions in both modes, every sequence over a two-field form alphabet with and without an auto-advance "
        "callback; ekeys/vkeys: every sequence up to the tier's length over the fully modelled emacs / vi key sets, "
        "then random ones (<= 30 keys, multi-line and wide characters); every session ends with direct undo() calls "
        "until every tracked buffer's stack is exhausted; a case is non-trivial when at least one undo or redo "
        "changed a buffer")
EXHAUSTIVE = True
EXHAUSTIVE_SCOPE = {
    "quick": "api: all sequences len<=4 over 8 calls x 2 initial docs, all command sequences len<=4 over 7 commands, all "
             "read-only sequences len<=5 over 6 commands; keys: all sequences len<=2 over 11 emacs keys and 10 vi keys "
             "(+150 sampled of len 3-5 each), all multiple-cursor insert bodies len<=3 over 5 tokens (+40 sampled), all len<=3 "
             "with a read-only phase over 7 Vi tokens (+120 sampled), all "
             "len<=3 with a new prompt over 7 emacs tokens (+80 sampled); mkeys: all len<=3 containing C-r over 7 search "
             "keys, all len<=3 over 6 form keys (+60 sampled); fully modelled emacs keys: all sequences len<=3 over {a, b, "
             "backspace, left, c-k, c-_, c-x c-u, redo, c-u} (+250 sampled of len 4-5); fully modelled vi keys: all "
             "sequences len<=3 over {i, a, A, x, X, u, 2, 3, escape, redo} (+200 sampled of len 4-6)",
    "thorough": "api: all sequences len<=5 over 8 calls x 2 initial docs, all command sequences len<=5 over 7 commands, "
                "all read-only sequences len<=6 over 6 commands; keys: all sequences len<=3 over 11 emacs keys and 10 vi "
                "keys (+1000 sampled of len 4-6 each), all multiple-cursor insert bodies len<=4 over 5 tokens (+400 sampled), all "
                "len<=4 with a read-only phase (+1200 sampled), all len<=4 with "
                "a new prompt (+800 sampled); mkeys: all len<=4 containing C-r over 7 search keys, all len<=4 over 6 "
                "form keys (+600 sampled); fully modelled emacs keys: all sequences len<=4 over 9 keys (+2000 sampled of "
                "len 5-7); fully modelled vi keys: all sequences len<=4 over 10 keys (+1500 sampled of len 5-8)"}
TRUSTED = ["harness/c07.py observes every KeyProcessor._call_handler call by wrapping the bound method on the instance "
           "(the real method runs unchanged inside) and records Buffer.undo()/redo()/save_to_undo_stack()/reset() calls on "
           "every tracked buffer the same way; Binding.call is wrapped for the duration of one call to see EditReadOnlyBuffer",
           "harness/gen_c07.py reads the save_before rule of every binding by calling binding.save_before on two stub events "
           "(is_repeat False/True) and classifies a handler by whether its own source calls undo/redo/save_to_undo_stack; the "
           "correspondence checks on every session that the Binding objects actually dispatched carry the bits of a table row "
           "and that no handler of kind 0 was seen calling undo/redo",
           "Ptk/Model/C07.lean / C07Multi.lean are hand translations of the buffer.py undo machinery, _call_handler, "
           "KeyProcessor.reset, _process_cpr_response, _fix_vi_cursor_position, KeyPressEvent.arg and of 16 emacs / 10 vi key "
           "handlers (correspondence-checked); the rules of those keys are looked up in the regenerated table",
           "read-only behaviour of Buffer.undo()/redo() follows the probed flag Gen.C07.roChecksFirst (theorems cover both values)"]
ASSUMPTIONS = ["CPython list append/pop and str equality semantics",
               "in 'keys'/'mkeys' cases handler bodies are parameters: the model is told the (text, cursor) a non-undo handler "
               "produced on every tracked buffer, and where the focus went",
               "snapshots satisfy cursor <= len(text) (proved for the model: snapshots_valid), so Document() never asserts in undo/redo",
               "a handler calls undo()/redo() on the boundary state only (no edit before it in the same command): true of the two "
               "shipped undo handlers (pinned call sites) and of the harness bindings",
               "tracked buffers of a PromptSession: default, search, system; Enter is never sent to the system prompt (it would "
               "run a shell command); accept / abort of the main buffer end the session",
               "asyncio single-threaded atomicity: an asynchronous completion changes the buffer between two commands, never inside one"]
PARTIAL_SCOPE = ["command boundary vs key press: the theorems speak about boundaries of KeyProcessor._call_handler; a handler that "
                 "feeds further keys (key_processor.feed(..., first=True): shift-selection cancel, c-j, macro replay) makes "
                 "several commands out of one physical key press -- that every undo result is a state held BETWEEN two key "
                 "presses is checked by the oracle on the real editor (macro replay exempt), not proved: fed keys are not "
                 "modelled here (C04 models them)",
                 "Buffer.undo()/redo() on a read-only buffer as SHIPPED drop history entries (known finding, fix proposed): "
                 "'repeated undo reaches the initial text' and 'redo restores exactly' are proved for sessions without such "
                 "attempts and for the fixed code (undo_reaches_initial_readonly_partial, undoRO_fixed_keeps_history); "
                 "soundness (no invented state, reverse chronological order) is proved for the shipped behaviour too",
                 "several buffers: per buffer, 'reaches the initial text' needs that no text change of that buffer lacks a "
                 "snapshot (Disciplined of the projection) -- true of search / system prompt (shown on the model, observed on "
                 "every generated session), false when a callback moves the focus in the middle of a grouped run (known finding)",
                 "edits made outside a command (async completion, application code) are covered by the soundness theorems always, "
                 "by 'reaches the initial text' only when a snapshot exists at that moment (ExtOK; observed, not proved, for completions)",
                 "Vi '.'-repeat does not exist in this library; there is no redo binding (redo is driven through the Buffer API and "
                 "harness bindings); macros / numeric arguments of emacs keys occur in the sampled sessions with observed bodies only",
                 "KeyBindings caches that re-create Binding objects when bindings are added at run time (is_repeat is identity "
                 "based) are outside the sessions generated here",
                 "the fully modelled key sets (text predicted from key names) are all printable characters + 15 emacs keys and 10 Vi keys; for all other shipped "
                 "bindings the table theorems apply with the handler body as a parameter (its kind must fit the row: checked on "
                 "every generated session, pinned syntactically by gen_sites_ok, not proved for indirect calls)"]

GROUP_SIG = "undo after run of repeated char insert/delete | run not undone as one group"
RO_SIG = "Buffer.undo/redo on a read-only buffer | history entries dropped without being restored"
CROSS_SIG = ("grouped handler continued in another buffer after a focus change made by a callback | "
             "first edit of that buffer has no snapshot")

# ------------------------------------------------------------------ encoding


def enc_stack(st):
    return " ".join([str(len(st))] + [f"{enc_str(t)} {c}" for t, c in st])


def state_line(text, cur, prev, U, R):
    return f"{enc_str(text)} {cur} {prev} U {enc_stack(U)} R {enc_stack(R)}"


# ------------------------------------------------------------------ api cases
def api_line(op):
    k = op[0]
    if k in ("ins", "text"):
        return f"{k} {enc_str(op[1])}"
    if k in ("set", "reset"):
        return f"{k} {enc_str(op[1])} {op[2]}"
    return " ".join(str(x) for x in op)


def api_apply(b: Buffer, op):
    k = op[0]
    if k == "ro":
        b._c07_ro[0] = bool(op[1])
        return
    if b._c07_ro[0] and k != "cur" and k != "save" and k != "reset":
        try:
            _api_apply(b, op)
        except EditReadOnlyBuffer:
            pass
        return
    _api_apply(b, op)


def _api_apply(b: Buffer, op):
    k = op[0]
    if k == "ins":
        b.insert_text(op[1])
    elif k == "delb":
        b.delete_before_cursor(op[1])
    elif k == "del":
        b.delete(op[1])
    elif k == "cur":
        b.cursor_position = op[1]
    elif k == "text":
        b.text = op[1]
    elif k == "set":
        b.document = Document(op[1], op[2])
    elif k == "save":
        b.save_to_undo_stack(clear_redo_stack=bool(op[1]))
    elif k == "undo":
        b.undo()
    elif k == "redo":
        b.redo()
    elif k == "reset":
        b.reset(Document(op[1], op[2]))
    else:
        raise ValueError(op)


def api_state(b: Buffer):
    return state_line(b.text, b.cursor_position, "N", list(b._undo_stack), list(b._redo_stack))


def _api_buffer(case):
    ro = [False]
    b = Buffer(document=Document(case["text"], case["cur"]), read_only=Condition(lambda: ro[0]))
    b._c07_ro = ro
    return b


def api_impl(case):
    b = _api_buffer(case)
    out = [api_state(b)]
    for op in case["ops"]:
        api_apply(b, op)
        out.append(api_state(b))
    return out


def api_model(case):
    out = [f"init {enc_str(case['text'])} {case['cur']}"]
    ro = False
    for op in case["ops"]:
        if op[0] == "ro":
            ro = bool(op[1])
            out.append("cpr")                      # no Buffer call: the state is printed unchanged
        elif ro and op[0] in ("undo", "redo"):
            out.append(op[0] + "ro")               # Buffer.undo() / redo() on a read-only buffer
        elif ro and op[0] in ("ins", "delb", "del", "set", "text"):
            out.append("cpr")                      # EditReadOnlyBuffer before anything is changed (not generated)
        else:
            out.append(api_line(op))
    return out


def _greedy_desc(log, restored):
    """are the restored states findable in `log` at strictly decreasing positions?"""
    idx = len(log)
    for r in restored:
        j = idx - 1
        while j >= 0 and log[j] != r:
            j -= 1
        if j < 0:
            return False
        idx = j
    return True


def _check_redo(chain, exact, pre, post, right_after_undo, bad, *a):
    """k undos that each changed something, then k redos: every redo must restore exactly the state
    that the matching undo left (so the k-th redo ends on the state before the first undo); a redo
    entry disappears only through a new (saving) edit."""
    if chain:
        exp = chain.pop()
        if post != exp:
            if right_after_undo:
                bad("Buffer.redo | not the state before undo", "redo right after undo did not restore exactly", *a)
            elif post == pre:
                bad("Buffer.redo | redo history lost without a new edit",
                    f"redo did nothing although {len(chain) + 1} undone state(s) were pending (expected {exp})", *a)
            else:
                bad("Buffer.redo | k undos then k redos do not walk back",
                    f"redo restored {post} instead of {exp}", *a)
    elif exact and post != pre:
        bad("Buffer.redo | restored something although nothing was undone since the last edit",
            f"redo changed {pre} to {post}", *a)


def api_oracle(case):
    v = []

    def bad(sig, msg):
        v.append({"signature": sig, "msg": f"{msg}: init=({case['text']!r},{case['cur']}) ops={case['ops'][:i + 1]}"})

    b = _api_buffer(case)
    ro_lost = False
    log = []            # every state held at a call boundary since the last reset
    init_text = case["text"]
    streak = []         # states restored by the current streak of consecutive changing undos
    streak_log = None
    chain, exact = [], True   # states the pending redos must restore (top last); exact = mirrors the whole redo history
    disciplined = bool(case.get("disc"))
    i = -1
    for i, op in enumerate(case["ops"]):
        pre = (b.text, b.cursor_position)
        log.append(pre)
        stacks = (list(b._undo_stack), list(b._redo_stack))
        api_apply(b, op)
        post = (b.text, b.cursor_position)
        k = op[0]
        if k == "ro":
            continue
        if b._c07_ro[0] and k in ("undo", "redo"):
            # read-only: nothing may be restored -- and nothing may be lost
            if post != pre:
                bad("Buffer.undo/redo on a read-only buffer | text or cursor changed", "read-only buffer changed")
            if stacks != (list(b._undo_stack), list(b._redo_stack)):
                ro_lost = True
                bad(RO_SIG, f"stacks before {stacks} after {(list(b._undo_stack), list(b._redo_stack))}")
                chain, exact = [], False
                streak, streak_log = [], None
            continue
        if k == "undo":
            if post != pre:
                if post[0] == pre[0]:
                    bad("Buffer.undo | state changed but text did not", "undo changed only the cursor")
                if post not in log[:-1] and post != log[-1]:
                    bad("Buffer.undo | restored state never held", "undo invented a state")
                if streak_log is None:
                    streak_log = list(log)
                streak.append(post)
                if not _greedy_desc(streak_log, streak):
                    bad("Buffer.undo | not in reverse chronological order", "successive undos do not walk back")
                chain.append(pre)
            else:
                if b._undo_stack:
                    bad("Buffer.undo | no-op with non-empty stack", "undo did nothing but left entries")
        else:
            streak, streak_log = [], None
            if k == "redo":
                if not ro_lost:
                    _check_redo(chain, exact, pre, post, i > 0 and case["ops"][i - 1][0] == "undo", bad)
                if post != pre and post not in log:
                    bad("Buffer.redo | restored state never held", "redo invented a state")
            elif k == "save":
                if op[1]:
                    chain, exact = [], True          # a saving command boundary = a new edit: redo history goes
            elif k == "reset":
                chain, exact = [], True
            else:
                if chain:                            # an edit without a save keeps the redo stack; not tracked further
                    chain, exact = [], False
            if k == "save" and op[1] and b._redo_stack:
                bad("Buffer.save_to_undo_stack | redo history kept", "saving edit kept the redo stack")
            if k == "reset":
                log = []
                init_text = op[1]
                ro_lost = False
                if b._undo_stack or b._redo_stack:
                    bad("Buffer.reset | stacks kept", "reset kept undo/redo entries")
    if disciplined and not ro_lost:
        b._c07_ro[0] = False
        n = len(b._undo_stack) + 1
        for _ in range(n):
            b.undo()
        if b.text != init_text:
            bad("repeated undo | does not reach the initial text", f"after {n} undos text={b.text!r}")
        b.undo()
        if b.text != init_text:
            bad("repeated undo | does not stay at the initial text", f"text={b.text!r}")
    return v


# ------------------------------------------------------------------ key sessions
_TRACE = {}


def _case_key(case):
    return json.dumps(case, sort_keys=True)


def _probe_rule(binding):
    """the binding's save_before as a function of is_repeat -> (r0, r1)"""
    r0, r1 = gen_c07.probe_rule(binding)
    return [1 if r0 else 0, 1 if r1 else 0]


def _mk_key(name):
    from prompt_toolkit.keys import Keys
    try:
        return Keys(name)
    except ValueError:
        return name


KEY_DATA = {"c-z": "\x1a", "c-m": "\r", "c-i": "\t", "c-j": "\n", "escape": "\x1b", "c-h": "\x7f"}
MARKERS = ("cpr", "kp_reset", "restart", "ext", "ro", "focus")


class _Boom(Exception):
    """raised by the harness bindings f6 / f7"""


async def _session(case):
    from prompt_toolkit import PromptSession
    from prompt_toolkit.application.current import set_app
    from prompt_toolkit.buffer import Buffer, EditReadOnlyBuffer
    from prompt_toolkit.clipboard import InMemoryClipboard
    from prompt_toolkit.completion import WordCompleter
    from prompt_toolkit.enums import SYSTEM_BUFFER, EditingMode
    from prompt_toolkit.filters import Condition, vi_navigation_mode
    from prompt_toolkit.history import InMemoryHistory
    from prompt_toolkit.input import DummyInput
    from prompt_toolkit.key_binding import KeyBindings
    from prompt_toolkit.key_binding.key_processor import KeyPress, _Flush
    from prompt_toolkit.key_binding.vi_state import InputMode
    from prompt_toolkit.keys import Keys
    from prompt_toolkit.output import DummyOutput

    kb = KeyBindings()

    @kb.add("f12", save_before=lambda e: False)
    def _redo(event):
        event.current_buffer.redo()

    @kb.add("f9", save_before=lambda e: not e.is_repeat)
    def _grouped(event):
        event.current_buffer.insert_text("!")

    @kb.add("f10", save_before=lambda e: e.is_repeat)
    def _odd(event):
        event.current_buffer.insert_text("?")

    @kb.add("f8", save_before=lambda e: False)
    def _redo2(event):
        event.current_buffer.redo()
        event.current_buffer.redo()

    @kb.add("f7")
    def _boom(event):
        # a handler that fails half way: the default rule has already saved
        event.current_buffer.insert_text("#")
        raise _Boom("f7")

    @kb.add("f6", save_before=lambda e: not e.is_repeat)
    def _boom_grouped(event):
        # a grouped handler whose every second consecutive call fails after its edit
        event.current_buffer.insert_text("%")
        if event.current_buffer.text.endswith("%%"):
            raise _Boom("f6")

    multi = bool(case.get("multi"))
    mode = EditingMode.VI if case["mode"] == "vi" else EditingMode.EMACS
    hist = InMemoryHistory(list(case.get("history") or []))
    if case.get("form"):
        # a full-screen form with two text fields A, B (not a PromptSession): `c-n` moves the focus with a key
        # binding; with "advance": n the field A hands the focus to B from its on_text_insert callback as soon as
        # it holds n characters (an auto-advancing input mask) -- a focus change that is not a command
        from prompt_toolkit.application import Application
        from prompt_toolkit.layout import BufferControl, HSplit, Layout, Window

        fa, fb = Buffer(name="A"), Buffer(name="B")
        wa, wb = Window(BufferControl(fa)), Window(BufferControl(fb))

        @kb.add("c-n")
        def _next(event):
            event.app.layout.focus(wb if event.app.layout.has_focus(wa) else wa)

        app = Application(layout=Layout(HSplit([wa, wb]), focused_element=wa), input=DummyInput(),
                          output=DummyOutput(), key_bindings=kb, editing_mode=mode, clipboard=InMemoryClipboard())
        fb.reset(Document(case.get("text2", ""), len(case.get("text2", ""))))
        if case.get("advance"):
            def _adv(_):
                if len(fa.text) >= case["advance"]:
                    app.layout.focus(wb)
            fa.on_text_insert += _adv
        buf, bufs = fa, [fa, fb]
        multi = True
    else:
        kw = {}
        if case.get("completer"):
            kw = dict(completer=WordCompleter(["alpha", "alphabet", "alpine", "beta"]), complete_while_typing=False)
        session = PromptSession(input=DummyInput(), output=DummyOutput(), key_bindings=kb, editing_mode=mode,
                                multiline=bool(case.get("multiline")), history=hist, clipboard=InMemoryClipboard(),
                                enable_system_prompt=multi, **kw)
        app = session.app
        buf = session.default_buffer
        bufs = [buf]
        if multi:
            bufs += [session.search_buffer, app.layout.get_buffer_by_name(SYSTEM_BUFFER)]
    app.timeoutlen = None
    app.ttimeoutlen = None
    nb = len(bufs)
    sysbuf = bufs[2] if (multi and nb > 2) else None
    ro = {"on": False}
    buf.read_only = Condition(lambda: ro["on"])
    kp = app.key_processor
    recs = []
    tr = {"recs": recs, "note": None, "init": (case["text"], case["cur"]), "nb": nb}
    hids = {}
    cur = {"on": False, "atoms": None, "steps": None, "saved": None}

    def snap(b):
        return (b.text, b.cursor_position)

    def full(i):
        b = bufs[i]
        return {"post": snap(b), "U": list(b._undo_stack), "R": list(b._redo_stack)}

    def bidx(b):
        for i, x in enumerate(bufs):
            if x is b:
                return i
        return -1

    originals = []

    def wrap(bi, b):
        o_undo, o_redo, o_save, o_reset = b.undo, b.redo, b.save_to_undo_stack, b.reset
        originals.append((b, o_undo, o_redo, o_save, o_reset))
        st = {"in_redo": False}

        def w_undo():
            pre = snap(b)
            is_ro = bool(b.read_only())
            try:
                o_undo()
            finally:
                if cur["on"]:
                    cur["atoms"][bi].append("UR" if is_ro else "U")
                    cur["steps"][bi].append(("U", pre, snap(b), is_ro))

        def w_redo():
            pre = snap(b)
            is_ro = bool(b.read_only())
            st["in_redo"] = True
            try:
                o_redo()
            finally:
                st["in_redo"] = False
                if cur["on"]:
                    cur["atoms"][bi].append("RR" if is_ro else "R")
                    cur["steps"][bi].append(("R", pre, snap(b), is_ro))

        def w_save(clear_redo_stack=True):
            if not st["in_redo"] and cur["on"]:
                cur["saved"][bi] += 1
            o_save(clear_redo_stack=clear_redo_stack)

        def w_reset(document=None, append_to_history=False):
            o_reset(document, append_to_history)
            if cur["on"]:
                cur["atoms"][bi] += ["X", enc_str(b.text), str(b.cursor_position)]
                cur["steps"][bi].append(("X", None, snap(b), False))

        b.undo, b.redo, b.save_to_undo_stack, b.reset = w_undo, w_redo, w_save, w_reset

    for i, b in enumerate(bufs):
        wrap(i, b)

    o_call = kp._call_handler
    fed = {"i": -1, "key": None}

    def hid_of(h):
        if h is None:
            return "N"
        return hids.setdefault(id(h), (len(hids), h))[0]

    def n_cpr_before(i):
        return sum(1 for n_, _ in case["ops"][:max(i, 0)] if n_ == "<cpr>")

    def spy(handler, key_sequence):
        focus_pre = bidx(app.current_buffer)
        pres = [snap(b) for b in bufs]
        insert = (app.vi_state.input_mode == InputMode.INSERT) if mode == EditingMode.VI else True
        sel = app.current_buffer.selection_state is not None
        multi_ins = mode == EditingMode.VI and app.vi_state.input_mode == InputMode.INSERT_MULTIPLE
        cur.update(on=True, atoms=[[] for _ in bufs], steps=[[] for _ in bufs], saved=[0] * nb, fix_nav=False,
                   fix_buf=-1, ro_exc=False)
        o_hcall = handler.call

        def hcall(event):
            try:
                return o_hcall(event)
            except EditReadOnlyBuffer:
                cur["ro_exc"] = True
                raise

        handler.call = hcall
        out = "ok"
        try:
            o_call(handler, key_sequence)
        except BaseException:
            out = "raised"
            raise
        finally:
            try:
                del handler.call
            except AttributeError:
                pass
            cur["on"] = False
            if out == "ok" and cur["ro_exc"]:
                out = "ro"
            atoms, steps = cur["atoms"], cur["steps"]
            if cur["fix_nav"] and 0 <= cur["fix_buf"] < nb and atoms[cur["fix_buf"]]:
                atoms[cur["fix_buf"]].append("F")     # KeyProcessor._fix_vi_cursor_position ran in navigation mode
            r0, r1 = _probe_rule(handler)
            hmod = getattr(handler.handler, "__module__", "") or ""
            B = []
            for i in range(nb):
                d = full(i)
                d.update(pre=pres[i], atoms=atoms[i], steps=steps[i], saved=cur["saved"][i])
                B.append(d)
            rec = {
                "h": hid_of(handler), "r0": r0, "r1": r1, "out": out, "B": B,
                "focus_pre": focus_pre, "focus_post": bidx(app.current_buffer),
                "prev": "N" if out == "raised" else hid_of(kp._previous_handler),
                "fed": fed["i"], "fedx": fed["i"] - n_cpr_before(fed["i"]),
                "key": fed["key"], "nkeys": len(key_sequence),
                "name": getattr(handler.handler, "__name__", "?"), "insert": insert and not sel, "multi_ins": multi_ins,
                "bkeys": [getattr(x, "value", x) for x in handler.keys],
                "ins_after": app.vi_state.input_mode == InputMode.INSERT,
                "data": key_sequence[-1].data if key_sequence else "",
                "arg_after": kp.arg,
                "row": list(gen_c07.row_key(handler)) if hmod.startswith("prompt_toolkit") else None,
            }
            rec.update({k: B[0][k] for k in ("pre", "post", "atoms", "steps", "saved", "U", "R")})
            recs.append(rec)
            for i in range(nb):
                last[i] = B[i]["post"]

    kp._call_handler = spy
    o_fix = kp._fix_vi_cursor_position

    def w_fix(event):
        cur["fix_nav"] = bool(vi_navigation_mode())
        cur["fix_buf"] = bidx(app.current_buffer)
        o_fix(event)

    kp._fix_vi_cursor_position = w_fix
    last = [None] * nb

    def marker(kind, **kw):
        d = {kind: True, "prev": hid_of(kp._previous_handler), "fed": fed["i"], "B": [full(i) for i in range(nb)],
             "focus_post": bidx(app.current_buffer)}
        d.update(full(0))
        d.update(kw)
        recs.append(d)
        for i in range(nb):
            last[i] = d["B"][i]["post"]

    def check_ext():
        # a change of text / cursor that no handler call made (asynchronous completion, …)
        for i in range(nb):
            if last[i] is not None and snap(bufs[i]) != last[i]:
                marker("ext", b=i)

    async def settle():
        for _ in range(6 if case.get("completer") else 1):
            await asyncio.sleep(0)

    with set_app(app):
        buf.reset(Document(case["text"], case["cur"]))
        for i in range(nb):
            last[i] = snap(bufs[i])
        tr["docs"] = list(last)
        tr["kp_states"] = []      # (op index, state of every tracked buffer when that key press starts)
        if case.get("history"):
            buf.load_history_if_not_yet_loaded()
            for _ in range(50):
                await asyncio.sleep(0)
                if buf._load_history_task is None or buf._load_history_task.done():
                    break
        for i, (name, data) in enumerate(case["ops"]):
            fed["i"], fed["key"] = i, name
            check_ext()
            tr["kp_states"].append((i, [snap(b) for b in bufs]))
            if name == "<flush>":
                try:
                    kp.feed(_Flush)
                    kp.process_keys()
                except _Boom:
                    pass
                except Exception as e:  # an exception of the library itself (Application.exit() without a run): the session ends
                    tr["note"] = f"exception {type(e).__name__}: {str(e)[:120]}"
                    break
                continue
            if name == "<cpr>":
                # a cursor position report (ESC [ row ; col R) arriving at this key boundary: it is
                # answered by KeyProcessor._process_cpr_response, not by _call_handler
                kp.feed(KeyPress(Keys.CPRResponse, "\x1b[3;1R"))
                kp.process_keys()
                marker("cpr")
                continue
            if name == "<kpreset>":
                # KeyProcessor.reset() (what Application.reset() does): forgets the previous handler
                kp.reset()
                marker("kp_reset")
                continue
            if name == "<ro>":
                ro["on"] = bool(data)
                marker("ro", on=bool(data))
                continue
            if name == "<restart>":
                # a new prompt on the same PromptSession: prompt() resets the buffer to the default document
                # and Application.run_async() calls Application.reset() (-> KeyProcessor.reset())
                t, c = data
                ro["on"] = False
                buf.reset(Document(t, c))
                app.reset()
                marker("restart", doc=(t, c))
                continue
            focused = app.current_buffer
            if name in ("c-m", "c-j"):
                if focused is buf:
                    # Enter accepts (and resets) outside multiline insert mode: the end of the session, not generated
                    ins = (app.vi_state.input_mode == InputMode.INSERT) if mode == EditingMode.VI else True
                    if not (case.get("multiline") and ins):
                        continue
                elif focused is sysbuf:
                    continue        # Enter in the system prompt would run a shell command
            if data is None:
                data = KEY_DATA.get(name)
            n0 = len(recs)
            try:
                kp.feed(KeyPress(_mk_key(name), data) if data is not None else KeyPress(_mk_key(name)))
                kp.process_keys()
            except _Boom:
                # process_keys: self.reset(); self.empty_queue(); raise  -- the application goes on
                if len(recs) > n0:
                    recs[-1]["prev"] = hid_of(kp._previous_handler)
            except Exception as e:  # an exception of the library itself: the session ends here
                tr["note"] = f"exception {type(e).__name__}: {str(e)[:120]}"
                break
            await settle()
            if app.current_buffer is not buf and not multi:
                tr["note"] = f"focus left the buffer at key {i} ({name})"
                break
            if multi and bidx(app.current_buffer) < 0:
                tr["note"] = f"focus on an untracked buffer at key {i} ({name})"
                break
            if app.is_done:
                tr["note"] = f"application done at key {i} ({name})"
                break
        else:
            fed["i"], fed["key"] = len(case["ops"]), "<flush>"
            check_ext()
            tr["kp_states"].append((len(case["ops"]), [snap(b) for b in bufs]))
            try:
                kp.feed(_Flush)
                kp.process_keys()
            except _Boom:
                pass
            except Exception as e:
                tr["note"] = f"exception {type(e).__name__}: {str(e)[:120]}"
            await settle()
            check_ext()
        # tail: direct Buffer.undo() calls until nothing is left, on every tracked buffer
        for b, o_undo, o_redo, o_save, o_reset in originals:
            b.undo, b.redo, b.save_to_undo_stack, b.reset = o_undo, o_redo, o_save, o_reset
        ro["on"] = False
        tail = []
        for bi, b in enumerate(bufs):
            for _ in range(len(b._undo_stack) + 1):
                b.undo()
                d = {"b": bi, "prev": hid_of(kp._previous_handler), "B": [full(i) for i in range(nb)],
                     "focus_post": bidx(app.current_buffer)}
                d.update(full(0))
                tail.append(d)
        tr["tail"] = tail
        # cancel whatever background tasks the session created
        for t in list(app._background_tasks):
            t.cancel()
        await asyncio.sleep(0)
    return tr


def trace(case):
    key = _case_key(case)
    t = _TRACE.get(key)
    if t is None:
        t = asyncio.run(_session(case))
        _TRACE[key] = t
    return t


def _atoms_line(d):
    """the body of one buffer in one call: its undo / redo / save / reset atoms, or the observed result"""
    if d["atoms"]:
        return " ".join(d["atoms"])
    return f"E {enc_str(d['post'][0])} {d['post'][1]}"


def _row_lines(tr):
    """one `rowhas` line per distinct shipped binding that ran: its probed bits and kind must be a row of the table"""
    seen, out = set(), []
    for r in tr["recs"]:
        row = r.get("row")
        if row and tuple(row) not in seen:
            seen.add(tuple(row))
            out.append(row)
    return out


def keys_model(case):
    tr = trace(case)
    out = [f"init {enc_str(case['text'])} {case['cur']}"]
    for r in tr["recs"]:
        if r.get("kp_reset"):
            out.append("kpreset")
        elif r.get("cpr"):
            out.append("cpr")
        elif r.get("ro"):
            continue
        elif r.get("restart"):
            out.append(f"restart {enc_str(r['doc'][0])} {r['doc'][1]}")
        elif r.get("ext"):
            out.append(f"ext {enc_str(r['post'][0])} {r['post'][1]}")
        else:
            out.append(f"callo {r['out']} {r['h']} {r['r0']} {r['r1']} {_atoms_line(r)}")
    out += ["undo"] * len(tr["tail"])
    for name, keys, r0, r1, kind in _row_lines(tr):
        out.append(f"rowhas {enc_str(name)} {enc_str(keys)} {int(r0)}{int(r1)}{kind}")
    return out


def _observed_kind_ok(tr, row):
    """a handler whose source calls neither undo nor redo must not have been seen calling them"""
    for r in tr["recs"]:
        if r.get("row") and tuple(r["row"]) == tuple(row):
            for d in r["B"]:
                ks = {a for a in d["atoms"] if a in ("U", "UR", "R", "RR")}
                if ks and row[4] == 0:
                    return False
                if ks & {"U", "UR"} and row[4] == 2 or ks & {"R", "RR"} and row[4] == 1:
                    return False
    return True


def keys_impl(case):
    tr = trace(case)
    out = [state_line(case["text"], case["cur"], "N", [], [])]
    for r in tr["recs"]:
        if r.get("ro"):
            continue
        out.append(state_line(r["post"][0], r["post"][1], r["prev"], r["U"], r["R"]))
    for t in tr["tail"]:
        out.append(state_line(t["post"][0], t["post"][1], t["prev"], t["U"], t["R"]))
    for row in _row_lines(tr):
        out.append("1" if _observed_kind_ok(tr, row) else "observed-kind-differs")
    return out


# ---- several buffers
def _m_state(r, nb):
    s = f"F {r['focus_post']} P {r['prev']}"
    for i in range(nb):
        d = r["B"][i]
        s += f" | {enc_str(d['post'][0])} {d['post'][1]} U {enc_stack(d['U'])} R {enc_stack(d['R'])}"
    return s


def mkeys_model(case):
    tr = trace(case)
    nb = tr["nb"]
    out = ["minit 0 " + " ".join(f"{enc_str(t)} {c}" for t, c in tr["docs"])]
    for r in tr["recs"]:
        if r.get("kp_reset"):
            out.append("mkpreset")
        elif r.get("cpr"):
            out.append("mcpr")
        elif r.get("ro"):
            continue
        elif r.get("ext"):
            d = r["B"][r["b"]]
            out.append(f"mext {r['b']} {enc_str(d['post'][0])} {d['post'][1]}")
        else:
            parts = []
            for i, d in enumerate(r["B"]):
                if d["atoms"] or d["post"] != d["pre"]:
                    a = _atoms_line(d)
                    parts.append(f"{i} {len(a.split(' '))} {a}")
            foc = r["focus_post"] if r["focus_post"] != r["focus_pre"] else "-"
            line = f"mcall {r['out']} {r['h']} {r['r0']} {r['r1']} {foc}"
            out.append(line + (" " + " ".join(parts) if parts else ""))
    out += [f"mact {t['b']} U" for t in tr["tail"]]
    for name, keys, r0, r1, kind in _row_lines(tr):
        out.append(f"rowhas {enc_str(name)} {enc_str(keys)} {int(r0)}{int(r1)}{kind}")
    return out


def mkeys_impl(case):
    tr = trace(case)
    nb = tr["nb"]
    first = {"focus_post": 0, "prev": "N", "B": [{"post": tuple(d), "U": [], "R": []} for d in tr["docs"]]}
    out = [_m_state(first, nb)]
    for r in tr["recs"]:
        if r.get("ro"):
            continue
        out.append(_m_state(r, nb))
    for t in tr["tail"]:
        out.append(_m_state(t, nb))
    for row in _row_lines(tr):
        out.append("1" if _observed_kind_ok(tr, row) else "observed-kind-differs")
    return out


def _is_char_insert(r):
    """a handler call that inserted >= 1 copies of the typed printable character at the cursor"""
    d = r["data"]
    if not (r["insert"] and r["nkeys"] == 1 and isinstance(d, str) and len(d) == 1 and d.isprintable()
            and r["key"] == d and not r["atoms"] and r.get("out", "ok") == "ok"):
        return False
    (t0, c0), (t1, c1) = r["pre"], r["post"]
    k = len(t1) - len(t0)
    return k >= 1 and t1 == t0[:c0] + d * k + t0[c0:] and c1 == c0 + k


def _is_multi_insert(r):
    """a call in Vi multiple-cursor insert mode (c-v, motion, I / A) that inserted the typed printable character at
    one or more cursors: the new text is the old one with k >= 1 copies of that character inserted"""
    d = r["data"]
    if not (r.get("multi_ins") and r["nkeys"] == 1 and isinstance(d, str) and len(d) == 1 and d.isprintable()
            and r["key"] == d and not r["atoms"] and r.get("out", "ok") == "ok"):
        return False
    t0, t1 = r["pre"][0], r["post"][0]
    k = len(t1) - len(t0)
    if k < 1:
        return False
    i = extra = 0
    for ch in t1:
        if i < len(t0) and ch == t0[i]:
            i += 1
        elif ch == d:
            extra += 1
        else:
            return False
    return i == len(t0) and extra == k


def _is_char_delete(r, key):
    if not (r["insert"] and r["nkeys"] == 1 and r["key"] == key and not r["atoms"] and r.get("out", "ok") == "ok"):
        return False
    (t0, c0), (t1, c1) = r["pre"], r["post"]
    k = len(t0) - len(t1)
    if k < 1:
        return False
    if key == "c-h":
        return c1 == c0 - k and t1 == t0[:c1] + t0[c0:]
    return c1 == c0 and t1 == t0[:c0] + t0[c0 + k:]


def _view(tr, bi):
    """the session as buffer `bi` sees it: every record with that buffer's pre / post / atoms / steps / stacks;
    a call during which the buffer was reset becomes a restart marker (a new session for that buffer)"""
    out = []
    for r in tr["recs"]:
        if any(r.get(m) for m in MARKERS):
            if r.get("ext") and r["b"] != bi:
                continue
            d = dict(r)
            d.update(r["B"][bi])
            if r.get("restart") and bi != 0:
                continue
            out.append(d)
            continue
        d = dict(r)
        d.update(r["B"][bi])
        if "X" in d["atoms"]:
            out.append({"restart": True, "doc": d["post"], "post": d["post"], "U": d["U"], "R": d["R"], "fed": r["fed"]})
            continue
        if r["focus_pre"] != bi:
            d["insert"] = d["multi_ins"] = False          # typed characters went to another buffer
        d["focused"] = r["focus_pre"] == bi
        out.append(d)
    return out


def keys_oracle(case):
    tr = trace(case)
    v = []
    for bi in range(tr["nb"]):
        v += _buffer_oracle(case, tr, bi)
    return v


def _buffer_oracle(case, tr, bi):
    recs = _view(tr, bi)
    v = []
    names = [k for k, _ in case["ops"]]
    odd = "f10" in names        # a harness binding that edits without saving: only soundness is required
    tag = "" if bi == 0 else f"[buffer {bi}] "

    def bad(sig, msg, i):
        r = recs[i]
        v.append({"signature": sig,
                  "msg": f"{tag}{msg}: mode={case['mode']} init=({case['text']!r},{case['cur']}) "
                         f"keys={names[:r.get('fed', 0) + 1]} call#{i} {r.get('name')} pre={r.get('pre')} "
                         f"steps={r.get('steps')} post={r.get('post')}"})

    log = []                     # states at command boundaries (before every handler call) of this session
    streak, streak_log = [], None
    chain, exact = [], True      # states the pending redos must restore (top last)
    prev_step = None
    init_text = tr["docs"][bi][0]
    # states of this buffer between physical key presses (a key press that makes a handler feed further keys with
    # key_processor.feed(..., first=True) is ONE boundary); sessions that replay a keyboard macro are exempt: there
    # one key press legitimately runs a whole sequence of commands, each with its own undo step
    kp_states = [(i_, tuple(sn[bi])) for i_, sn in tr.get("kp_states", [])]
    kp_pos = 0
    kp_allowed = {tuple(tr["docs"][bi])}
    kp_check = not any(r.get("name") in ("call_last_kbd_macro", "_execute_macro") for r in tr["recs"])
    cross_lost = False           # a grouped handler went on in this buffer after a focus change that was no command
    ro_lost = False              # the (known) read-only defect destroyed history in this session
    ext_uncovered = False        # text changed outside a command while no snapshot existed
    is_ro = False
    seg_start = 0                # index of the first record of the current session (after the last restart)
    for i, r in enumerate(recs):
        while kp_pos < len(kp_states) and kp_states[kp_pos][0] <= r.get("fed", -1):
            kp_allowed.add(kp_states[kp_pos][1])
            kp_pos += 1
        if r.get("restart"):
            kp_allowed = {tuple(r["doc"])}
            log, streak, streak_log, chain, exact, prev_step = [], [], None, [], True, None
            init_text = r["doc"][0]
            ro_lost = ext_uncovered = False
            seg_start = i + 1
            if r["U"] or r["R"]:
                bad("Buffer.reset | stacks kept", "a new prompt started with undo / redo entries", i)
            continue
        if r.get("ro"):
            is_ro = r["on"]
            continue
        if r.get("cpr") or r.get("kp_reset") or r.get("focus"):
            continue
        if r.get("ext"):
            # an edit outside a command: not a boundary; it is "covered" when a snapshot exists
            j = i - 1
            while j >= 0 and recs[j].get("ro"):
                j -= 1
            had_stack = bool(recs[j]["U"]) if j >= seg_start else False
            prev_text = recs[j]["post"][0] if j >= seg_start else init_text
            if not had_stack and r["post"][0] != prev_text:
                ext_uncovered = True
            if chain and r["post"][0] != prev_text:
                chain, exact = [], False
            continue
        pre, post = tuple(r["pre"]), tuple(r["post"])
        log.append(pre)
        if r["steps"]:
            for kind, spre, spost, sro in r["steps"]:
                spre, spost = tuple(spre), tuple(spost)
                if log[-1] != spre:
                    log.append(spre)     # a state held between two undo()/redo() calls of one handler
                if sro:
                    # undo() / redo() on a read-only buffer: nothing may be restored -- and nothing may be lost
                    if spost != spre:
                        bad("Buffer.undo/redo on a read-only buffer | text or cursor changed", "read-only buffer changed", i)
                    continue
                if kind == "U":
                    if spost != spre:
                        if spost[0] == spre[0]:
                            bad("Buffer.undo | state changed but text did not", "undo changed only the cursor", i)
                        if spost not in log[:-1] and spost != log[-1]:
                            bad("Buffer.undo | restored state never held at an earlier boundary",
                                "undo invented a state", i)
                        elif kp_check and not odd and spost not in kp_allowed:
                            bad("Buffer.undo | restored state never held between two key presses",
                                "undo restored a state that existed only inside one key press (a handler fed "
                                "further keys: several commands, one key press)", i)
                        if streak_log is None:
                            streak_log = list(log)
                        streak.append(spost)
                        if not _greedy_desc(streak_log, streak):
                            bad("Buffer.undo | not in reverse chronological order",
                                "successive undos do not walk back", i)
                        chain.append(spre)
                else:
                    streak, streak_log = [], None
                    if not ro_lost:
                        _check_redo(chain, exact, spre, spost, prev_step == "U", bad, i)
                    else:
                        chain, exact = [], False
                    if spost != spre and spost not in log:
                        bad("Buffer.redo | restored state never held at an earlier boundary", "redo invented a state", i)
                prev_step = kind
            if any(s[3] for s in r["steps"]):
                # read-only attempt: compare the stacks with those before the command (the boundary of an undo
                # binding never saves)
                j = i - 1
                while j >= 0 and (recs[j].get("ro") or recs[j].get("cpr") or recs[j].get("kp_reset")):
                    j -= 1
                if j >= 0 and not r["saved"] and (recs[j]["U"] != r["U"] or recs[j]["R"] != r["R"]):
                    ro_lost = True
                    bad(RO_SIG, f"stacks before {recs[j]['U']} / {recs[j]['R']} after {r['U']} / {r['R']}", i)
                    chain, exact = [], False
            elif post[0] != tuple(r["steps"][-1][2])[0]:
                bad("undo/redo command | text changed after the restore", "handler changed the restored text", i)
        else:
            streak, streak_log = [], None
            prev_step = None
        if (not r["steps"] and not r["saved"] and r.get("focused", True) and post[0] != pre[0] and i > 0
                and r["r0"] and not r["r1"] and not odd):
            # an edit by a grouped handler that took no snapshot: legitimate inside a run in THIS buffer;
            # if the previous command of the application started with the focus on another buffer, the run
            # was carried over by a focus change that was not a command, and nothing of this buffer was saved
            j = i - 1
            while j >= 0 and any(recs[j].get(m) for m in MARKERS):
                j -= 1
            if j >= 0 and recs[j].get("focused") is False and recs[j]["h"] == r["h"]:
                cross_lost = True
                bad(CROSS_SIG, "no snapshot of this buffer was taken before its text changed", i)
        if r["saved"] and not r["steps"]:
            # the command boundary of a non-undo/redo command saved: a new edit, the redo history goes.
            # (An undo / redo command is NOT a new edit: the states undone before it must stay redoable,
            # whichever undo key — C-_ or C-x C-u — was used.)
            chain, exact = [], True
        if not r["steps"]:
            if post[0] != pre[0] and r["R"] and not odd and r.get("focused", True):
                bad("edit command | redo history kept", "a new edit did not discard the redo stack", i)
            if post[0] != pre[0] and not r.get("focused", True):
                # edited by a command that started with the focus elsewhere: no snapshot of its own
                if chain:
                    chain, exact = [], False

    # grouping: maximal run of char insertions (or backspaces, or deletes), then commands that keep the
    # text, then a single undo  ==>  the state before the run comes back
    cmds = [r for r in recs if not any(r.get(m) for m in MARKERS)]
    if not odd:
        i = 0
        n = len(cmds)
        prev_run = None          # (first, last, index of the command after the text-preserving commands) of the run before
        while i < n:
            kinds = [("ins", _is_char_insert(cmds[i])), ("mins", _is_multi_insert(cmds[i])),
                     ("c-h", _is_char_delete(cmds[i], "c-h")), ("delete", _is_char_delete(cmds[i], "delete"))]
            kind = next((k for k, ok in kinds if ok), None)
            if kind is None:
                i += 1
                continue

            def member(r):
                if kind == "ins":
                    return _is_char_insert(r)
                if kind == "mins":
                    return _is_multi_insert(r)
                return _is_char_delete(r, kind)
            j = i
            # consecutive typed keys; a CPR response in between must be invisible (fedx skips them)
            while (j + 1 < n and member(cmds[j + 1]) and cmds[j + 1]["fedx"] == cmds[j]["fedx"] + 1
                   and cmds[j + 1]["h"] == cmds[i]["h"]):
                j += 1
            left_ok = not (i > 0 and cmds[i - 1]["h"] == cmds[i]["h"] and cmds[i - 1].get("out", "ok") != "raised")
            # nothing but commands may lie between the members and up to the undo (no restart / ext / kp reset / ro)
            k = j + 1
            while k < n and not cmds[k]["atoms"] and cmds[k]["post"][0] == cmds[k]["pre"][0] \
                    and cmds[k]["h"] != cmds[i]["h"]:
                k += 1
            clean = True
            if k < n:
                a, b = recs.index(cmds[i]), recs.index(cmds[k])
                clean = all(r.get("cpr") for r in recs[a:b] if any(r.get(m) for m in MARKERS))
            changed = tuple(cmds[j]["post"])[0] != tuple(cmds[i]["pre"])[0]
            if (left_ok and clean and k < n and cmds[k]["steps"] and cmds[k]["steps"][0][0] == "U"
                    and not cmds[k]["steps"][0][3] and changed):
                got = tuple(cmds[k]["steps"][0][2])
                if got != tuple(cmds[i]["pre"]):
                    v.append({"signature": GROUP_SIG,
                              "msg": f"{tag}run of {j - i + 1} '{kind}' calls starting at call#{i} then undo restored "
                                     f"{got} instead of {cmds[i]['pre']}: mode={case['mode']} "
                                     f"init=({case['text']!r},{case['cur']}) keys={names[:cmds[k]['fed'] + 1]}"})
                elif prev_run is not None and prev_run[2] == i:
                    # two runs split only by text-preserving commands: the SECOND undo step (same command with a
                    # count, or the next command) must restore the state from before the FIRST run
                    usteps = [st for st in cmds[k]["steps"] if st[0] == "U" and not st[3]]
                    second = usteps[1] if len(usteps) > 1 else None
                    if (second is None and len(cmds[k]["steps"]) == 1 and k + 1 < n and cmds[k + 1]["steps"]
                            and cmds[k + 1]["steps"][0][0] == "U" and not cmds[k + 1]["steps"][0][3]
                            and recs.index(cmds[k + 1]) == recs.index(cmds[k]) + 1 and not cmds[k + 1]["saved"]):
                        second = cmds[k + 1]["steps"][0]
                    if second is not None and tuple(second[2]) != tuple(cmds[prev_run[0]]["pre"]):
                        v.append({"signature": GROUP_SIG,
                                  "msg": f"{tag}two runs (calls #{prev_run[0]}.. and #{i}..) split by text-preserving commands: "
                                         f"the second undo restored {tuple(second[2])} instead of {cmds[prev_run[0]]['pre']}: "
                                         f"mode={case['mode']} init=({case['text']!r},{case['cur']}) keys={names[:cmds[k]['fed'] + 2]}"})
            # remember this run when it may be the first of two: it started a group, changed the text, and is followed
            # by text-preserving commands only, up to cmds[k]
            prev_run = None
            if left_ok and changed and k < n and not cmds[k]["steps"]:
                a, b = recs.index(cmds[i]), recs.index(cmds[k])
                if all(r.get("cpr") for r in recs[a:b] if any(r.get(m) for m in MARKERS)):
                    prev_run = (i, j, k)
            i = j + 1

    # repeated undo reaches the text the (last) session of this buffer started with
    tail = [t for t in tr["tail"] if t["b"] == bi]
    if not odd and tail and tr["note"] is None and not ro_lost and not ext_uncovered and not cross_lost:
        final = tail[-1]["B"][bi]["post"]
        if final[0] != init_text:
            v.append({"signature": "repeated undo | does not reach the initial text",
                      "msg": f"{tag}mode={case['mode']} init=({case['text']!r},{case['cur']}) keys={names} "
                             f"after {len(tail)} undos text={final[0]!r} (session started with {init_text!r})"})
        if tail[-1]["B"][bi]["U"]:
            v.append({"signature": "repeated undo | stack not exhausted",
                      "msg": f"{tag}mode={case['mode']} keys={names}"})
    return v


# ------------------------------------------------------------------ fully modelled emacs keys
EKEYS = ["a", "b", "c-h", "delete", "left", "right", "home", "end", "c-k", "c-_", "c-x_c-u", "f12",
         "c-a", "c-e", "c-b", "c-f", "c-u"]
# identity of the shipped bindings, as the Lean model numbers them (EKey.hid)
E_HID = {("self_insert", ("<any>",)): 0, ("backward_delete_char", ("c-h",)): 1, ("delete_char", ("delete",)): 2,
         ("backward_char", ("left",)): 3, ("forward_char", ("right",)): 4, ("beginning_of_line", ("home",)): 5,
         ("end_of_line", ("end",)): 6, ("kill_line", ("c-k",)): 7, ("undo", ("c-_",)): 8,
         ("undo", ("c-x", "c-u")): 9, ("_redo", ("f12",)): 10,
         ("beginning_of_line", ("c-a",)): 11, ("end_of_line", ("c-e",)): 12, ("backward_char", ("c-b",)): 13,
         ("forward_char", ("c-f",)): 14, ("unix_line_discard", ("c-u",)): 16}


def _ekeys_as_keys(case):
    ops = []
    for name, data in case["ops"]:
        if name == "c-x_c-u":
            ops += [["c-x", None], ["c-u", None]]
        else:
            ops.append([name, data])
    return {"kind": "keys", "mode": "emacs", "multiline": bool(case.get("multiline")), "text": case["text"],
            "cur": case["cur"], "history": [], "ops": ops}


def ekeys_model(case):
    out = [f"init {enc_str(case['text'])} {case['cur']}"]
    for name, data in case["ops"]:
        out.append("cpr" if name == "<cpr>" else f"ekey char {ord(data)}" if len(name) == 1 else f"ekey {name}")
    return out


def _static_lines(tr, first, hid_of_rec, suffix):
    """one line per handler call / CPR response; the previous handler is reported with the static id"""
    out = [first]
    last = ("N", None)       # (static id, session-local id) of the last handler that ran
    for r in tr["recs"]:
        if r.get("cpr"):
            hid = last[0] if r["prev"] == (last[1] if last[1] is not None else "N") else f"prev-changed-by-cpr({r['prev']})"
            out.append(state_line(r["post"][0], r["post"][1], hid, r["U"], r["R"]) + suffix(r, out[-1]))
            continue
        hid = hid_of_rec(r)
        if r["prev"] != r["h"]:
            hid = f"prev-not-updated({hid})"
        last = (hid, r["h"])
        out.append(state_line(r["post"][0], r["post"][1], hid, r["U"], r["R"]) + suffix(r, out[-1]))
    return out


def ekeys_impl(case):
    tr = trace(_ekeys_as_keys(case))
    return _static_lines(tr, state_line(case["text"], case["cur"], "N", [], []),
                         lambda r: E_HID.get((r["name"], tuple(r["bkeys"])), f"?{r['name']}{r['bkeys']}"),
                         lambda r, prev_line: "")


# ------------------------------------------------------------------ fully modelled vi keys
VKEYS = ["i", "a", "x", "u", "escape", "f12", "A", "X", "2", "3"]
V_HID = {"self_insert": 0, "_redo": 10, "_back_to_navigation": 20, "_i": 21, "_a": 22, "_delete": 23, "_undo": 24,
         "_A": 25, "_delete_before_cursor": 26, ("_arg", "2"): 27, ("_arg", "3"): 28}


def _v_hid(r):
    if r["name"] == "_arg":
        return V_HID.get((r["name"], r["bkeys"][0] if r["bkeys"] else None), f"?{r['name']}{r['bkeys']}")
    return V_HID.get(r["name"], f"?{r['name']}")


def _vkeys_as_keys(case):
    return {"kind": "keys", "mode": "vi", "multiline": bool(case.get("multiline")), "text": case["text"],
            "cur": case["cur"], "history": [], "ops": [[n, d] for n, d in case["ops"]]}


def vkeys_model(case):
    return [f"vinit {enc_str(case['text'])} {case['cur']}"] + \
        ["vcpr" if name == "<cpr>" else f"vkey {name}" for name, _ in case["ops"]]


def vkeys_impl(case):
    tr = trace(_vkeys_as_keys(case))

    def suffix(r, prev_line):
        if r.get("cpr"):
            return " " + " ".join(prev_line.split(" ")[-2:])   # a CPR response leaves input mode and argument alone
        return (" I" if r["ins_after"] else " N") + " " + (r["arg_after"] or "-")
    return _static_lines(tr, state_line(case["text"], case["cur"], "N", [], []) + " I -", _v_hid, suffix)


def _as_keys(case):
    if case["kind"] == "ekeys":
        return _ekeys_as_keys(case)
    if case["kind"] == "vkeys":
        return _vkeys_as_keys(case)
    return case


def _flat(tokens):
    """key tokens -> ops; a token is a key name or a marker [name, data]"""
    return [t if isinstance(t, list) else [t, t if len(t) == 1 else None] for t in tokens]


# ------------------------------------------------------------------ generators
API_ALPHA = [["save", 1], ["save", 0], ["ins", "a"], ["ins", "b"], ["delb", 1], ["cur", 0], ["undo"], ["redo"]]
CMD_ALPHA = {
    "A": [["save", 1], ["ins", "a"]], "B": [["save", 1], ["ins", "b"]], "H": [["save", 1], ["delb", 1]],
    "L": [["save", 1], ["cur", 0]], "K": [["save", 1], ["del", 99]], "U": [["undo"]], "R": [["redo"]],
}
RAND_CHARS = ["a", "b", "c", " ", "\n", "世", "é", "x"]

EMACS_SMALL = ["a", "b", "c-h", "left", "c-k", "c-_", "f12", "f9", "escape", "f7", "f6"]
VI_SMALL = ["i", "a", "escape", "x", "u", "f12", "c-h", "2", "f9", "f7"]

# new families of this round (markers are [name, data] pairs; see _session)
RO1, RO0 = ["<ro>", 1], ["<ro>", 0]
RO_VI_ALPHA = ["x", "escape", "u", "f12", "i", RO1, RO0]          # Vi `u` is the undo key that is active on read-only buffers
RESTART_ALPHA = ["a", "c-h", "c-_", "f12", "left", ["<restart>", ["", 0]], ["<restart>", ["hi", 1]]]
SEARCH_ALPHA = ["o", "c-r", "c-m", "c-g", "c-_", "f12", "c-h"]   # emacs incremental search over the history below
MULTI_HISTORY = ["old one", "older two", "cold"]
API_RO = {"A": [["save", 1], ["ins", "a"]], "H": [["save", 1], ["delb", 1]], "U": [["undo"]], "R": [["redo"]],
          "P": [["ro", 1]], "Q": [["ro", 0]]}

EMACS_TOKENS = (
    [[c] for c in ["a", "b", " ", "(", "x", "世", "a", "b"]] +
    [["c-h"], ["c-h"], ["delete"], ["delete"], ["c-delete"], ["left"], ["right"], ["home"], ["end"], ["up"], ["down"],
     ["c-a"], ["c-b"], ["c-e"], ["c-f"], ["c-k"], ["c-u"], ["c-w"], ["c-y"], ["c-t"],
     ["c-_"], ["c-_"], ["c-_"], ["c-x", "c-u"], ["f12"], ["f12"], ["f9"], ["f9"],
     ["escape", "b"], ["escape", "f"], ["escape", "d"], ["escape", "c-h"], ["escape", "c"], ["escape", "l"],
     ["escape", "u"], ["escape", "y"], ["escape", "\\"], ["escape", "3"], ["escape", "2", "a"], ["escape"],
     ["c-q", "a"], ["c-z"], ["c-@"], ["c-g"], ["c-left"], ["c-right"], ["c-home"], ["c-end"],
     ["escape", "<"], ["escape", ">"], ["c-n"], ["c-p"], ["pageup"], ["pagedown"], ["c-m"],
     ["c-x", "("], ["c-x", ")"], ["c-x", "e"], ["<bracketed-paste>"], ["<flush>"], ["escape", "w"], ["<kpreset>"],
     ["f7"], ["f6"], ["f6"]])
VI_TOKENS = (
    [[c] for c in ["a", "b", "x", "i", "w", "d", "u", "u", "h", "l", "0", "$", "2", "3", "p", "P", "y", "c", "A", "I",
                   "D", "C", "X", "s", "J", "o", "O", "~", "e", "v", "k", "j", "G", "R", " ", "世"]] +
    [["escape"], ["escape"], ["escape"], ["c-h"], ["c-h"], ["delete"], ["left"], ["right"], ["c-w"], ["c-v", "a"],
     ["c-m"], ["d", "d"], ["d", "w"], ["c", "w"], ["y", "y"], ["r", "z"], ["g", "g"], ["f12"], ["f12"], ["f9"],
     ["escape", "u"], ["escape", "u"], ["escape", "2", "u"], ["escape", "3", "u"], ["i", "a", "b", "escape"],
     ["<bracketed-paste>"], ["<flush>"], ["c-o"], ["up"], ["down"], ["c-k"], ["c-t"], ["<kpreset>"], ["f7"], ["f6"]])


def _flatten(tokens, rng=None):
    ops = []
    for tok in tokens:
        for k in tok:
            if k == "<bracketed-paste>":
                data = "".join(rng.choice(RAND_CHARS) for _ in range(rng.randrange(0, 4))) if rng else "p\nq"
                ops.append([k, data])
            elif isinstance(k, list):
                ops.append(k)                    # a marker: [name, data]
            elif len(k) == 1:
                ops.append([k, k])
            else:
                ops.append([k, None])
    return ops


_GEN_CALLS = 0


def cases(tier, rng):
    # The second call in one process is core's "search harder" pass after a broken proof or
    # correspondence (always asked for as "thorough", with another seed): real key sessions cost
    # ~15 ms each, so that pass keeps the thorough API cases but uses the quick-sized session lists
    # (new random sessions because of the new seed) to stay within minutes.
    global _GEN_CALLS
    _GEN_CALLS += 1
    api_quick = tier == "quick"
    quick = tier == "quick" or _GEN_CALLS > 1
    yield from _api_cases(api_quick, rng)
    yield from _key_cases(quick, rng)


def _api_cases(quick, rng):
    # ---- api, exhaustive raw call sequences
    maxlen = 4 if quick else 5
    for n in range(1, maxlen + 1):
        for tup in itertools.product(API_ALPHA, repeat=n):
            yield {"kind": "api", "text": "", "cur": 0, "ops": [list(o) for o in tup]}
            if n <= 4:
                yield {"kind": "api", "text": "ab", "cur": 1, "ops": [list(o) for o in tup]}
    # ---- api, exhaustive command sequences (save before every edit)
    maxlen = 4 if quick else 5
    for n in range(1, maxlen + 1):
        for tup in itertools.product("ABHLKUR", repeat=n):
            ops = [list(o) for c in tup for o in CMD_ALPHA[c]]
            yield {"kind": "api", "text": "ab" if n % 2 else "", "cur": 1 if n % 2 else 0, "disc": True, "ops": ops}
    # ---- api, read-only phases: every sequence over {edit a, backspace, undo, redo, read-only on, read-only off}
    # (edits are only issued while the buffer is writable)
    maxlen = 5 if quick else 6
    for n in range(1, maxlen + 1):
        for tup in itertools.product("AHURPQ", repeat=n):
            if "P" not in tup:
                continue
            ops, ro = [], False
            for c in tup:
                if c in "PQ":
                    ro = c == "P"
                elif ro and c in "AH":
                    continue
                ops += [list(o) for o in API_RO[c]]
            yield {"kind": "api", "text": "xy" if n % 2 else "", "cur": 1 if n % 2 else 0, "disc": True, "ops": ops}
    # ---- api, random
    for _ in range(2000 if quick else 15000):
        n = rng.choice([0, 1, 2, 3, 5, 8, 20])
        text = "".join(rng.choice(RAND_CHARS) for _ in range(n))
        cur = rng.choice([0, len(text), rng.randrange(0, len(text) + 1)])
        disc = rng.random() < 0.5
        ro_phase = rng.random() < 0.3
        ops = []
        for _ in range(rng.randrange(1, 41)):
            k = rng.randrange(20)
            if k < 5:
                ops.append(["undo"])
            elif k < 8:
                ops.append(["redo"])
            elif k < 10 and not disc:
                ops.append(["save", rng.choice([1, 1, 0])])
            elif k == 11 and ro_phase:
                ops += [["ro", 1]] + [rng.choice([["undo"], ["redo"], ["undo"], ["cur", rng.randrange(0, 6)]])
                                      for _ in range(rng.randrange(1, 4))] + [["ro", 0]]
            elif k == 10 and not disc:
                t = "".join(rng.choice(RAND_CHARS) for _ in range(rng.randrange(0, 5)))
                ops.append(["reset", t, rng.randrange(0, len(t) + 1)])
            else:
                if disc:
                    ops.append(["save", 1])
                e = rng.randrange(7)
                if e == 0:
                    ops.append(["ins", "".join(rng.choice(RAND_CHARS) for _ in range(rng.randrange(0, 4)))])
                elif e == 1:
                    ops.append(["delb", rng.choice([0, 1, 1, 2, 50])])
                elif e == 2:
                    ops.append(["del", rng.choice([0, 1, 1, 2, 50])])
                elif e == 3:
                    ops.append(["cur", rng.randrange(-2, 25)])
                elif e == 4:
                    ops.append(["text", "".join(rng.choice(RAND_CHARS) for _ in range(rng.randrange(0, 6)))])
                elif e == 5:
                    t = "".join(rng.choice(RAND_CHARS) for _ in range(rng.randrange(0, 6)))
                    ops.append(["set", t, rng.randrange(0, len(t) + 1)])
                else:
                    ops.append(["ins", rng.choice(RAND_CHARS)])
        yield {"kind": "api", "text": text, "cur": cur, "disc": disc, "ops": ops}


def _inject_cpr(ops, rng, p=0.5):
    """cursor position reports arrive at arbitrary key boundaries (also inside a key sequence)"""
    if rng.random() < p:
        ops = list(ops)
        for _ in range(rng.randrange(1, 4)):
            ops.insert(rng.randrange(len(ops) + 1), ["<cpr>", None])
    return ops


def _key_cases(quick, rng):
    kcases = []
    maxlen = 2 if quick else 3
    for mode, alpha in (("emacs", EMACS_SMALL), ("vi", VI_SMALL)):
        tups = [t for n in range(1, maxlen + 1) for t in itertools.product(alpha, repeat=n)]
        # beyond the exhaustive bound: a seeded sample of longer sequences over the same alphabet
        if quick:
            tups += [tuple(rng.choice(alpha) for _ in range(rng.choice([3, 3, 4, 5]))) for _ in range(150)]
        else:
            tups += [tuple(rng.choice(alpha) for _ in range(rng.choice([4, 4, 5, 6]))) for _ in range(1000)]
        nex = sum(len(alpha) ** n for n in range(1, maxlen + 1))
        for idx, tup in enumerate(tups):
            odd = len(tup) % 2
            ops = _flatten([[k] for k in tup])
            if idx >= nex:
                ops = _inject_cpr(ops, rng)
            kcases.append({"kind": "keys", "mode": mode, "multiline": False, "text": "xy" if odd else "",
                           "cur": 1 if odd else 0, "history": [], "ops": ops})
    for _ in range(350 if quick else 4500):
        mode = rng.choice(["emacs", "vi"])
        toks = EMACS_TOKENS if mode == "emacs" else VI_TOKENS
        n = rng.choice([0, 0, 1, 2, 3, 6, 12])
        text = "".join(rng.choice(["a", "b", " ", "x", "\n", "世"]) for _ in range(n))
        if rng.random() < 0.6:
            text = text.replace("\n", " ")
        cur = rng.choice([0, len(text), rng.randrange(0, len(text) + 1)])
        tl = [rng.choice(toks) for _ in range(rng.randrange(1, 26))]
        if rng.random() < 0.6:
            # a tail that exercises deep undo / redo: m undos, up to m redos, an edit, more undos
            def u():     # emacs: both undo keys, mixed within one chain
                return rng.choice([["c-_"], ["c-x", "c-u"]]) if mode == "emacs" else ["escape", "u"]
            m = rng.randrange(1, 5)
            tl += [u() for _ in range(m)] + [["f12"]] * rng.randrange(0, m + 1)
            if rng.random() < 0.5:
                tl += [rng.choice(toks)] + [u() for _ in range(rng.randrange(0, 3))] + [["f12"]] * rng.randrange(0, 2)
        r = rng.random()
        if r < 0.08:
            tl.insert(rng.randrange(len(tl) + 1), ["f10"])
            tl.insert(rng.randrange(len(tl) + 1), ["f10"])
        elif r < 0.16:
            tl.insert(rng.randrange(len(tl) + 1), ["f8"])
        elif r < 0.26:
            # a read-only phase with undo / redo attempts inside
            p = rng.randrange(len(tl) + 1)
            inner = [rng.choice([["escape", "u"], ["f12"], ["escape", "2", "u"], ["left"], ["f8"]])
                     for _ in range(rng.randrange(1, 4))]
            tl[p:p] = [[RO1]] + inner + [[RO0]]
        elif r < 0.34:
            t = "".join(rng.choice(["a", "b", " ", "x"]) for _ in range(rng.randrange(0, 4)))
            tl.insert(rng.randrange(len(tl) + 1), [["<restart>", [t, rng.randrange(0, len(t) + 1)]]])
        kcases.append({"kind": "keys", "mode": mode, "multiline": "\n" in text or rng.random() < 0.4,
                       "text": text, "cur": cur,
                       "history": rng.choice([[], [], ["old one", "older\ntwo"]]),
                       "ops": _inject_cpr(_flatten(tl, rng), rng)})
    # ---- read-only phases (Vi: `u` is active on a read-only buffer), exhaustive small scope + sample
    maxlen = 3 if quick else 4
    tups = [t for n in range(1, maxlen + 1) for t in itertools.product(range(len(RO_VI_ALPHA)), repeat=n)]
    tups = [t for t in tups if 5 in t]        # at least one "read-only on"
    tups += [tuple(rng.randrange(len(RO_VI_ALPHA)) for _ in range(rng.choice([4, 5, 6, 7])))
             for _ in range(120 if quick else 1200)]
    for tup in tups:
        odd = len(tup) % 2
        kcases.append({"kind": "keys", "mode": "vi", "multiline": False, "text": "xy" if odd else "",
                       "cur": 1 if odd else 0, "history": [], "ops": _flat([RO_VI_ALPHA[i] for i in tup])})
    # ---- emacs shift selection: s-left / s-right / s-home / s-end select, a printable character (or Backspace,
    # Delete, C-w, C-y, Enter) replaces the selection, a motion cancels it by FEEDING the key again (two handler
    # calls, one key press); then more typing, undo chains, redo mixes
    shift_core = ["s-left", "s-home", "X", "Y", "c-h", "c-_", "f12"]
    shift_all = shift_core + ["s-right", "s-end", "delete", "c-w", "c-y", "c-m", "left", "end", "c-x_c-u", "c-k"]
    maxlen = 3 if quick else 4
    tups = [t for n in range(2, maxlen + 1) for t in itertools.product(shift_core, repeat=n)
            if "s-left" in t or "s-home" in t]
    tups += [tuple(rng.choice(shift_all) for _ in range(rng.choice([4, 5, 6, 8]))) for _ in range(80 if quick else 800)]
    for idx, tup in enumerate(tups):
        text = ["hello world", "ab\ncd", "x"][idx % 3]
        ops = []
        for k in tup:
            ops += [["c-x", None], ["c-u", None]] if k == "c-x_c-u" else _flat([k])
        kcases.append({"kind": "keys", "mode": "emacs", "multiline": idx % 3 == 1, "text": text,
                       "cur": len(text) if idx % 2 else max(0, len(text) - 2), "history": [], "ops": ops})
    # ---- Vi multiple-cursor insert mode (c-v, motion, I / A): the typed characters go to the grouped binding
    # `_insert_text_multiple_cursors`; runs, runs with a motion / Backspace / CPR inside, two runs, then Escape, u, u
    body_alpha = ["x", "y", "left", "c-h", ["<cpr>", None]]
    prefixes = [["escape", "c-v", "j", "I"], ["escape", "c-v", "j", "A"], ["escape", "c-v", "l", "j", "I"],
                ["escape", "l", "c-v", "j", "k", "j", "A"]]
    maxlen = 3 if quick else 4
    bodies = [t for n in range(1, maxlen + 1) for t in itertools.product(range(len(body_alpha)), repeat=n)
              if 0 in t or 1 in t]
    bodies += [tuple(rng.randrange(len(body_alpha)) for _ in range(rng.choice([4, 5, 6, 7])))
               for _ in range(40 if quick else 400)]
    for idx, body in enumerate(bodies):
        pre = prefixes[idx % 2] if quick else prefixes[idx % 4]
        tail = [["escape", "u", "u"], ["escape", "u", "u", "f12"], ["escape", "2", "u"], ["escape", "u", "f12", "u"]][idx % 4]
        text = ["ab\ncd", "ab\ncd\nef", "a\n\nbc"][idx % 3]
        kcases.append({"kind": "keys", "mode": "vi", "multiline": True, "text": text, "cur": 0, "history": [],
                       "ops": _flat(pre + [body_alpha[i] for i in body] + tail)})
    # ---- a new prompt on the same PromptSession (Buffer.reset + Application.reset), exhaustive small scope + sample
    tups = [t for n in range(1, maxlen + 1) for t in itertools.product(range(len(RESTART_ALPHA)), repeat=n)]
    tups = [t for t in tups if 5 in t or 6 in t]
    tups += [tuple(rng.randrange(len(RESTART_ALPHA)) for _ in range(rng.choice([4, 5, 6])))
             for _ in range(80 if quick else 800)]
    for idx, tup in enumerate(tups):
        kcases.append({"kind": "keys", "mode": "emacs" if idx % 3 else "vi", "multiline": False, "text": "xy", "cur": 1,
                       "history": [], "ops": _flat([RESTART_ALPHA[i] for i in tup])})
    # ---- asynchronous completions: text inserted outside any command (`ext` items of the model)
    for _ in range(60 if quick else 600):
        tl = [rng.choice(["a", "l", "p", "c-i", "c-i", "c-_", "f12", "c-h", "left", "b", " "])
              for _ in range(rng.randrange(2, 12))]
        kcases.append({"kind": "keys", "mode": "emacs", "multiline": False, "text": rng.choice(["", "al", "x al"]),
                       "cur": 0, "history": [], "completer": True, "ops": _flat(tl)})
        kcases[-1]["cur"] = len(kcases[-1]["text"])
    # ---- several buffers: incremental search (exhaustive small scope) and random search / system-prompt sessions
    mcases = []
    maxlen = 3 if quick else 4
    tups = [t for n in range(1, maxlen + 1) for t in itertools.product(SEARCH_ALPHA, repeat=n) if "c-r" in t]
    for tup in tups:
        mcases.append({"kind": "mkeys", "mode": "emacs", "multi": True, "multiline": False, "text": "o", "cur": 1,
                       "history": MULTI_HISTORY, "ops": _flat(tup)})
    for _ in range(150 if quick else 1500):
        mode = rng.choice(["emacs", "vi"])
        tl = []
        for _ in range(rng.randrange(1, 6)):
            seg = rng.random()
            chars = [rng.choice(["o", "l", "d", "x", " "]) for _ in range(rng.randrange(0, 4))]
            inside = chars + [rng.choice(["c-h", "c-_", "f12", "left", "c-r", "c-s", "up", "down"])
                              for _ in range(rng.randrange(0, 3))]
            rng.shuffle(inside)
            if seg < 0.4:      # edit the main buffer
                toks = EMACS_TOKENS if mode == "emacs" else VI_TOKENS
                tl += [k for tok in (rng.choice(toks) for _ in range(rng.randrange(1, 5))) for k in tok
                       if k not in ("c-m", "c-j", "<bracketed-paste>")]
            elif seg < 0.75:   # search
                start = rng.choice(["c-r", "c-s"]) if mode == "emacs" else rng.choice(["escape", "escape"])
                tl += [start] + (["/" if rng.random() < 0.5 else "?"] if mode == "vi" else [])
                tl += inside + [rng.choice(["c-m", "c-g", "escape", "c-m"])]
            else:              # system prompt (never Enter: it would run a shell command)
                tl += (["escape", "!"] if mode == "emacs" else ["escape", "!"]) + inside + [rng.choice(["c-g", "escape", "c-c"])]
            if rng.random() < 0.5:
                tl += [rng.choice(["c-_", "f12"]) if mode == "emacs" else rng.choice(["u", "f12"])
                       for _ in range(rng.randrange(1, 4))]
        text = rng.choice(["", "o", "old", "x o"])
        mcases.append({"kind": "mkeys", "mode": mode, "multi": True, "multiline": False, "text": text,
                       "cur": rng.randrange(0, len(text) + 1), "history": rng.choice([MULTI_HISTORY, MULTI_HISTORY, []]),
                       "ops": _inject_cpr(_flat(tl), rng, p=0.2)})
    # ---- a form with two fields: focus changes by a key binding (c-n) and, with "advance", by a callback in
    # the middle of a run of typed characters (not a command)
    FORM_ALPHA = ["1", "2", "c-n", "c-_", "f12", "c-h"]
    maxlen = 3 if quick else 4
    tups = [t for n in range(1, maxlen + 1) for t in itertools.product(FORM_ALPHA, repeat=n)]
    tups += [tuple(rng.choice(FORM_ALPHA) for _ in range(rng.choice([4, 5, 6, 7]))) for _ in range(60 if quick else 600)]
    for idx, tup in enumerate(tups):
        mcases.append({"kind": "mkeys", "form": True, "advance": 2 if idx % 2 else 0, "mode": "emacs" if idx % 4 < 3 else "vi",
                       "multi": True, "multiline": False, "text": "", "cur": 0, "text2": "zz" if idx % 3 else "",
                       "history": [], "ops": _flat(tup)})
    # ---- fully modelled emacs keys: the model predicts the text too, rules and identities are static
    ecases = []
    small = ["a", "b", "c-h", "left", "c-k", "c-_", "c-x_c-u", "f12", "c-u"]
    maxlen = 3 if quick else 4
    tups = [t for n in range(1, maxlen + 1) for t in itertools.product(small, repeat=n)]
    if quick:   # beyond the exhaustive bound: a seeded sample of longer sequences
        tups += [tuple(rng.choice(small) for _ in range(rng.choice([4, 4, 5]))) for _ in range(250)]
    else:
        tups += [tuple(rng.choice(small) for _ in range(rng.choice([5, 5, 6, 7]))) for _ in range(2000)]
    nex = sum(len(small) ** n for n in range(1, maxlen + 1))
    for idx, tup in enumerate(tups):
        odd = len(tup) % 2
        ops = [[k, k if len(k) == 1 else None] for k in tup]
        if idx >= nex:
            ops = _inject_cpr(ops, rng)
        ecases.append({"kind": "ekeys", "multiline": False, "text": "xy" if odd else "", "cur": 1 if odd else 0,
                       "ops": ops})
    for _ in range(150 if quick else 1500):
        n = rng.choice([0, 1, 2, 3, 6, 12])
        text = "".join(rng.choice(["a", "b", " ", "x", "\n", "世"]) for _ in range(n))
        if rng.random() < 0.5:
            text = text.replace("\n", " ")
        cur = rng.choice([0, len(text), rng.randrange(0, len(text) + 1)])
        ops = []
        for _ in range(rng.randrange(1, 30)):
            k = rng.choice(EKEYS + ["a", "b", "世", " ", "c-_", "c-_", "f12", "c-h"])
            ops.append([k, k if len(k) == 1 else None])
        ecases.append({"kind": "ekeys", "multiline": "\n" in text, "text": text, "cur": cur,
                       "ops": _inject_cpr(ops, rng)})
    # ---- fully modelled vi keys
    vcases = []
    maxlen = 3 if quick else 4
    tups = [t for n in range(1, maxlen + 1) for t in itertools.product(VKEYS, repeat=n)]
    if quick:
        tups += [tuple(rng.choice(VKEYS) for _ in range(rng.choice([4, 5, 6]))) for _ in range(200)]
    else:
        tups += [tuple(rng.choice(VKEYS) for _ in range(rng.choice([5, 6, 7, 8]))) for _ in range(1500)]
    nex = sum(len(VKEYS) ** n for n in range(1, maxlen + 1))
    for idx, tup in enumerate(tups):
        m = len(tup) % 3
        ops = [[k, k if len(k) == 1 else None] for k in tup]
        if idx >= nex:
            ops = _inject_cpr(ops, rng)
        vcases.append({"kind": "vkeys", "multiline": m == 2, "text": ["", "xy", "ab\ncd"][m], "cur": [0, 1, 2][m],
                       "ops": ops})
    for _ in range(150 if quick else 1500):
        n = rng.choice([0, 1, 2, 3, 6, 12])
        text = "".join(rng.choice(["a", "b", " ", "x", "\n", "世"]) for _ in range(n))
        if rng.random() < 0.5:
            text = text.replace("\n", " ")
        cur = rng.choice([0, len(text), rng.randrange(0, len(text) + 1)])
        ops = []
        for _ in range(rng.randrange(1, 30)):
            k = rng.choice(VKEYS + ["escape", "u", "i"])
            ops.append([k, k if len(k) == 1 else None])
        vcases.append({"kind": "vkeys", "multiline": "\n" in text, "text": text, "cur": cur,
                       "ops": _inject_cpr(ops, rng)})
    _warm(kcases + mcases + [_as_keys(c) for c in ecases + vcases])
    # interleave the families so that every worker chunk gets its share of each kind
    yield from kcases
    yield from mcases
    yield from ecases
    yield from vcases


def _trace_worker(chunk):
    out = []
    for c in chunk:
        try:
            out.append(asyncio.run(_session(c)))
        except Exception as e:
            sys.stderr.write(f"c07: harness exception {type(e).__name__}: {e} in {json.dumps(c)[:300]}\n")
            nb = 2 if c.get("form") else 3 if c.get("multi") else 1
            out.append({"recs": [], "tail": [], "note": f"harness exception {type(e).__name__}: {e}",
                        "init": (c["text"], c["cur"]), "nb": nb,
                        "docs": [(c["text"], c["cur"])] + [("", 0)] * (nb - 1)})
    return out


def _warm(kcases):
    """run the real sessions once, in parallel, and remember the traces (model input, impl output and
    oracle are all views of the same real run)"""
    todo = [c for c in kcases if _case_key(c) not in _TRACE]
    if not todo:
        return
    procs = int(os.environ.get("VERIF_PROCS", "0")) or min(16, os.cpu_count() or 4)
    if len(todo) < 32 or procs == 1:
        res = _trace_worker(todo)
    else:
        import multiprocessing as mp
        n = max(1, min(len(todo) // (procs * 4), 200))
        chunks = [todo[i:i + n] for i in range(0, len(todo), n)]
        with mp.get_context("fork").Pool(procs) as pool:
            res = [t for r in pool.map(_trace_worker, chunks) for t in r]
    for c, t in zip(todo, res):
        _TRACE[_case_key(c)] = t


# ------------------------------------------------------------------ plugin interface
def model_lines(case):
    return {"api": api_model, "keys": keys_model, "mkeys": mkeys_model, "ekeys": ekeys_model,
            "vkeys": vkeys_model}[case["kind"]](case)


def impl_lines(case):
    return {"api": api_impl, "keys": keys_impl, "mkeys": mkeys_impl, "ekeys": ekeys_impl,
            "vkeys": vkeys_impl}[case["kind"]](case)


def oracle(case):
    if case["kind"] == "api":
        v = api_oracle(case)
    else:
        v = keys_oracle(_as_keys(case))
    seen, out = set(), []
    for x in v:
        if x["signature"] not in seen:
            seen.add(x["signature"])
            out.append(x)
    return out


def _is_cmd(r):
    return not any(r.get(m) for m in MARKERS)


def nontrivial(case):
    if case["kind"] == "api":
        return any(o[0] in ("undo", "redo") for o in case["ops"]) and any(o[0] == "save" for o in case["ops"])
    tr = trace(_as_keys(case))
    return any(_is_cmd(r) and any(d["atoms"] and tuple(d["pre"]) != tuple(d["post"]) for d in r["B"])
               for r in tr["recs"])


def sample_view(case):
    return case


def distribution(cases):
    d = {"kind": {}, "ops": {}, "len": {}, "key_calls": 0, "undo_cmds_changing": 0, "redo_cmds_changing": 0,
         "grouped_calls(no save at boundary)": 0, "handlers_that_raised": 0, "EditReadOnlyBuffer_outcomes": 0,
         "read_only_undo_redo_attempts": 0, "restarts": 0, "external_edits(async completion)": 0,
         "calls_with_focus_change": 0, "calls_editing_an_unfocused_buffer": 0, "buffer_resets_inside_a_handler": 0,
         "distinct_shipped_bindings_dispatched": 0, "sessions_cut_short": {}}
    rows = set()
    for c in cases:
        k = c["kind"] + ("/" + c["mode"] if c["kind"] in ("keys", "mkeys") else "")
        c = _as_keys(c)
        d["kind"][k] = d["kind"].get(k, 0) + 1
        n = len(c["ops"])
        key = str(n) if n < 8 else ("8-15" if n < 16 else "16+")
        d["len"][key] = d["len"].get(key, 0) + 1
        if c["kind"] == "api":
            for op in c["ops"]:
                d["ops"][op[0]] = d["ops"].get(op[0], 0) + 1
        else:
            tr = _TRACE.get(_case_key(c))
            if tr is None:
                continue
            if tr["note"]:
                nk = tr["note"].split(" at key")[0][:40]
                d["sessions_cut_short"][nk] = d["sessions_cut_short"].get(nk, 0) + 1
            for r in tr["recs"]:
                if r.get("restart"):
                    d["restarts"] += 1
                if r.get("ext"):
                    d["external_edits(async completion)"] += 1
                if not _is_cmd(r):
                    continue
                d["key_calls"] += 1
                if r.get("row"):
                    rows.add(tuple(r["row"]))
                if r["out"] == "raised":
                    d["handlers_that_raised"] += 1
                if r["out"] == "ro":
                    d["EditReadOnlyBuffer_outcomes"] += 1
                if r["focus_pre"] != r["focus_post"]:
                    d["calls_with_focus_change"] += 1
                for i, b in enumerate(r["B"]):
                    if b["atoms"] and tuple(b["pre"]) != tuple(b["post"]):
                        d["undo_cmds_changing" if ("U" in b["atoms"]) else "redo_cmds_changing"] += 1
                    if "UR" in b["atoms"] or "RR" in b["atoms"]:
                        d["read_only_undo_redo_attempts"] += 1
                    if "X" in b["atoms"]:
                        d["buffer_resets_inside_a_handler"] += 1
                    if i != r["focus_pre"] and tuple(b["pre"])[0] != tuple(b["post"])[0]:
                        d["calls_editing_an_unfocused_buffer"] += 1
                if not r["saved"] and not r["atoms"]:
                    d["grouped_calls(no save at boundary)"] += 1
    d["distinct_shipped_bindings_dispatched"] = len(rows)
    try:
        d["grouped_rows_of_the_regenerated_table"] = [f"{r[0]} [{r[1]}]" for r in gen_c07.rows()
                                                      if r[4] == 0 and r[2] and not r[3]]
    except Exception as e:  # never let the evidence fail the run
        d["grouped_rows_of_the_regenerated_table"] = f"error: {e}"
    return d


if __name__ == "__main__":
    sys.exit(core.main(sys.modules[__name__]))
