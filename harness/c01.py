#!/venv/bin/python
"""C01 — basic buffer edits: correspondence with Ptk.Model.C01 + property oracle."""
from __future__ import annotations

import itertools
import os
import sys

sys.path.insert(0, os.path.dirname(os.path.abspath(__file__)))
import core
from core import enc_str, enc_bool

from types import SimpleNamespace

from prompt_toolkit.buffer import Buffer, indent, unindent
from prompt_toolkit.document import Document
from prompt_toolkit.key_binding.bindings.named_commands import get_by_name

NAMED = {"bdc": "backward-delete-char", "dc": "delete-char", "si": "self-insert", "tc": "transpose-chars",
         "uw": "uppercase-word", "lw": "downcase-word", "cw": "capitalize-word"}
CASEF = {"uw": str.upper, "lw": str.lower, "cw": str.title}

ID = "C01"
DRIVER = "drv_c01"
PROPS = ["Ptk.Props.C01"]
ANCHORS = ["src/prompt_toolkit/buffer.py", "src/prompt_toolkit/document.py",
           "src/prompt_toolkit/key_binding/bindings/named_commands.py"]
LEVEL_TEXT = ("Lean 4 theorems over an executable model of the Buffer edit API: functional specs of insert / "
              "overwrite / delete / delete_before_cursor / swap / join / transforms / indent and the invariant "
              "0 <= cursor <= len(text) for every finite op sequence; the model is tied to /repo on every run by a "
              "differential correspondence (exhaustive small scope + random sequences) and the property oracle")
LEVEL_NOTE = ("trusted: Lean kernel, axioms propext/Classical.choice/Quot.sound only; the hand-written model "
              "(validated by the correspondence, not proved equal to the Python); CPython str semantics")
RULE = ("exhaustive: every text over a 5-symbol alphabet up to the tier's length bound x every cursor x "
        "every single op with counts 0..len+2; then seeded random op sequences (1-12 ops) on texts up to 40 "
        "chars incl. wide/combining characters; a case is non-trivial when at least one op changes text or cursor")
EXHAUSTIVE = True
EXHAUSTIVE_SCOPE = {"quick": "alphabet {a,B,space,\\n,\\t}, len<=3, all cursors, all single ops",
                    "thorough": "alphabet {a,B,space,\\n,\\t}, len<=5, all cursors, all single ops"}
TRUSTED = ["harness/c01.py compares (text, cursor, return value) after every op",
           "Ptk/Model/C01.lean is a hand translation of buffer.py edit methods (correspondence-checked)"]
ASSUMPTIONS = ["CPython str slicing/concatenation semantics", "str.isspace table regenerated from the interpreter",
               "transform callback = ASCII swapcase in the correspondence; theorems hold for every callback"]
PARTIAL_SCOPE = ["open_in_editor, yank_nth_arg, reshape_text not modelled",
                 "named commands (backward-delete-char etc.) are exercised end to end by the oracle only"]

ALPHA = ["a", "B", " ", "\n", "\t"]
RAND_ALPHA = ["a", "B", "c", " ", " ", "\n", "\n", "\t", "世", "é", "　", "x"]


def swapcase_ascii(s: str) -> str:
    return "".join(c.upper() if "a" <= c <= "z" else c.lower() if "A" <= c <= "Z" else c for c in s)


def single_ops(n: int):
    """every op with every small argument, for a text of length n"""
    ops = []
    for data in ["", "x", "\n", "xy", "x\ny"]:
        for ov in (0, 1):
            for mv in (0, 1):
                ops.append(["ins", data, ov, mv])
    for k in range(n + 3):
        ops.append(["del", k])
        ops.append(["delb", k])
    for c in (0, 1):
        ops += [["nl", c], ["above", c], ["below", c]]
    ops += [["join", " "], ["join", ""], ["swap"], ["trl"]]
    for v in range(-1, n + 2):
        ops.append(["cur", v])
    ops += [["text", ""], ["text", "ab"]]
    for a in range(n + 1):
        for b in range(a + 1, n + 2):
            ops.append(["trr", a, b])
    for a in range(-1, 3):
        for b in range(a, 4):
            ops.append(["ind", a, b, 1])
            ops.append(["unind", a, b, 1])
    ops += [["ind", 0, 2, 2], ["unind", 0, 2, 2], ["ind", 0, 1, 0]]
    for a in range(-(n + 2), n + 3):
        ops.append(["bdc", a])
        ops.append(["dc", a])
    for o in range(n + 1):
        ops.append(["jsl", o, " "])
    ops.append(["jsl", 0, ""])
    for c in range(-2, n + 2):
        ops.append(["setdoc", "ab", c])
    ops += [["si", "x", -1], ["si", "x", 0], ["si", "x", 1], ["si", "xy", 3], ["tc"]]
    for w in ("uw", "lw", "cw"):
        for a in (-1, 0, 1, 2, 3):
            ops.append([w, a])
    return ops


def rand_op(rng, n):
    k = rng.randrange(21)
    if k == 19:
        return ["jsl", rng.randrange(0, n + 1), rng.choice([" ", "", "-"])]
    if k == 20:
        t = "".join(rng.choice(RAND_ALPHA) for _ in range(rng.randrange(0, 5)))
        return ["setdoc", t, rng.randrange(-3, len(t) + 2)]
    if k >= 14:
        a = rng.choice([-n - 1, -2, -1, 0, 1, 1, 2, 3, n, n + 4])
        if k == 14:
            return ["bdc", a]
        if k == 15:
            return ["dc", a]
        if k == 16:
            return ["si", rng.choice(["x", "ab", " "]), rng.choice([-1, 0, 1, 2, 5])]
        if k == 17:
            return ["tc"]
        return [rng.choice(["uw", "lw", "cw"]), rng.choice([-1, 0, 1, 1, 2, 4])]
    cnt = rng.choice([0, 1, 1, 2, 3, n, n + 1, n + 5, rng.randrange(0, n + 2)])
    if k == 0:
        data = "".join(rng.choice(RAND_ALPHA) for _ in range(rng.randrange(0, 4)))
        return ["ins", data, rng.randrange(2), rng.randrange(2)]
    if k == 1:
        return ["del", cnt]
    if k == 2:
        return ["delb", cnt]
    if k == 3:
        return ["nl", rng.randrange(2)]
    if k == 4:
        return ["above", rng.randrange(2)]
    if k == 5:
        return ["below", rng.randrange(2)]
    if k == 6:
        return ["join", rng.choice([" ", "", "--"])]
    if k == 7:
        return ["swap"]
    if k == 8:
        return ["cur", rng.randrange(-2, n + 3)]
    if k == 9:
        return ["trl"]
    if k == 10:
        a = rng.randrange(0, n + 1)
        return ["trr", a, a + 1 + rng.randrange(0, n + 2)]
    if k == 11:
        a = rng.randrange(-2, 4)
        return ["ind", a, a + rng.randrange(0, 4), rng.randrange(0, 3)]
    if k == 12:
        a = rng.randrange(-2, 4)
        return ["unind", a, a + rng.randrange(0, 4), rng.randrange(0, 3)]
    return ["text", "".join(rng.choice(RAND_ALPHA) for _ in range(rng.randrange(0, 6)))]


def cases(tier, rng):
    maxlen = 3 if tier == "quick" else 5
    for n in range(maxlen + 1):
        ops = single_ops(n)
        for tup in itertools.product(ALPHA, repeat=n):
            text = "".join(tup)
            for cur in range(n + 1):
                # one case per (text, cursor): every op applied from a fresh init
                yield {"text": text, "cur": cur, "fresh": True, "ops": ops}
    yield from e2e_cases(rng, 300 if tier == "quick" else 5000)
    # case-transform commands on words whose case mapping changes the length (sharp s)
    case_ops = [[w, a] for w in ("uw", "lw", "cw") for a in (1, 2, 3)]
    for n in range(1, (4 if tier == "quick" else 6) + 1):
        for tup in itertools.product(["\u00df", "a", " ", "\n"], repeat=n):
            text = "".join(tup)
            if "\u00df" not in text:
                continue
            for cur in range(n + 1):
                yield {"text": text, "cur": cur, "fresh": True, "ops": case_ops}
    nrand = 3000 if tier == "quick" else 60000
    for _ in range(nrand):
        n = rng.choice([0, 1, 2, 3, 5, 8, 13, 40])
        text = "".join(rng.choice(RAND_ALPHA) for _ in range(n))
        cur = rng.choice([0, len(text), rng.randrange(0, len(text) + 1)])
        ops = [rand_op(rng, len(text)) for _ in range(rng.randrange(1, 13))]
        yield {"text": text, "cur": cur, "fresh": False, "ops": ops}


E2E_KEY = {"bdc": "\x7f", "dc": "\x1b[3~", "uw": "\x1bu", "lw": "\x1bl", "cw": "\x1bc", "tc": "\x14"}


def e2e_keys(op):
    """the terminal bytes a user types for this command: Esc - / Esc <digit> ... then the key"""
    k = op[0]
    if k == "si":
        arg, key = op[2], op[1]
    elif k == "tc":
        arg, key = None, E2E_KEY[k]
    else:
        arg, key = op[1], E2E_KEY[k]
    pre = ""
    if arg is not None and arg != 1:
        if arg < 0:
            pre += "\x1b-"
            if arg != -1:
                pre += "".join("\x1b" + d for d in str(-arg))
        else:
            pre += "".join("\x1b" + d for d in str(arg))
    return pre + key


def e2e_cases(rng, n):
    for _ in range(n):
        ln = rng.choice([0, 1, 2, 3, 5, 8])
        text = "".join(rng.choice(RAND_ALPHA) for _ in range(ln))
        cur = rng.choice([0, len(text), rng.randrange(0, len(text) + 1)])
        k = rng.choice(["bdc", "bdc", "dc", "dc", "uw", "lw", "cw", "tc", "si"])
        a = rng.choice([-12, -2, -1, 1, 1, 2, 3, 10, len(text) + 2])
        if k == "si":
            op = ["si", "x", rng.choice([1, 2, 3, 12])]
        elif k == "tc":
            op = ["tc"]
        elif k in ("uw", "lw", "cw"):
            op = [k, rng.choice([1, 1, 2, 3])]
        else:
            op = [k, a]
        yield {"text": text, "cur": cur, "fresh": False, "e2e": True, "ops": [op]}


def op_line(op):
    k = op[0]
    if k == "ins":
        return f"ins {enc_str(op[1])} {op[2]} {op[3]}"
    if k in ("join", "text"):
        return f"{k} {enc_str(op[1])}"
    if k == "si":
        return f"si {enc_str(op[1])} {op[2]}"
    if k == "jsl":
        return f"jsl {op[1]} {enc_str(op[2])}"
    if k == "setdoc":
        return f"setdoc {enc_str(op[1])} {op[2]}"
    return " ".join(str(x) for x in op)


def model_lines(case):
    init = f"init {enc_str(case['text'])} {case['cur']}"
    out = []
    if case.get("fresh"):
        for op in case["ops"]:
            out += [init, op_line(op)]
    else:
        out.append(init)
        out += [op_line(op) for op in case["ops"]]
    return out


def apply_op(b: Buffer, op):
    """apply one op to the real Buffer; return the method's return value ('' for None)"""
    k = op[0]
    if k == "ins":
        b.insert_text(op[1], overwrite=bool(op[2]), move_cursor=bool(op[3]))
    elif k == "del":
        return b.delete(op[1])
    elif k == "delb":
        return b.delete_before_cursor(op[1])
    elif k == "nl":
        b.newline(copy_margin=bool(op[1]))
    elif k == "above":
        b.insert_line_above(copy_margin=bool(op[1]))
    elif k == "below":
        b.insert_line_below(copy_margin=bool(op[1]))
    elif k == "join":
        b.join_next_line(separator=op[1])
    elif k == "swap":
        b.swap_characters_before_cursor()
    elif k == "cur":
        b.cursor_position = op[1]
    elif k == "text":
        b.text = op[1]
    elif k == "trl":
        b.transform_current_line(swapcase_ascii)
    elif k == "trr":
        try:
            b.transform_region(op[1], op[2], swapcase_ascii)
        except AssertionError:
            pass
    elif k == "ind":
        indent(b, op[1], op[2], op[3])
    elif k == "unind":
        unindent(b, op[1], op[2], op[3])
    elif k == "jsl":
        from prompt_toolkit.selection import SelectionState
        b.selection_state = SelectionState(original_cursor_position=min(op[1], len(b.text)))
        try:
            b.join_selected_lines(separator=op[2])
        finally:
            b.selection_state = None
    elif k == "setdoc":
        try:
            b.document = Document(op[1], op[2])
        except AssertionError:
            pass
    elif k in NAMED:
        # the real readline command, called with a minimal event object
        ev = SimpleNamespace(current_buffer=b, arg=(op[2] if k == "si" else op[1] if len(op) > 1 else 1),
                             data=(op[1] if k == "si" else ""),
                             app=SimpleNamespace(output=SimpleNamespace(bell=lambda: None)))
        get_by_name(NAMED[k]).handler(ev)
    else:
        raise ValueError(op)
    return ""


def state_line(b: Buffer, ret="") -> str:
    return f"{enc_str(b.text)} {b.cursor_position} {enc_str(ret or '')}"


def e2e_run(case):
    """type the command into a real PromptSession (emacs mode, multi-line) key by key"""
    from editor import editor
    with editor(text=case["text"], cursor=case["cur"], multiline=True) as ed:
        first = state_line(ed.buffer)
        for op in case["ops"]:
            ed.feed(e2e_keys(op))
        return ed, first, state_line(ed.buffer)


def impl_lines(case):
    out = []
    if case.get("e2e"):
        _, first, last = e2e_run(case)
        return [first, last]
    if case.get("fresh"):
        for op in case["ops"]:
            b = Buffer(document=Document(case["text"], case["cur"]))
            out.append(state_line(b))
            ret = apply_op(b, op)
            out.append(state_line(b, ret))
    else:
        b = Buffer(document=Document(case["text"], case["cur"]))
        out.append(state_line(b))
        for op in case["ops"]:
            ret = apply_op(b, op)
            out.append(state_line(b, ret))
    return out


# ------------------------------------------------------------------ oracle
def check_op(text, cur, op, b: Buffer, ret):
    """The property C01 restated over the observed before/after state of the real Buffer."""
    v = []
    before, after = text[:cur], text[cur:]
    nt, nc = b.text, b.cursor_position
    k = op[0]

    def bad(site, cond, msg):
        v.append({"signature": f"{site} | {cond}", "msg": f"{msg}: text={text!r} cur={cur} op={op} -> text={nt!r} cur={nc} ret={ret!r}"})

    if not (0 <= nc <= len(nt)):
        bad("Buffer." + k, "cursor out of range", "cursor outside 0..len(text)")
    if not (b.document.text == nt and b._working_lines[b.working_index] == nt
            and b.document.cursor_position == nc):
        bad("Buffer." + k, "views disagree", "text/document/working_lines differ")
    if k == "ins":
        data, ov, mv = op[1], op[2], op[3]
        if not ov:
            if nt != before + data + after:
                bad("Buffer.insert_text", "insert", "text != before+data+after")
        else:
            ok = False
            for j in range(0, len(data) + 1):
                if j <= len(after) and "\n" not in after[:j] and nt == before + data + after[j:]:
                    ok = True
            if not ok:
                bad("Buffer.insert_text", "overwrite", "overwrite replaced more than len(data) chars or a newline")
        if nc != (cur + len(data) if mv else cur):
            bad("Buffer.insert_text", "cursor", "cursor after insert")
    elif k == "del":
        m = min(op[1], len(after))
        if ret != after[:m] or nt != before + after[m:] or nc != cur:
            bad("Buffer.delete", "count>available" if op[1] > len(after) else "count<=available", "delete(n)")
    elif k == "delb":
        m = min(op[1], len(before))
        exp_ret = before[len(before) - m:]
        if ret != exp_ret or nt != before[:len(before) - m] + after or nc != cur - m:
            bad("Buffer.delete_before_cursor", "0 < cursor < count" if op[1] > cur else "count<=cursor",
                "delete_before_cursor(n)")
    elif k == "nl":
        if not (nt.startswith(before + "\n") and nt.endswith(after) and len(nt) >= len(text) + 1
                and nt[len(before) + 1: len(nt) - len(after)].strip() == ""
                and nc == len(nt) - len(after)):
            bad("Buffer.newline", "frame", "newline changed other text")
    elif k in ("above", "below"):
        # exactly one newline (plus copied margin whitespace) inserted at a line boundary
        ins_len = len(nt) - len(text)
        found = False
        for p in range(len(text) + 1):
            seg = nt[p:p + ins_len]
            if nt == text[:p] + seg + text[p:] and seg.count("\n") == 1 and seg.replace("\n", "").strip() == "":
                found = True
        if not found:
            bad("Buffer.insert_line_" + k, "frame", "insert_line changed other text")
    elif k == "join":
        sep = op[1]
        if "\n" not in after:
            if nt != text or nc != cur:
                bad("Buffer.join_next_line", "last line", "join on last line must be a no-op")
        else:
            i = text.index("\n", cur)
            exp = text[:i] + sep + text[i + 1:].lstrip(" ")
            if nt != exp:
                bad("Buffer.join_next_line", "frame", "join_next_line")
    elif k == "swap":
        if cur >= 2:
            exp = text[:cur - 2] + text[cur - 1] + text[cur - 2] + text[cur:]
        else:
            exp = text
        if nt != exp or nc != cur:
            bad("Buffer.swap_characters_before_cursor", "frame", "swap")
    elif k == "trl":
        a = text.rfind("\n", 0, cur) + 1
        e = text.find("\n", cur)
        e = len(text) if e < 0 else e
        if nt != text[:a] + swapcase_ascii(text[a:e]) + text[e:]:
            bad("Buffer.transform_current_line", "frame", "transform_current_line")
    elif k == "trr":
        a, e = op[1], op[2]
        if nt != text[:a] + swapcase_ascii(text[a:e]) + text[e:]:
            bad("Buffer.transform_region", "frame", "transform_region")
    elif k in ("ind", "unind"):
        lines = text.split("\n")
        nlines = nt.split("\n")
        ic = "    " * op[3]
        rows = set()
        for r in range(op[1], op[2]):
            if -len(lines) <= r < len(lines):
                rows.add(r % len(lines))
        if len(lines) != len(nlines):
            bad("buffer." + k, "line count", "indent changed the number of lines")
        else:
            for r, (l0, l1) in enumerate(zip(lines, nlines)):
                if r not in rows:
                    if l0 != l1:
                        bad("buffer." + k, "frame", "line outside the range changed")
                elif k == "ind":
                    # applied once per occurrence of the row in the range
                    times = sum(1 for q in range(op[1], op[2]) if -len(lines) <= q < len(lines) and q % len(lines) == r)
                    if l1 != ic * times + l0:
                        bad("buffer.indent", "content", "indented line is not indent+line")
                else:
                    if not l0.endswith(l1) or l0[: len(l0) - len(l1)].strip() != "":
                        bad("buffer.unindent", "content", "unindent removed non-blank characters")
    elif k in ("bdc", "dc"):
        a = op[1]
        backward = (a >= 0) if k == "bdc" else (a < 0)
        m = abs(a)
        if backward:
            m = min(m, len(before))
            exp_t, exp_c = before[:len(before) - m] + after, cur - m
        else:
            m = min(m, len(after))
            exp_t, exp_c = before + after[m:], cur
        if nt != exp_t or nc != exp_c:
            bad("named_commands." + NAMED[k], "negative argument" if a < 0 else "argument>=0",
                "Esc <n> Backspace/Delete must remove exactly min(|n|, available) adjacent characters")
    elif k == "si":
        d = op[1] * max(0, op[2])
        if nt != before + d + after or nc != cur + len(d):
            bad("named_commands.self-insert", "insert", "self-insert")
    elif k == "tc":
        if sorted(nt) != sorted(text) or sum(1 for x, y in zip(nt, text) if x != y) > 2:
            bad("named_commands.transpose-chars", "frame", "transpose-chars changed more than two characters")
    elif k in CASEF:
        # only a stretch text[cur:cur+j] may change, and only by the case function, per iteration
        f = CASEF[k]
        ok = False
        if op[1] <= 0:
            ok = (nt == text and nc == cur)
        else:
            # the union of the touched stretches is text[cur:cur+j] for some j; everything else is intact
            for j in range(0, len(after) + 1):
                seg = after[:j]
                if nt.startswith(before) and nt.endswith(after[j:]) and len(nt) >= len(before) + len(after) - j:
                    mid = nt[len(before): len(nt) - (len(after) - j)]
                    if mid.casefold() == seg.casefold() or mid == f(seg):
                        ok = True
                        break
        if not ok:
            bad("named_commands." + NAMED[k], "frame", "case transform changed characters outside the words it addresses")
    elif k == "jsl":
        o = min(op[1], len(text))
        a, e = min(cur, o), max(cur, o)
        if not (nt.startswith(text[:a]) and nt.endswith(text[e:]) and len(nt) >= a + len(text) - e):
            bad("Buffer.join_selected_lines", "frame", "text outside the selection changed")
    elif k == "setdoc":
        if op[2] <= len(op[1]) and (nt != op[1] or nc != max(0, op[2])):
            bad("Buffer.document", "set", "document setter")
    elif k == "cur":
        if nt != text or nc != max(0, min(op[1], len(text))):
            bad("Buffer.cursor_position", "clamp", "cursor setter")
    elif k == "text":
        if nt != op[1]:
            bad("Buffer.text", "set", "text setter")
    return v


def oracle(case):
    v = []
    if case.get("e2e"):
        ed, _, _ = e2e_run(case)
        v = check_op(case["text"], case["cur"], case["ops"][0], ed.buffer, "")
        for x in v:
            x["signature"] = "end-to-end " + x["signature"]
        return v
    if case.get("fresh"):
        for op in case["ops"]:
            b = Buffer(document=Document(case["text"], case["cur"]))
            ret = apply_op(b, op)
            v += check_op(case["text"], case["cur"], op, b, ret)
    else:
        b = Buffer(document=Document(case["text"], case["cur"]))
        for op in case["ops"]:
            t, c = b.text, b.cursor_position
            ret = apply_op(b, op)
            v += check_op(t, c, op, b, ret)
    # dedupe by signature
    seen, out = set(), []
    for x in v:
        if x["signature"] not in seen:
            seen.add(x["signature"])
            out.append(x)
    return out


def sample_view(case):
    if case.get("fresh"):
        return dict(case, ops=case["ops"][:4] + [f"... {len(case['ops'])} single ops, each from a fresh init"])
    return case


def nontrivial(case):
    return len(case["text"]) > 0


def distribution(cases):
    d = {"text_len": {}, "ops": {}}
    for c in cases:
        n = len(c["text"])
        key = str(n) if n < 6 else "6+"
        d["text_len"][key] = d["text_len"].get(key, 0) + 1
        for op in c["ops"]:
            d["ops"][op[0]] = d["ops"].get(op[0], 0) + 1
    return d


if __name__ == "__main__":
    sys.exit(core.main(sys.modules[__name__]))
