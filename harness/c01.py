#!/venv/bin/python
"""C01 — basic buffer edits: correspondence with Ptk.Model.C01* + property oracle.

Case families (field "kind"):
  ops     a real Buffer, one op per protocol line (Buffer methods, buffer.py functions, readline
          named commands called through their registered handler with a stub event);
          "fresh": every op from a fresh init (exhaustive small scope), else one op sequence
  argv    `event.arg` as a probe handler sees it after typing an argument (every digit string of
          length <= 3, with and without '-') into the real editor, against argVal(argOfKeys ...)
  vi      Vi navigation-mode single-key editing commands (~ x X r J gJ >> <<) typed into a real
          vi-mode PromptSession, exhaustive small scope, oracle only
  raise   op sequences whose on_text_changed listener raises once: consistency afterwards, oracle only
  e2e     the same commands typed key by key into a real PromptSession (emacs mode, multi-line):
          Esc - / Esc <digits> argument prefix, then the key; the model resolves the key through the
          regenerated binding table and computes the argument from the typed keys
  hist    op sequences on a Buffer with several history working lines: edits interleaved with
          go_to_history / history_backward / history_forward / reset; all views compared after
          every op
  fc      the real FastDictCache(Document, size=n) against the modelled cache (hit/miss, eviction)
  tc      Documents of equal / different texts created, read (lines, line start indexes) and
          dropped: sharing of the `_cache` objects and the tables read through them
"""
from __future__ import annotations

import itertools
import os
import re
import sys

sys.path.insert(0, os.path.dirname(os.path.abspath(__file__)))
import core
from core import enc_str, enc_list

from types import SimpleNamespace

from prompt_toolkit.buffer import Buffer, indent, unindent, reshape_text
from prompt_toolkit.document import Document
from prompt_toolkit.key_binding.bindings.named_commands import get_by_name

import gen_c01

NAMED = {"bdc": "backward-delete-char", "dc": "delete-char", "si": "self-insert", "tc": "transpose-chars",
         "uw": "uppercase-word", "lw": "downcase-word", "cw": "capitalize-word",
         "kw": "kill-word", "rub": None, "kl": "kill-line", "uld": "unix-line-discard",
         "dhs": "delete-horizontal-space", "ic": "insert-comment"}
CASEF = {"uw": str.upper, "lw": str.lower, "cw": str.title}

ID = "C01"
DRIVER = "drv_c01"
PROPS = ["Ptk.Props.C01", "Ptk.Props.C01Cmd", "Ptk.Props.C01Kill", "Ptk.Props.C01Line", "Ptk.Props.C01Words",
         "Ptk.Props.C01Reshape", "Ptk.Props.C01ReshapeWords", "Ptk.Props.C01All", "Ptk.Props.C01Cache"]
ANCHORS = ["src/prompt_toolkit/buffer.py", "src/prompt_toolkit/document.py",
           "src/prompt_toolkit/key_binding/bindings/named_commands.py",
           "src/prompt_toolkit/key_binding/bindings/basic.py",
           "src/prompt_toolkit/key_binding/key_processor.py", "src/prompt_toolkit/cache.py"]

# functions of /repo whose bodies the Lean model follows line by line AND the correspondence exercises
MODELLED = {
    "src/prompt_toolkit/buffer.py": [
        "Buffer.reset", "Buffer._set_text", "Buffer._set_cursor_position", "Buffer.text", "Buffer.cursor_position",
        "Buffer.working_index", "Buffer.document", "Buffer.set_document", "Buffer.transform_lines",
        "Buffer.transform_current_line", "Buffer.transform_region", "Buffer.delete_before_cursor", "Buffer.delete",
        "Buffer.join_next_line", "Buffer.join_selected_lines", "Buffer.swap_characters_before_cursor",
        "Buffer.go_to_history", "Buffer.history_forward", "Buffer.history_backward", "Buffer.newline",
        "Buffer.insert_line_above", "Buffer.insert_line_below", "Buffer.insert_text",
        "indent", "unindent", "unindent.transform", "reshape_text"],
    "src/prompt_toolkit/document.py": [
        "Document.__init__", "Document.lines", "Document._line_start_indexes", "Document.text_before_cursor",
        "Document.text_after_cursor", "Document.current_line_before_cursor", "Document.current_line_after_cursor",
        "Document.current_line", "Document.leading_whitespace_in_current_line",
        "Document.find_start_of_previous_word", "Document.find_next_word_ending",
        "Document.find_previous_word_ending", "Document.get_start_of_line_position",
        "Document.get_end_of_line_position"],
    "src/prompt_toolkit/key_binding/bindings/named_commands.py": [
        "delete_char", "backward_delete_char", "self_insert", "transpose_chars", "_transform_following_words",
        "uppercase_word", "downcase_word", "capitalize_word", "quoted_insert", "kill_line", "kill_word",
        "unix_word_rubout", "backward_kill_word", "delete_horizontal_space", "unix_line_discard",
        "insert_comment", "insert_comment.change"],
    "src/prompt_toolkit/key_binding/bindings/basic.py": ["load_basic_bindings._insert_text"],
    "src/prompt_toolkit/key_binding/key_processor.py": ["KeyPressEvent.arg", "KeyPressEvent.append_to_arg_count"],
    "src/prompt_toolkit/cache.py": ["FastDictCache.__missing__"],
}

ALPHA = ["a", "B", " ", "\n", "\t"]
CMD_ALPHA = ["a", ".", " ", "\n", "#"]
RS_ALPHA = ["a", " ", "\n", "\r", "\t"]
RAND_ALPHA = ["a", "B", "c", " ", " ", "\n", "\n", "\t", "\u4e16", "e\u0301", "\u3000", "x", ".", "#", "-"]


# ------------------------------------------------------------------ API coverage pin
# public text/cursor mutators of buffer.py (found by the AST scan of gen_c01.api_scan on the tree
# under test)  ->  the protocol ops that model them
MODELLED_MUTATORS = {
    "Buffer.text=": ["text"], "Buffer.cursor_position=": ["cur"], "Buffer.document=": ["setdoc"],
    "Buffer.set_document": ["setdoc"], "Buffer.working_index=": ["goto", "hback", "hfwd"],
    "Buffer.insert_text": ["ins"], "Buffer.delete": ["del"], "Buffer.delete_before_cursor": ["delb"],
    "Buffer.newline": ["nl"], "Buffer.insert_line_above": ["above"], "Buffer.insert_line_below": ["below"],
    "Buffer.join_next_line": ["join"], "Buffer.join_selected_lines": ["jsl"],
    "Buffer.swap_characters_before_cursor": ["swap"], "Buffer.transform_current_line": ["trl"],
    "Buffer.transform_region": ["trr"], "Buffer.go_to_history": ["goto"],
    "Buffer.history_backward": ["hback"], "Buffer.history_forward": ["hfwd"], "Buffer.reset": ["hreset"],
    "indent": ["ind"], "unindent": ["unind"], "reshape_text": ["rs"],
}
UNMODELLED_MUTATORS = {
    "Buffer.apply_completion": "completion state (C15)", "Buffer.cancel_completion": "completion state (C15)",
    "Buffer.complete_next": "completion state (C15)", "Buffer.complete_previous": "completion state (C15)",
    "Buffer.go_to_completion": "completion state (C15)",
    "Buffer.start_history_lines_completion": "completion state (C15)",
    "Buffer.apply_search": "search (C16)",
    "Buffer.auto_down": "cursor motion / history browsing (C02, C14)",
    "Buffer.auto_up": "cursor motion / history browsing (C02, C14)",
    "Buffer.cursor_down": "cursor motion (C02)", "Buffer.cursor_up": "cursor motion (C02)",
    "Buffer.cursor_left": "cursor motion (C02)", "Buffer.cursor_right": "cursor motion (C02)",
    "Buffer.copy_selection": "selection / clipboard (C09)", "Buffer.cut_selection": "selection / clipboard (C09)",
    "Buffer.paste_clipboard_data": "clipboard (C09)",
    "Buffer.undo": "undo stack (C07)", "Buffer.redo": "undo stack (C07)",
    "Buffer.load_history_if_not_yet_loaded": "asynchronous history loading (C14)",
    "Buffer.open_in_editor": "external editor / temp file, not modelled",
    "Buffer.validate": "validator callback, not modelled",
    "Buffer.validate_and_handle": "accept path (C17); reached here only through insert-comment",
    "Buffer.yank_nth_arg": "history word splitting, not modelled",
    "Buffer.yank_last_arg": "history word splitting, not modelled",
}
try:
    API_SCAN = gen_c01.api_scan()
except Exception as _e:  # broken tree
    API_SCAN = []
API_NEW = sorted(n for n in API_SCAN if n not in MODELLED_MUTATORS and n not in UNMODELLED_MUTATORS)
API_GONE = sorted(n for n in list(MODELLED_MUTATORS) if n not in API_SCAN)
API_COVERAGE = {
    "scanned_public_mutators": len(API_SCAN),
    "modelled": sorted(n for n in API_SCAN if n in MODELLED_MUTATORS),
    "declared_unmodelled": {n: UNMODELLED_MUTATORS[n] for n in API_SCAN if n in UNMODELLED_MUTATORS},
    "new_unknown_mutators": API_NEW,
    "modelled_but_no_longer_found": API_GONE,
}

LEVEL_TEXT = (
    "Lean 4 theorems (177 audited) over an executable model of (a) the Buffer edit API: insert / overwrite / "
    "delete with ANY integer count / delete_before_cursor / newline / insert_line_above+below (text and cursor) / "
    "join_next_line(separator) / join_selected_lines / swap / transform_lines+current_line+region / indent / "
    "unindent / reshape_text / the text, cursor_position and document setters incl. read-only buffers and "
    "set_document(bypass_readonly); (b) the readline named commands that edit text -- backward-delete-char, "
    "delete-char, self-insert, transpose-chars, upcase/downcase/capitalize-word, kill-word, backward-kill-word, "
    "unix-word-rubout, kill-line, unix-line-discard, delete-horizontal-space, quoted-insert, insert-comment -- as "
    "functions of (text, cursor, integer argument), with the argument parser KeyPressEvent.arg / "
    "append_to_arg_count and a scanner for the two word regexes; (c) the buffer with history working lines "
    "(go_to_history, history_backward/forward, reset) and the two Document caches (FastDictCache keyed on "
    "(text, cursor); _text_to_document_cache line tables shared between Documents of equal text, with arbitrary "
    "loss of weak entries). Proved for ALL texts, cursors, integer arguments (negative and oversized) and finite "
    "op sequences: every command is a LOCAL EDIT (text = kept prefix of text-before + X + kept suffix of text-after, "
    "with the removed / inserted stretch and the returned text characterised exactly), reshape_text rewrites only "
    "the addressed lines and only their white space, 0 <= cursor <= len(text) after every sequence, Buffer.text = "
    "working line = Buffer.document.text after every interleaving of edits, working-line switches and cached "
    "document reads, untouched working lines stay untouched, and a cached Document / line table never describes "
    "another text. The model is tied to /repo on every run by regenerated constants and side conditions "
    "(gen_ok), pattern pins, the regenerated key-binding table, an API coverage pin (AST scan of every public "
    "mutator of buffer.py), a differential correspondence (3 exhaustive small scopes + random sequences; handler "
    "level and typed through the real key processor; real FastDictCache and real Document caches) and the "
    "property oracle")
LEVEL_NOTE = ("trusted: Lean kernel, axioms propext/Classical.choice/Quot.sound only; the hand-written model "
              "(validated by the correspondence, not proved equal to the Python); CPython str / list slice / "
              "dict / weakref semantics; `re` for the two word patterns (hand-written scanner + pattern pin); "
              "one known finding (kill-word with a negative argument, proposed fix attached) is carried by a "
              "regenerated behaviour flag so that the check is green before and after the fix")
RULE = ("exhaustive: every text over a 5-symbol alphabet up to the tier's length bound x every cursor x every "
        "single op (Buffer methods, setters incl. read-only, named commands) with counts / arguments "
        "-(len+2)..len+2; a second exhaustive family over {a . space \\n #} for the word / kill / comment "
        "commands and a third over {a space \\n \\r \\t} for reshape_text (all row pairs -1..3 x -2..3, widths "
        "0/1/3/5); then seeded random op sequences (1-12 ops) on texts up to 40 chars incl. wide/combining "
        "characters, EVERY numeric argument of up to 3 digits (leading zeros included, with and without '-', "
        "2222 strings) typed into a real PromptSession in front of backward-delete-char / delete-char / "
        "self-insert (and every argument of up to 2 digits in front of the word / line kill and case commands), "
        "each from a fresh (text, cursor), plus event.arg itself for each of them compared with argVal(argOfKeys); "
        "command sequences typed into a real PromptSession (Esc-prefixed numeric arguments incl. "
        "'-', multi-digit and >= 1000000), history sequences (edits interleaved with working-line switches; "
        "3 working lines x every index x every switch exhaustively), FastDictCache key sequences (exhaustive "
        "for 3 keys, length <= 4, sizes 1-2) and Document create/read/drop sequences (exhaustive length <= 3); a "
        "case is non-trivial when its text is non-empty or it has more than one working line / key")
EXHAUSTIVE = True
EXHAUSTIVE_SCOPE = {
    "quick": "alphabet {a,B,space,\\n,\\t} len<=3 all cursors all single ops; {a,.,space,\\n,#} len<=3 all cursors "
             "command ops; {a,space,\\n,\\r,\\t} len<=4 reshape_text rows -1..3 x -2..3 x widths {0,1,3,5}; history: "
             "3 working lines over {'', a, a\\nb} x index x 11 switches; FastDictCache 3 keys len<=4 sizes 1,2; "
             "Document cache op sequences len<=3",
    "thorough": "alphabet {a,B,space,\\n,\\t} len<=4 all cursors all single ops, len 5 at cursors 0/2/5 with the "
                "Buffer-method ops (the command ops at len 5 come from the second family); {a,.,space,\\n,#} len<=5 all cursors command ops; {a,space,\\n,\\r,\\t} len<=5 reshape_text rows -1..3 x -2..3 x widths "
                "{0,1,3,5}; history: 3 working lines over {'', a, a\\nb, b c} x index x 11 switches x 6 edits; "
                "FastDictCache 3 keys len<=4 sizes 1,2; Document cache op sequences len<=3"}
TRUSTED = ["harness/c01.py compares (text, cursor, concatenated return values of Buffer.delete / "
           "delete_before_cursor, EditReadOnlyBuffer raised or not) after every op, plus working index / all "
           "working lines / document view in the history families, hit/miss + key order for FastDictCache, sharing "
           "of _cache objects + tables read for the Document cache",
           "Ptk/Model/C01*.lean are a hand translation of buffer.py, named_commands.py, KeyPressEvent.arg and "
           "cache.FastDictCache (correspondence-checked)",
           "harness/gen_c01.py prints the constants, binding table, behaviour probe and API scan it reads from the "
           "tree under test",
           "history families set Buffer._working_lines / working index / cursor directly to build a buffer with "
           "several working lines (no event loop needed)"]
ASSUMPTIONS = ["CPython str slicing/concatenation semantics, list slicing with negative bounds",
               "str.isspace / regex \\s / str.splitlines tables regenerated from the running interpreter",
               "transform callback = ASCII swapcase, case functions = str.upper/lower/title on ASCII + sharp s in the "
               "correspondence; theorems hold for every callback",
               "weak dictionary: an entry disappears exactly when no live Document holds its value (CPython "
               "reference counting); the theorems additionally allow arbitrary loss of entries",
               "history search off (enable_history_search = False, the default): every working line matches"]
PARTIAL_SCOPE = [
    "open_in_editor, yank_nth_arg / yank_last_arg, undo/redo, completion, search, selection/paste mutators are not "
    "modelled (listed with reasons in the API coverage pin; C07/C09/C14/C15/C16 own them)",
    "kill-word with a NEGATIVE argument: the current code passes the negative relative position to "
    "Buffer.delete (known finding, proposed_fixes/C01-kill-word-negative-arg.diff); killWord_spec covers all "
    "arguments of the fixed code and the arguments >= 0 of the current code, killWord_defect proves the witness",
    "Buffer.delete(count < 0) itself: modelled and proved as the code has it (removes text_after_cursor[:count], "
    "still a local edit that returns what it removed); the property statement does not define a negative count",
    "unix-word-rubout / backward-kill-word with an argument <= 0 or larger than the number of words delete back "
    "to the start of the document (as the code documents); proved as a local edit, not judged",
    "insert-comment: modelled and proved as the code has it (str.splitlines: \\r, \\x0b, \\x0c ... become \\n and a "
    "trailing line ending is dropped); the accept that follows is outside C01",
    "case-transform commands: the stretch up to Document.find_next_word_ending (which skips the character under "
    "the cursor) is what they address; proved as a local edit of one stretch after the cursor",
    "clipboard side of the kill commands (C09), is_repeat concatenation, bell: not modelled",
    "Vi navigation-mode single-key commands (~, x, X, r<c>, J, gJ, >>, <<; counts; every cursor navigation mode "
    "allows, empty lines included) are typed into a real vi-mode PromptSession and judged by the property oracle "
    "only: no Lean model of the vi handlers (x / X / J / >> / << call Buffer methods that ARE modelled); known "
    "finding: ~ on a character whose swapcase is longer ('\u00df' -> 'SS') overwrites the following character too "
    "(proposed_fixes/C01-vi-tilde-length.diff)",
    "change notifications: on_text_changed / on_cursor_position_changed listeners on every real buffer of the "
    "op / history / end-to-end families require cursor in range + equal views AT NOTIFICATION TIME, and the "
    "'raise' family lets the listener raise once and requires a consistent buffer afterwards (oracle only; the "
    "model has no event layer, so 'text and cursor stored, then notifications' is not a theorem)",
    "history search filter (enable_history_search) and asynchronous history loading are outside the model",
    "the Document cache model has selection_state = None throughout; join_selected_lines, indent/unindent: frame "
    "and invariant proved, exact line content correspondence-checked only",
    "API coverage pin: %d public mutators of buffer.py found; %d modelled, %d declared unmodelled, new/unknown: %s"
    % (len(API_SCAN), len(API_COVERAGE["modelled"]), len(API_COVERAGE["declared_unmodelled"]), API_NEW or "none"),
]


def swapcase_ascii(s: str) -> str:
    return "".join(c.upper() if "a" <= c <= "z" else c.lower() if "A" <= c <= "Z" else c for c in s)


# ------------------------------------------------------------------ generators
def cmd_ops(n: int):
    """the command-level ops with every small argument"""
    ops = []
    for a in range(-(n + 1), n + 3):
        ops.append(["kw", a])
    for a in range(-1, n + 2):
        ops += [["rub", a, 0], ["rub", a, 1]]
    ops += [["kl", -1], ["kl", 0], ["kl", 1], ["kl", 2], ["uld"], ["dhs"], ["qi", "x"], ["qi", "\n"], ["qi", ""],
            ["ic", 1], ["ic", 2], ["ic", -1], ["tc"]]
    for w in ("uw", "lw", "cw"):
        for a in (-1, 0, 1, 2, 3):
            ops.append([w, a])
    return ops


def rs_ops():
    ops = []
    for a in range(-1, 4):
        for b in range(-2, 4):
            for w in (0, 1, 3, 5):
                ops.append(["rs", a, b, w])
    return ops


def single_ops(n: int, base_only: bool = False):
    """every op with every small argument, for a text of length n
    (base_only: the Buffer-method ops only; the command ops are then covered by the second family)"""
    ops = []
    for data in ["", "x", "\n", "xy", "x\ny"]:
        for ov in (0, 1):
            for mv in (0, 1):
                ops.append(["ins", data, ov, mv])
    for k in range(-(n + 2), n + 3):
        ops.append(["del", k])
    for k in range(n + 3):
        ops.append(["delb", k])
    for c in (0, 1):
        ops += [["nl", c], ["above", c], ["below", c]]
    ops += [["join", " "], ["join", ""], ["join", "xy"], ["swap"], ["trl"]]
    for v in range(-1, n + 2):
        ops.append(["cur", v])
    ops += [["text", ""], ["text", "ab"]]
    for a in range(n + 1):
        for b in range(a + 1, n + 2):
            ops.append(["trr", a, b])
    for a in range(-1, 3):
        for b in range(a, 4):
            ops.append(["ind", a, b, 1])
            ops.append(["unind", a, b, 1])
    ops += [["ind", 0, 2, 2], ["unind", 0, 2, 2], ["ind", 0, 1, 0]]
    for a in range(-(n + 2), n + 3):
        ops.append(["bdc", a])
        ops.append(["dc", a])
    for o in range(n + 1):
        ops.append(["jsl", o, " "])
    ops.append(["jsl", 0, ""])
    for c in range(-2, n + 2):
        ops.append(["setdoc", "ab", c])
    ops += [["si", "x", -1], ["si", "x", 0], ["si", "x", 1], ["si", "xy", 3]]
    if base_only:
        return ops + [["tc"]] + [[w, a] for w in ("uw", "lw", "cw") for a in (-1, 0, 1, 2, 3)]
    ops += [["rs", 0, 0, 3], ["rs", 0, 1, 0], ["rs", 1, 2, 1], ["rs", -1, 1, 5]]
    ops += [["rotext", ""], ["rotext", "ab"], ["rotext", "abcdef"]]
    for bp in (0, 1):
        for c in range(-1, 4):
            ops.append(["rosetdoc", bp, "ab", c])
    return ops + cmd_ops(n)


def rand_text(rng, n):
    return "".join(rng.choice(RAND_ALPHA) for _ in range(n))


def rand_op(rng, n):
    k = rng.randrange(30)
    if k == 19:
        return ["jsl", rng.randrange(0, n + 1), rng.choice([" ", "", "-"])]
    if k == 20:
        t = rand_text(rng, rng.randrange(0, 5))
        return ["setdoc", t, rng.randrange(-3, len(t) + 2)]
    if k == 21:
        return ["kw", rng.choice([-3, -2, -1, -1, 0, 1, 1, 2, 3, n + 1])]
    if k == 22:
        return ["rub", rng.choice([-1, 0, 1, 1, 2, 3, n + 1]), rng.randrange(2)]
    if k == 23:
        return ["kl", rng.choice([-2, -1, 0, 1, 1, 3])]
    if k == 24:
        return [rng.choice(["uld", "dhs"])]
    if k == 25:
        return ["qi", rng.choice(["x", "\x01", "\x1b[A", "\n", "\u4e16"])]
    if k == 26:
        return ["ic", rng.choice([1, 1, 2, 0, -1])]
    if k in (27, 28):
        a = rng.randrange(-2, 5)
        return ["rs", a, a + rng.randrange(-1, 4), rng.choice([0, 1, 2, 4, 7, 12, 30])]
    if k == 29:
        if rng.random() < 0.5:
            t = rand_text(rng, rng.randrange(0, 5))
            return rng.choice([["rotext", t], ["rosetdoc", rng.randrange(2), t, rng.randrange(-2, len(t) + 2)]])
        return ["del", -rng.choice([1, 1, 2, 3, n, n + 1])]
    if k >= 14:
        a = rng.choice([-n - 1, -2, -1, 0, 1, 1, 2, 3, n, n + 4])
        if k == 14:
            return ["bdc", a]
        if k == 15:
            return ["dc", a]
        if k == 16:
            return ["si", rng.choice(["x", "ab", " "]), rng.choice([-1, 0, 1, 2, 5])]
        if k == 17:
            return ["tc"]
        return [rng.choice(["uw", "lw", "cw"]), rng.choice([-1, 0, 1, 1, 2, 4])]
    cnt = rng.choice([0, 1, 1, 2, 3, n, n + 1, n + 5, rng.randrange(0, n + 2)])
    if k == 0:
        return ["ins", rand_text(rng, rng.randrange(0, 4)), rng.randrange(2), rng.randrange(2)]
    if k == 1:
        return ["del", cnt]
    if k == 2:
        return ["delb", cnt]
    if k == 3:
        return ["nl", rng.randrange(2)]
    if k == 4:
        return ["above", rng.randrange(2)]
    if k == 5:
        return ["below", rng.randrange(2)]
    if k == 6:
        return ["join", rng.choice([" ", "", "--"])]
    if k == 7:
        return ["swap"]
    if k == 8:
        return ["cur", rng.randrange(-2, n + 3)]
    if k == 9:
        return ["trl"]
    if k == 10:
        a = rng.randrange(0, n + 1)
        return ["trr", a, a + 1 + rng.randrange(0, n + 2)]
    if k == 11:
        a = rng.randrange(-2, 4)
        return ["ind", a, a + rng.randrange(0, 4), rng.randrange(0, 3)]
    if k == 12:
        a = rng.randrange(-2, 4)
        return ["unind", a, a + rng.randrange(0, 4), rng.randrange(0, 3)]
    return ["text", rand_text(rng, rng.randrange(0, 6))]


# -- end to end: keys typed into a real PromptSession
E2E_KEYS = {
    # logical op kind -> (key sequence name in the binding table, terminal bytes)
    "bdc": ("c-h", "\x7f"), "dc": ("delete", "\x1b[3~"), "uw": ("escape,u", "\x1bu"), "lw": ("escape,l", "\x1bl"),
    "cw": ("escape,c", "\x1bc"), "tc": ("c-t", "\x14"), "kw": ("escape,d", "\x1bd"), "kw2": ("c-delete", "\x1b[3;5~"),
    "rub1": ("c-w", "\x17"), "rub0": ("escape,c-h", "\x1b\x7f"), "kl": ("c-k", "\x0b"), "uld": ("c-u", "\x15"),
    "dhs": ("escape,\\", "\x1b\\"), "ic": ("escape,#", "\x1b#"), "si": ("<any>", None),
}


def arg_keys_for(a, rng=None):
    """the characters typed (each after Esc) to give the numeric argument a; '' = no argument"""
    if a is None:
        return ""
    if a == -1 and (rng is None or rng.random() < 0.5):
        return "-"
    return str(a)


def e2e_op(rng, n):
    k = rng.choice(["bdc", "bdc", "dc", "dc", "uw", "lw", "cw", "tc", "si", "kw", "kw", "kw2", "rub1", "rub0",
                    "kl", "uld", "dhs", "qi"])
    a = rng.choice([None, None, -12, -2, -1, -1, 0, 1, 2, 3, 10, n + 2, 1000000, 999999 if k == "bdc" else 7])
    if k == "qi":
        return {"k": "qi", "op": ["qi", rng.choice(["\x01", "x", "\x17", "\x0b"])], "arg": ""}
    if k == "si":
        a = rng.choice([None, 1, 2, 3, 12, 0, -1])
        data = rng.choice(["x", "y", "\u4e16", " "])
        return {"k": k, "op": ["si", data, 1 if a is None else a], "arg": arg_keys_for(a, rng)}
    if k in ("uw", "lw", "cw"):
        a = rng.choice([None, 1, 2, 3, -1, 0])
    if k in ("tc", "uld", "dhs"):
        a = rng.choice([None, None, 2, -1])
    av = 1 if a is None else (1 if a >= 1000000 else a)
    if k in ("kw", "kw2"):
        op = ["kw", av]
    elif k == "rub1":
        op = ["rub", av, 1]
    elif k == "rub0":
        op = ["rub", av, 0]
    elif k in ("tc", "uld", "dhs"):
        op = [k]
    else:
        op = [k, av]
    return {"k": k, "op": op, "arg": arg_keys_for(a, rng)}


def e2e_cases(rng, n):
    for _ in range(n):
        ln = rng.choice([0, 1, 2, 3, 5, 8, 13])
        text = rand_text(rng, ln)
        cur = rng.choice([0, len(text), rng.randrange(0, len(text) + 1)])
        ops = [e2e_op(rng, len(text)) for _ in range(rng.choice([1, 1, 2, 3, 4]))]
        if rng.random() < 0.15:
            a = rng.choice([None, None, 2, 0])
            ops.append({"k": "ic", "op": ["ic", 1 if a is None else a], "arg": arg_keys_for(a)})
        yield {"kind": "e2e", "text": text, "cur": cur, "ops": ops}


def typed_arg_value(s):
    """the numeric argument a user means by typing the characters s (each after Esc): nothing = 1,
    '-' = -1, otherwise the decimal number; the editor replaces values >= 1000000 by 1"""
    if s == "":
        return 1
    if s == "-":
        return -1
    n = int(s)
    return 1 if n >= 1000000 else n


def digit_strings(maxlen=3):
    """every digit string of length 1..maxlen, and '-' + each, and '-' alone and nothing"""
    out = ["", "-"]
    for ln in range(1, maxlen + 1):
        for tup in itertools.product("0123456789", repeat=ln):
            out.append("".join(tup))
            out.append("-" + "".join(tup))
    return out


ARGX_TEXT, ARGX_CUR = "ab cd. ef\ngh ij kl", 9


def argx_cases():
    """EVERY numeric argument of up to 3 digits (with and without '-', leading zeros included)
    typed in front of each argument-taking command, each from a fresh (text, cursor), in the real
    editor; plus the value of `event.arg` itself for each of them (kind "argv")"""
    strs = digit_strings(3)
    short = [x for x in strs if len(x.lstrip("-")) <= 2]
    yield {"kind": "argv", "ops": [[x, 0] for x in strs] + [[x, 1] for x in strs if len(x.lstrip("-")) >= 2]}
    ops = []
    for i, x in enumerate(strs):
        a = typed_arg_value(x)
        plain = i % 2          # second and later digits typed without Esc (bindings `<digit>` with has_arg)
        ops.append({"k": "bdc", "op": ["bdc", a], "arg": x, "plain": plain})
        ops.append({"k": "dc", "op": ["dc", a], "arg": x, "plain": 1 - plain})
        ops.append({"k": "si", "op": ["si", "x", a], "arg": x, "plain": plain})
    for x in short:
        a = typed_arg_value(x)
        ops.append({"k": "kw", "op": ["kw", a], "arg": x})
        ops.append({"k": "rub1", "op": ["rub", a, 1], "arg": x})
        ops.append({"k": "rub0", "op": ["rub", a, 0], "arg": x})
        ops.append({"k": "kl", "op": ["kl", a], "arg": x})
        ops.append({"k": "uw", "op": ["uw", a], "arg": x})
        ops.append({"k": "cw", "op": ["cw", a], "arg": x})
    for i in range(0, len(ops), 64):
        yield {"kind": "e2e", "fresh": True, "text": ARGX_TEXT, "cur": ARGX_CUR, "ops": ops[i:i + 64]}


def raise_cases(rng, count):
    """op sequences in which the `on_text_changed` listener raises once (at op number `boom`): the
    buffer must be consistent right after the failed op and after every later op (oracle only)"""
    for text, cur, op in [("hello world", 11, ["delb", 5]), ("hello", 2, ["ins", "xy", 0, 1]), ("ab\ncd", 1, ["join", " "]),
                          ("abc", 3, ["text", "a"]), ("abc", 3, ["setdoc", "z", 1]), ("a b c", 5, ["rub", 1, 1]),
                          ("ab", 2, ["kl", -1]), ("a\nb", 0, ["ind", 0, 2, 1]), ("ab cd", 5, ["dhs"])]:
        yield {"kind": "raise", "text": text, "cur": cur, "boom": 0, "ops": [op, ["ins", "q", 0, 1], ["delb", 1]]}
    for _ in range(count):
        n = rng.choice([1, 2, 3, 5, 8, 13])
        text = rand_text(rng, n)
        cur = rng.choice([0, len(text), rng.randrange(0, len(text) + 1)])
        ops = [rand_op(rng, len(text)) for _ in range(rng.randrange(1, 8))]
        yield {"kind": "raise", "text": text, "cur": cur, "boom": rng.randrange(len(ops)), "ops": ops}


VI_ALPHA = ["a", "B", " ", "\n"]
VI_OPS = [["~"], ["x", 1], ["x", 2], ["x", 5], ["X", 1], ["X", 2], ["X", 5], ["r", "z", 1], ["r", "z", 2], ["r", "\u00df", 1],
          ["J", 1], ["J", 2], ["gJ", 1], ["gJ", 3], [">>", 1], [">>", 2], ["<<", 1], ["<<", 2]]


def vi_valid_cursors(text):
    """cursor positions of Vi navigation mode: on a character, or on an empty line"""
    out = []
    for c in range(len(text) + 1):
        at_eol = c == len(text) or text[c] == "\n"
        line_empty = at_eol and (c == 0 or text[c - 1] == "\n")
        if not at_eol or line_empty:
            out.append(c)
    return out


def vi_cases(tier):
    """the Vi navigation-mode single-key editing commands that are C01's subject, typed into a real
    PromptSession (vi mode, multi-line): every text over {a,B,space,\\n} up to the bound (+ fixed
    longer ones), cursor on every position navigation mode allows, each op from a fresh state"""
    maxlen = 3 if tier == "quick" else 5
    texts = ["".join(t) for n in range(maxlen + 1) for t in itertools.product(VI_ALPHA, repeat=n)]
    texts += ["ab\n\ncd", "  ab\n\tcd\n\nef", "a\u00df\nb", "\u00dfab", "    x\n  y\n\n    z", "a  \n   b\n\n\n c"]
    ops = []
    for t in texts:
        for c in vi_valid_cursors(t):
            for op in VI_OPS:
                ops.append([t, c, op])
    for i in range(0, len(ops), 256):
        yield {"kind": "vi", "ops": ops[i:i + 256]}


def arg_bytes(o):
    a = o["arg"]
    if o.get("plain") and len(a) > 1:
        return "\x1b" + a[0] + a[1:]
    return "".join("\x1b" + ch for ch in a)


def e2e_bytes(o):
    pre = arg_bytes(o)
    if o["k"] == "qi":
        return "\x11" + o["op"][1]
    if o["k"] == "si":
        return pre + o["op"][1]
    return pre + E2E_KEYS[o["k"]][1]


# -- history sequences
def hist_op(rng, nlines, n):
    k = rng.randrange(10)
    if k == 0:
        return ["goto", rng.randrange(0, nlines + 2)]
    if k == 1:
        return ["hback", rng.choice([1, 1, 1, 2, 3, 0, -1, nlines + 1])]
    if k == 2:
        return ["hfwd", rng.choice([1, 1, 1, 2, 3, 0, -1, nlines + 1])]
    if k == 3 and rng.random() < 0.3:
        t = rand_text(rng, rng.randrange(0, 5))
        return ["hreset", t, rng.randrange(0, len(t) + 1)]
    return rand_op(rng, n)


def hist_cases(rng, count, exhaustive_len):
    # small scope: every (working lines of 3 short texts) x index x one switch x one edit x one switch
    switches = [["goto", 0], ["goto", 2], ["goto", 3], ["hback", 1], ["hback", 2], ["hback", 0], ["hback", -1],
                ["hfwd", 1], ["hfwd", 2], ["hfwd", 0], ["hfwd", -1]]
    edits = [["ins", "x", 0, 1], ["delb", 1], ["text", "q"], ["kw", 1], ["nl", 0], ["setdoc", "zz", 1]]
    texts = ["", "a", "a\nb", "b c"][:exhaustive_len]
    for lines in itertools.product(texts, repeat=3):
        for idx in range(3):
            for s1 in switches:
                ops = [s1]
                for e in edits[: (2 if exhaustive_len < 4 else 6)]:
                    for s2 in switches[:4]:
                        ops2 = ops + [e, s2, ["hback", 1], ["hfwd", 1]]
                        yield {"kind": "hist", "lines": list(lines), "idx": idx, "cur": len(lines[idx]), "ops": ops2}
                    break
    for _ in range(count):
        nl = rng.choice([1, 2, 3, 5])
        lines = [rand_text(rng, rng.choice([0, 1, 2, 4, 9])) for _ in range(nl)]
        idx = rng.randrange(nl)
        cur = rng.choice([0, len(lines[idx]), rng.randrange(0, len(lines[idx]) + 1)])
        ops = [hist_op(rng, nl, 6) for _ in range(rng.randrange(1, 11))]
        yield {"kind": "hist", "lines": lines, "idx": idx, "cur": cur, "ops": ops}


# -- caches
def fc_cases(rng, count):
    keys = [("", 0), ("a", 0), ("a", 1), ("ab", 1), ("b", 0), ("b", 1), ("a\nb", 2), ("ab", 0), ("c", 1), ("cc", 2),
            ("d", 0), ("dd", 1), ("e", 0), ("ee", 2)]
    # exhaustive: every key sequence of length <= 4 over 3 keys, sizes 1 and 2
    for size in (1, 2):
        for ln in range(1, 5):
            for seq in itertools.product(keys[:3], repeat=ln):
                yield {"kind": "fc", "size": size, "ops": [list(k) for k in seq]}
    for _ in range(count):
        size = rng.choice([1, 2, 3, 10, 10])
        pool = keys[: rng.choice([3, 5, size + 2, size + 4, len(keys)])] or keys
        yield {"kind": "fc", "size": size, "ops": [list(rng.choice(pool)) for _ in range(rng.randrange(1, 40))]}


TC_MARK = "\ue000"      # texts of the tc family start with a private-use character no other family uses


def tc_cases(rng, count):
    texts = ["", "a", "a\nb", "\n", "ab\n\nc"]
    base = [["cnew", t] for t in texts[:3]] + [["clines", 0], ["cidx", 0], ["clines", 1], ["cidx", 1], ["cdrop", 0],
                                                ["cdrop", 1]]
    for ln in range(1, 4):
        for seq in itertools.product(base, repeat=ln):
            yield {"kind": "tc", "ops": [list(o) for o in seq]}
    for _ in range(count):
        ops = []
        for _ in range(rng.randrange(1, 14)):
            k = rng.randrange(6)
            if k <= 1:
                ops.append(["cnew", rng.choice(texts + [rand_text(rng, 5)])])
            elif k == 2:
                ops.append(["clines", rng.randrange(0, 5)])
            elif k == 3:
                ops.append(["cidx", rng.randrange(0, 5)])
            else:
                ops.append(["cdrop", rng.randrange(0, 4)])
        yield {"kind": "tc", "ops": ops}


def cases(tier, rng):
    quick = tier == "quick"
    maxlen = 3 if quick else 5
    for n in range(maxlen + 1):
        ops = single_ops(n, base_only=(n >= 5))
        for tup in itertools.product(ALPHA, repeat=n):
            text = "".join(tup)
            for cur in (range(n + 1) if n < 5 else (0, 2, 5)):
                # one case per (text, cursor): every op applied from a fresh init
                yield {"kind": "ops", "text": text, "cur": cur, "fresh": True, "ops": ops}
    for n in range(maxlen + 1):
        ops = cmd_ops(n)
        for tup in itertools.product(CMD_ALPHA, repeat=n):
            text = "".join(tup)
            if n < 5 and not set(text) - set(ALPHA):
                continue        # already covered by the first family
            for cur in range(n + 1):
                yield {"kind": "ops", "text": text, "cur": cur, "fresh": True, "ops": ops}
    rops = rs_ops()
    for n in range((4 if quick else 5) + 1):
        for tup in itertools.product(RS_ALPHA, repeat=n):
            text = "".join(tup)
            yield {"kind": "ops", "text": text, "cur": 0, "fresh": True, "ops": rops}
    yield from argx_cases()
    yield from vi_cases(tier)
    yield from raise_cases(rng, 300 if quick else 5000)
    yield from e2e_cases(rng, 400 if quick else 3500)
    # case-transform commands on words whose case mapping changes the length (sharp s)
    case_ops = [[w, a] for w in ("uw", "lw", "cw") for a in (1, 2, 3)]
    for n in range(1, (4 if quick else 6) + 1):
        for tup in itertools.product(["\u00df", "a", " ", "\n"], repeat=n):
            text = "".join(tup)
            if "\u00df" not in text:
                continue
            for cur in range(n + 1):
                yield {"kind": "ops", "text": text, "cur": cur, "fresh": True, "ops": case_ops}
    yield from hist_cases(rng, 1500 if quick else 20000, 3 if quick else 4)
    yield from fc_cases(rng, 300 if quick else 3000)
    yield from tc_cases(rng, 300 if quick else 3000)
    nrand = 3000 if quick else 40000
    if API_NEW:
        nrand *= 4      # API coverage pin: a new, unmodelled mutator appeared -> explore more
    for _ in range(nrand):
        n = rng.choice([0, 1, 2, 3, 5, 8, 13, 40])
        text = rand_text(rng, n)
        cur = rng.choice([0, len(text), rng.randrange(0, len(text) + 1)])
        ops = [rand_op(rng, len(text)) for _ in range(rng.randrange(1, 13))]
        yield {"kind": "ops", "text": text, "cur": cur, "fresh": False, "ops": ops}
    if API_NEW:
        for name in API_NEW:
            for text in ["", "a", "ab\ncd", "a b  c"]:
                for cur in sorted({0, len(text) // 2, len(text)}):
                    yield {"kind": "api", "name": name, "text": text, "cur": cur, "ops": []}


# ------------------------------------------------------------------ protocol lines
def op_line(op):
    k = op[0]
    if k == "ins":
        return f"ins {enc_str(op[1])} {op[2]} {op[3]}"
    if k == "rosetdoc":
        return f"rosetdoc {op[1]} {enc_str(op[2])} {op[3]}"
    if k in ("join", "text", "qi", "rotext"):
        return f"{k} {enc_str(op[1])}"
    if k == "si":
        return f"si {enc_str(op[1])} {op[2]}"
    if k == "jsl":
        return f"jsl {op[1]} {enc_str(op[2])}"
    if k in ("setdoc", "hreset"):
        return f"{k} {enc_str(op[1])} {op[2]}"
    return " ".join(str(x) for x in op)


HIST_ONLY = ("goto", "hback", "hfwd", "hreset")


def model_lines(case):
    kind = case.get("kind", "ops")
    out = []
    if kind == "ops":
        init = f"init {enc_str(case['text'])} {case['cur']}"
        if case.get("fresh"):
            for op in case["ops"]:
                out += [init, op_line(op)]
        else:
            out.append(init)
            out += [op_line(op) for op in case["ops"]]
    elif kind in ("vi", "raise"):
        out = []        # oracle only (PARTIAL_SCOPE)
    elif kind == "argv":
        out = [f"argv {enc_str(x)}" for x, _ in case["ops"]]
    elif kind == "e2e":
        init = f"init {enc_str(case['text'])} {case['cur']}"
        out.append(init)
        for o in case["ops"]:
            if case.get("fresh"):
                out.append(init)
            if o["k"] == "qi":
                out.append(f"e2eqi {enc_str(o['op'][1])}")
            else:
                data = o["op"][1] if o["k"] == "si" else ""
                out.append(f"e2e {E2E_KEYS[o['k']][0]} {enc_str(o['arg'])} {enc_str(data)}")
    elif kind == "hist":
        out.append("hinit %d %d %s" % (case["idx"], case["cur"], " ".join(enc_str(l) for l in case["lines"])))
        for op in case["ops"]:
            out += [op_line(op), "hq", "doc"]
    elif kind == "fc":
        out.append(f"fcinit {case['size']}")
        for t, c in case["ops"]:
            out.append(f"fcget {enc_str(t)} {c}")
    elif kind == "tc":
        out.append("cinit")
        for op in case["ops"]:
            if op[0] == "cnew":
                out.append(f"cnew {enc_str(TC_MARK + op[1])} 0")
            else:
                out.append(f"{op[0]} {op[1]}")
    elif kind == "api":
        out = []
    return out


# ------------------------------------------------------------------ the real code
class Recorder:
    """records what Buffer.delete / delete_before_cursor return while a named command runs"""

    def __init__(self, b):
        self.b = b
        self.ret = []

    def __enter__(self):
        b = self.b
        od, odb = b.delete, b.delete_before_cursor

        def d(count=1):
            r = od(count=count)
            self.ret.append(r)
            return r

        def db(count=1):
            r = odb(count=count)
            self.ret.append(r)
            return r

        b.delete, b.delete_before_cursor = d, db
        return self

    def __exit__(self, *a):
        del self.b.delete
        del self.b.delete_before_cursor


def stub_event(b, arg, data=""):
    from prompt_toolkit.clipboard import InMemoryClipboard

    app = SimpleNamespace(output=SimpleNamespace(bell=lambda: None), clipboard=InMemoryClipboard(),
                          emacs_state=SimpleNamespace(last_kill_word_killed=False), quoted_insert=False)
    return SimpleNamespace(current_buffer=b, arg=arg, data=data, is_repeat=False, arg_present=True, app=app)


class ListenerBoom(Exception):
    """raised once by the `on_text_changed` listener of the "raise" family"""


def attach_listeners(b: Buffer):
    """`on_text_changed` / `on_cursor_position_changed` listeners that look at the buffer AT
    NOTIFICATION TIME: the cursor must be inside the text and every view must show the same text
    there too (C01: "after every edit ...", and a listener runs after the edit was stored).
    `b._verif_boom[0] = True` makes the text listener raise once (after looking)."""
    b._verif_notif = []
    b._verif_boom = [False]

    def look(which):
        def handler(buf):
            t = buf._working_lines[buf.working_index] if 0 <= buf.working_index < len(buf._working_lines) else None
            c = buf.cursor_position
            why = None
            if t is None:
                why = "working index outside the working lines"
            elif not (0 <= c <= len(t)):
                why = f"cursor {c} outside 0..{len(t)}"
            elif buf.text != t:
                why = "Buffer.text differs from the working line"
            else:
                try:
                    d = buf.document
                    if d.text != t or d.cursor_position != c:
                        why = "Buffer.document differs from text / cursor"
                except AssertionError as e:
                    why = f"Buffer.document raises AssertionError ({e})"
            if why:
                buf._verif_notif.append({"signature": f"Buffer notification | {which} listener sees an inconsistent buffer",
                                         "msg": f"{which}: {why}; text={t!r} cursor={c}"})
            if which == "on_text_changed" and buf._verif_boom[0]:
                buf._verif_boom[0] = False
                raise ListenerBoom()
        return handler

    b.on_text_changed += look("on_text_changed")
    b.on_cursor_position_changed += look("on_cursor_position_changed")


def drain_notifications(b: Buffer, op):
    out = []
    for x in getattr(b, "_verif_notif", []):
        out.append(dict(x, msg=x["msg"] + f" (during op {op})"))
    if out:
        del b._verif_notif[:]
    return out


def new_buffer(text, cur):
    from prompt_toolkit.filters import Condition
    ro = [False]
    b = Buffer(document=Document(text, cur), accept_handler=lambda buf: True, read_only=Condition(lambda: ro[0]))
    b._verif_ro = ro
    attach_listeners(b)
    return b


def refresh(b: Buffer, case):
    """back to the initial (text, cursor) of a "fresh" case: Buffer.reset is ten times cheaper than
    constructing a new Buffer for every single op"""
    b.reset(Document(case["text"], case["cur"]))
    b.text_width = 0
    b._verif_ro[0] = False
    del b._verif_notif[:]


def apply_op(b: Buffer, op):
    """apply one op to the real Buffer; return the method's return value ('' for None); for named
    commands: the concatenated return values of the delete calls the handler made"""
    k = op[0]
    if k == "ins":
        b.insert_text(op[1], overwrite=bool(op[2]), move_cursor=bool(op[3]))
    elif k == "del":
        return b.delete(op[1])
    elif k == "delb":
        return b.delete_before_cursor(op[1])
    elif k == "nl":
        b.newline(copy_margin=bool(op[1]))
    elif k == "above":
        b.insert_line_above(copy_margin=bool(op[1]))
    elif k == "below":
        b.insert_line_below(copy_margin=bool(op[1]))
    elif k == "join":
        b.join_next_line(separator=op[1])
    elif k == "swap":
        b.swap_characters_before_cursor()
    elif k == "cur":
        b.cursor_position = op[1]
    elif k == "text":
        b.text = op[1]
    elif k == "trl":
        b.transform_current_line(swapcase_ascii)
    elif k == "trr":
        try:
            b.transform_region(op[1], op[2], swapcase_ascii)
        except AssertionError:
            pass
    elif k == "ind":
        indent(b, op[1], op[2], op[3])
    elif k == "unind":
        unindent(b, op[1], op[2], op[3])
    elif k == "rs":
        b.text_width = op[3]
        reshape_text(b, op[1], op[2])
    elif k == "jsl":
        from prompt_toolkit.selection import SelectionState
        b.selection_state = SelectionState(original_cursor_position=min(op[1], len(b.text)))
        try:
            b.join_selected_lines(separator=op[2])
        finally:
            b.selection_state = None
    elif k == "setdoc":
        try:
            b.document = Document(op[1], op[2])
        except AssertionError:
            pass
    elif k in ("rotext", "rosetdoc"):
        # the same setter on a READ-ONLY buffer: "R" = EditReadOnlyBuffer was raised
        from prompt_toolkit.buffer import EditReadOnlyBuffer
        b._verif_ro[0] = True
        try:
            if k == "rotext":
                b.text = op[1]
            else:
                b.set_document(Document(op[2], op[3]), bypass_readonly=bool(op[1]))
        except EditReadOnlyBuffer:
            return "R"
        except AssertionError:
            pass
        finally:
            b._verif_ro[0] = False
    elif k == "qi":
        # quoted-insert, then the handler of the next key (basic bindings, `in_quoted_insert`)
        ev = stub_event(b, 1, op[1])
        get_by_name("quoted-insert").handler(ev)
        assert ev.app.quoted_insert is True
        b.insert_text(ev.data, overwrite=False)
    elif k in NAMED:
        name = NAMED[k]
        if k == "rub":
            name = "unix-word-rubout" if op[2] else "backward-kill-word"
        arg = op[2] if k == "si" else op[1] if len(op) > 1 else 1
        ev = stub_event(b, arg, op[1] if k == "si" else "")
        with Recorder(b) as rec:
            get_by_name(name).handler(ev)
        return "".join(rec.ret)
    elif k == "goto":
        b.go_to_history(op[1])
    elif k == "hback":
        b.history_backward(count=op[1])
    elif k == "hfwd":
        b.history_forward(count=op[1])
    elif k == "hreset":
        b.reset(Document(op[1], op[2]))
    else:
        raise ValueError(op)
    return ""


def state_line(b: Buffer, ret="") -> str:
    return f"{enc_str(b.text)} {b.cursor_position} {enc_str(ret or '')}"


def hist_line(b: Buffer) -> str:
    return f"{b.working_index} {b.cursor_position} {enc_list(list(b._working_lines), enc_str)}"


def doc_line(b: Buffer) -> str:
    d = b.document
    return f"{enc_str(d.text)} {d.cursor_position}"


def hist_buffer(case):
    from collections import deque
    b = new_buffer(case["lines"][case["idx"]], case["cur"])
    b._working_lines = deque(case["lines"])
    b._Buffer__working_index = case["idx"]
    b._Buffer__cursor_position = case["cur"]
    return b


def e2e_run(case, observe=None):
    """type the commands into a real PromptSession (emacs mode, multi-line) key by key"""
    from editor import editor
    with editor(text=case["text"], cursor=case["cur"], multiline=True) as ed:
        attach_listeners(ed.buffer)
        lines = [state_line(ed.buffer)]
        for o in case["ops"]:
            if case.get("fresh"):
                # every op from the same (text, cursor); the session (and its key processor) goes on
                ed.buffer.reset(Document(case["text"], case["cur"]))
                lines.append(state_line(ed.buffer))
            t, c = ed.buffer.text, ed.buffer.cursor_position
            ed.feed(e2e_bytes(o))
            lines.append(state_line(ed.buffer))
            if observe:
                observe(t, c, o, ed.buffer)
        return lines


def argv_run(case):
    """`event.arg` as a handler sees it after the argument keys were typed into the real editor:
    F9 is bound to a probe handler that records it"""
    from editor import editor
    from prompt_toolkit.key_binding import KeyBindings
    seen = []
    kb = KeyBindings()

    @kb.add("f9")
    def _(event):
        seen.append(event.arg)

    out = []
    with editor(text="abc", cursor=1, multiline=True, key_bindings=kb) as ed:
        for x, plain in case["ops"]:
            del seen[:]
            ed.feed(arg_bytes({"arg": x, "plain": plain}) + "\x1b[20~")
            out.append(str(seen[0]) if len(seen) == 1 else "handler-calls:%d" % len(seen))
    return out


def fc_run(case, observe=None):
    from prompt_toolkit.cache import FastDictCache
    cache = FastDictCache(Document, size=case["size"])
    out = ["ok"]
    for t, c in case["ops"]:
        hit = (t, c) in cache
        d = cache[t, c]
        keys = list(cache._keys)
        out.append(f"{1 if hit else 0} {enc_str(d.text)} {d.cursor_position} "
                   + enc_list(keys, lambda k: enc_str(k[0]) + ":" + str(k[1])))
        if observe:
            observe(cache, (t, c), d)
    return out


def tc_run(case, observe=None):
    docs = []
    out = ["ok"]

    def sharing():
        sig = []
        for d in docs:
            sig.append(next(i for i, e in enumerate(docs) if e._cache is d._cache))
        return enc_list(sig)

    for op in case["ops"]:
        if op[0] == "cnew":
            docs.append(Document(TC_MARK + op[1], 0))
            out.append(sharing())
        elif op[0] == "clines":
            out.append(enc_list(list(docs[op[1]].lines), enc_str) if op[1] < len(docs) else "0")
        elif op[0] == "cidx":
            out.append(enc_list(list(docs[op[1]]._line_start_indexes)) if op[1] < len(docs) else "0")
        elif op[0] == "cdrop":
            if op[1] < len(docs):
                del docs[op[1]]
            out.append(sharing())
        if observe:
            observe(docs)
    return out


def impl_lines(case):
    kind = case.get("kind", "ops")
    out = []
    if kind == "e2e":
        return e2e_run(case)
    if kind == "argv":
        return argv_run(case)
    if kind in ("vi", "raise"):
        return []
    if kind == "fc":
        return fc_run(case)
    if kind == "tc":
        return tc_run(case)
    if kind == "api":
        return []
    if kind == "hist":
        b = hist_buffer(case)
        out.append(hist_line(b))
        for op in case["ops"]:
            ret = apply_op(b, op)
            out.append(hist_line(b) if op[0] in HIST_ONLY else state_line(b, ret))
            out.append(hist_line(b))
            out.append(doc_line(b))
        return out
    if case.get("fresh"):
        b = new_buffer(case["text"], case["cur"])
        for op in case["ops"]:
            refresh(b, case)
            out.append(state_line(b))
            ret = apply_op(b, op)
            out.append(state_line(b, ret))
    else:
        b = new_buffer(case["text"], case["cur"])
        out.append(state_line(b))
        for op in case["ops"]:
            ret = apply_op(b, op)
            out.append(state_line(b, ret))
    return out


# ------------------------------------------------------------------ oracle
WORD_RE = re.compile(r"([a-zA-Z0-9_]+|[^a-zA-Z0-9_\s]+)")
BIG_WORD_RE = re.compile(r"([^\s]+)")


def check_op(text, cur, op, b: Buffer, ret):
    """The property C01 restated over the observed before/after state of the real Buffer.
    `ret` = what the delete calls returned (None when it could not be observed: end to end)."""
    v = []
    before, after = text[:cur], text[cur:]
    nt, nc = b.text, b.cursor_position
    k = op[0]

    def bad(site, cond, msg):
        v.append({"signature": f"{site} | {cond}", "msg": f"{msg}: text={text!r} cur={cur} op={op} -> text={nt!r} cur={nc} ret={ret!r}"})

    def removed_before(m, site, cond, what):
        """exactly the last m characters before the cursor are removed (and returned)"""
        m = max(0, min(m, len(before)))
        if nt != before[:len(before) - m] + after or nc != cur - m or (ret is not None and ret != before[len(before) - m:]):
            bad(site, cond, what)

    def removed_after(m, site, cond, what):
        m = max(0, min(m, len(after)))
        if nt != before + after[m:] or nc != cur or (ret is not None and ret != after[:m]):
            bad(site, cond, what)

    v += drain_notifications(b, op)
    if not (0 <= nc <= len(nt)):
        bad("Buffer." + k, "cursor out of range", "cursor outside 0..len(text)")
    if not (b.document.text == nt and b._working_lines[b.working_index] == nt
            and b.document.cursor_position == nc):
        bad("Buffer." + k, "views disagree", "text/document/working_lines differ")
    if k == "ins":
        data, ov, mv = op[1], op[2], op[3]
        if not ov:
            if nt != before + data + after:
                bad("Buffer.insert_text", "insert", "text != before+data+after")
        else:
            ok = False
            for j in range(0, len(data) + 1):
                if j <= len(after) and "\n" not in after[:j] and nt == before + data + after[j:]:
                    ok = True
            if not ok:
                bad("Buffer.insert_text", "overwrite", "overwrite replaced more than len(data) chars or a newline")
        if nc != (cur + len(data) if mv else cur):
            bad("Buffer.insert_text", "cursor", "cursor after insert")
    elif k == "del":
        if op[1] >= 0:
            m = min(op[1], len(after))
            if ret != after[:m] or nt != before + after[m:] or nc != cur:
                bad("Buffer.delete", "count>available" if op[1] > len(after) else "count<=available", "delete(n)")
        else:
            # a negative count is outside "delete n characters"; what must still hold: only characters
            # adjacent to the cursor go, and exactly those are returned
            if not (after.startswith(ret) and nt == before + after[len(ret):] and nc == cur):
                bad("Buffer.delete", "negative count frame", "delete(n<0) changed other text")
    elif k == "delb":
        m = min(op[1], len(before))
        exp_ret = before[len(before) - m:]
        if ret != exp_ret or nt != before[:len(before) - m] + after or nc != cur - m:
            bad("Buffer.delete_before_cursor", "0 < cursor < count" if op[1] > cur else "count<=cursor",
                "delete_before_cursor(n)")
    elif k == "nl":
        if not (nt.startswith(before + "\n") and nt.endswith(after) and len(nt) >= len(text) + 1
                and nt[len(before) + 1: len(nt) - len(after)].strip() == ""
                and nc == len(nt) - len(after)):
            bad("Buffer.newline", "frame", "newline changed other text")
    elif k in ("above", "below"):
        # exactly one newline (plus copied margin whitespace) inserted at a line boundary
        a = text.rfind("\n", 0, cur) + 1
        e = text.find("\n", cur)
        e = len(text) if e < 0 else e
        line = text[a:e]
        margin = line[: len(line) - len(line.lstrip())] if op[1] else ""
        if k == "above":
            exp, expc = text[:a] + margin + "\n" + text[a:], a + len(margin)
        else:
            exp, expc = text[:e] + "\n" + margin + text[e:], e + 1 + len(margin)
        if nt != exp or nc != expc:
            bad("Buffer.insert_line_" + k, "frame", "insert_line changed other text / wrong cursor")
    elif k == "join":
        sep = op[1]
        if "\n" not in after:
            if nt != text or nc != cur:
                bad("Buffer.join_next_line", "last line", "join on last line must be a no-op")
        else:
            i = text.index("\n", cur)
            exp = text[:i] + sep + text[i + 1:].lstrip(" ")
            if nt != exp:
                bad("Buffer.join_next_line", "frame", "join_next_line")
    elif k == "swap":
        if cur >= 2:
            exp = text[:cur - 2] + text[cur - 1] + text[cur - 2] + text[cur:]
        else:
            exp = text
        if nt != exp or nc != cur:
            bad("Buffer.swap_characters_before_cursor", "frame", "swap")
    elif k == "trl":
        a = text.rfind("\n", 0, cur) + 1
        e = text.find("\n", cur)
        e = len(text) if e < 0 else e
        if nt != text[:a] + swapcase_ascii(text[a:e]) + text[e:]:
            bad("Buffer.transform_current_line", "frame", "transform_current_line")
    elif k == "trr":
        a, e = op[1], op[2]
        if nt != text[:a] + swapcase_ascii(text[a:e]) + text[e:]:
            bad("Buffer.transform_region", "frame", "transform_region")
    elif k in ("ind", "unind"):
        lines = text.split("\n")
        nlines = nt.split("\n")
        ic = "    " * op[3]
        rows = set()
        for r in range(op[1], op[2]):
            if -len(lines) <= r < len(lines):
                rows.add(r % len(lines))
        if len(lines) != len(nlines):
            bad("buffer." + k, "line count", "indent changed the number of lines")
        else:
            for r, (l0, l1) in enumerate(zip(lines, nlines)):
                if r not in rows:
                    if l0 != l1:
                        bad("buffer." + k, "frame", "line outside the range changed")
                elif k == "ind":
                    # applied once per occurrence of the row in the range
                    times = sum(1 for q in range(op[1], op[2]) if -len(lines) <= q < len(lines) and q % len(lines) == r)
                    if l1 != ic * times + l0:
                        bad("buffer.indent", "content", "indented line is not indent+line")
                else:
                    if not l0.endswith(l1) or l0[: len(l0) - len(l1)].strip() != "":
                        bad("buffer.unindent", "content", "unindent removed non-blank characters")
    elif k == "rs":
        lines = text.splitlines(True)
        n = len(lines)
        a = max(0, op[1] + n) if op[1] < 0 else min(op[1], n)
        e1 = op[2] + 1
        e = max(0, e1 + n) if e1 < 0 else min(e1, n)
        region = lines[a:e]
        if not region:
            if nt != text or nc != cur:
                bad("buffer.reshape_text", "empty range", "reshape_text of an empty row range must be a no-op")
        else:
            pre, post = "".join(lines[:a]), "".join(lines[e:])
            if not (nt.startswith(pre) and nt.endswith(post) and len(nt) >= len(pre) + len(post)):
                bad("buffer.reshape_text", "frame", "lines outside from_row..to_row changed")
            else:
                mid = nt[len(pre): len(nt) - len(post)]
                if mid.split() != "".join(region).split():
                    bad("buffer.reshape_text", "words", "reshape_text changed something else than white space")
                if nc != len(pre) + len(mid):
                    bad("buffer.reshape_text", "cursor", "cursor is not at the end of the reshaped text")
    elif k in ("bdc", "dc"):
        a = op[1]
        backward = (a >= 0) if k == "bdc" else (a < 0)
        cond = "negative argument" if a < 0 else "argument>=0"
        what = "Esc <n> Backspace/Delete must remove exactly min(|n|, available) adjacent characters"
        if backward:
            removed_before(abs(a), "named_commands." + NAMED[k], cond, what)
        else:
            removed_after(abs(a), "named_commands." + NAMED[k], cond, what)
    elif k == "si":
        d = op[1] * max(0, op[2])
        if nt != before + d + after or nc != cur + len(d):
            bad("named_commands.self-insert", "insert", "self-insert")
    elif k == "qi":
        if nt != before + op[1] + after or nc != cur + len(op[1]):
            bad("named_commands.quoted-insert", "insert", "quoted insert")
    elif k == "tc":
        # Emacs transpose-chars: nothing at the start of the buffer; at the end of a line / of the
        # buffer the two characters before the cursor are exchanged; otherwise the characters around
        # the cursor are exchanged and the cursor moves right
        if cur == 0:
            exp, expc = text, cur
        elif cur == len(text) or text[cur] == "\n":
            exp = text if cur < 2 else text[:cur - 2] + text[cur - 1] + text[cur - 2] + text[cur:]
            expc = cur
        else:
            exp, expc = text[:cur - 1] + text[cur] + text[cur - 1] + text[cur + 1:], cur + 1
        if nt != exp or nc != expc:
            bad("named_commands.transpose-chars", "frame", "transpose-chars must exchange exactly the two addressed characters")
    elif k in CASEF:
        # only a stretch text[cur:cur+j] may change, and only by the case function, per iteration
        f = CASEF[k]
        ok = False
        if op[1] <= 0:
            ok = (nt == text and nc == cur)
        else:
            # the union of the touched stretches is text[cur:cur+j] for some j; everything else is intact
            for j in range(0, len(after) + 1):
                seg = after[:j]
                if nt.startswith(before) and nt.endswith(after[j:]) and len(nt) >= len(before) + len(after) - j:
                    mid = nt[len(before): len(nt) - (len(after) - j)]
                    if mid.casefold() == seg.casefold() or mid == f(seg):
                        ok = True
                        break
        if not ok:
            bad("named_commands." + NAMED[k], "frame", "case transform changed characters outside the words it addresses")
    elif k == "kw":
        a = op[1]
        site = "named_commands.kill-word"
        if a > 0:
            ms = list(WORD_RE.finditer(after[1:]))
            m = ms[a - 1].end() + 1 if len(ms) >= a else 0
            removed_after(m, site, "argument>0", "kill-word must remove exactly the text up to the end of the n-th following word")
        elif a == 0:
            if nt != text or nc != cur:
                bad(site, "argument 0", "kill-word with argument 0 must not change anything")
        else:
            # a negative argument kills backward: nothing after the cursor may disappear, the
            # removed characters are adjacent to the cursor and are exactly what was returned
            m = len(text) - len(nt)
            if not (0 <= m <= len(before) and nt == before[:len(before) - m] + after and nc == cur - m
                    and (ret is None or ret == before[len(before) - m:])):
                bad(site, "negative argument", "kill-word with a negative argument removed text after the cursor")
    elif k == "rub":
        a, big = op[1], op[2]
        site = "named_commands." + ("unix-word-rubout" if big else "backward-kill-word")
        ms = list((BIG_WORD_RE if big else WORD_RE).finditer(before[::-1]))
        if a >= 1 and len(ms) >= a:
            removed_before(ms[a - 1].end(), site, "argument>0", "must remove exactly back to the start of the n-th previous word")
        else:
            # no such word (or argument <= 0): the code deletes back to the start of the document;
            # the property only asks that nothing else changes and the removed text is returned
            m = len(text) - len(nt)
            if not (0 <= m <= len(before)):
                bad(site, "frame", "removed more than the text before the cursor")
            else:
                removed_before(m, site, "frame", "removed text not adjacent to the cursor / not returned")
    elif k == "kl":
        site = "named_commands.kill-line"
        if op[1] < 0:
            removed_before(len(before) - (before.rfind("\n") + 1), site, "negative argument", "must remove the line before the cursor")
        elif after.startswith("\n"):
            removed_after(1, site, "on line ending", "must remove exactly the line ending")
        else:
            e = after.find("\n")
            removed_after(len(after) if e < 0 else e, site, "argument>=0", "must remove up to the end of the line")
    elif k == "uld":
        site = "named_commands.unix-line-discard"
        col = len(before) - (before.rfind("\n") + 1)
        if col == 0 and cur > 0:
            removed_before(1, site, "column 0", "must remove the line ending before the cursor")
        else:
            removed_before(col, site, "frame", "must remove the line before the cursor")
    elif k == "dhs":
        rb, la = before.rstrip("\t "), after.lstrip("\t ")
        if nt != rb + la or nc != len(rb) or (ret is not None and ret != before[len(rb):] + after[:len(after) - len(la)]):
            bad("named_commands.delete-horizontal-space", "frame", "must remove exactly the blanks around the cursor")
    elif k == "ic":
        site = "named_commands.insert-comment"
        src = text.splitlines()
        dst = nt.split("\n") if src else ([] if nt == "" else [nt])
        if len(src) != len(dst):
            bad(site, "line count", "insert-comment changed the number of lines")
        elif op[1] == 1:
            if any(d != "#" + s for s, d in zip(src, dst)):
                bad(site, "frame", "a line is not '#' + line")
        else:
            if any(d != (s[1:] if s.startswith("#") else s) for s, d in zip(src, dst)):
                bad(site, "frame", "uncomment removed something else than one leading '#'")
        if nc != 0:
            bad(site, "cursor", "cursor must be 0")
    elif k == "jsl":
        o = min(op[1], len(text))
        a, e = min(cur, o), max(cur, o)
        if not (nt.startswith(text[:a]) and nt.endswith(text[e:]) and len(nt) >= a + len(text) - e):
            bad("Buffer.join_selected_lines", "frame", "text outside the selection changed")
    elif k == "setdoc":
        if op[2] <= len(op[1]) and (nt != op[1] or nc != max(0, op[2])):
            bad("Buffer.document", "set", "document setter")
    elif k == "rotext":
        if nt != text or ret != "R":
            bad("Buffer.text", "read-only", "the text setter changed a read-only buffer / did not raise")
    elif k == "rosetdoc":
        bp, t, c = op[1], op[2], op[3]
        if c > len(t):
            ok = (nt == text and nc == cur)
        elif bp:
            ok = (nt == t and nc == max(0, c) and ret == "")
        else:
            ok = (nt == text and nc == cur and ret == "R")
        if not ok:
            bad("Buffer.set_document", "read-only", "set_document on a read-only buffer (bypass_readonly=%r)" % bool(bp))
    elif k == "cur":
        if nt != text or nc != max(0, min(op[1], len(text))):
            bad("Buffer.cursor_position", "clamp", "cursor setter")
    elif k == "text":
        if nt != op[1] or nc != min(cur, len(op[1])):
            bad("Buffer.text", "set", "text setter")
    return v


def check_hist(b, op, lines0, idx0, ret, text0, cur0):
    """views / working lines around one op of a history sequence"""
    v = []

    def bad(cond, msg):
        v.append({"signature": f"Buffer.{op[0]} | {cond}", "msg": f"{msg}: lines={lines0!r} idx={idx0} cur={cur0} op={op} -> "
                  f"lines={list(b._working_lines)!r} idx={b.working_index} cur={b.cursor_position}"})

    if op[0] in HIST_ONLY:
        v += drain_notifications(b, op)
    lines1, idx1 = list(b._working_lines), b.working_index
    if not (0 <= idx1 < len(lines1)):
        bad("working index out of range", "working_index outside the working lines")
        return v
    if not (b.text == lines1[idx1] == b.document.text and b.document.cursor_position == b.cursor_position):
        bad("views disagree", "text / document / working line differ")
    if not (0 <= b.cursor_position <= len(b.text)):
        bad("cursor out of range", "cursor outside 0..len(text)")
    if op[0] in ("goto", "hback", "hfwd"):
        if lines1 != lines0:
            bad("history switch changed a working line", "a working line changed while only browsing")
    elif op[0] == "hreset":
        if lines1 != [op[1]] or idx1 != 0:
            bad("reset", "reset must leave exactly the given document")
    else:
        if idx1 != idx0:
            bad("edit switched the working line", "an edit changed working_index")
        elif len(lines1) != len(lines0) or any(x != y for j, (x, y) in enumerate(zip(lines0, lines1)) if j != idx0):
            bad("edit changed another working line", "an edit touched a working line it does not address")
        v += check_op(text0, cur0, op, b, ret)
    return v


def vi_keys(op):
    k = op[0]
    if k == "~":
        return "~"
    if k == "r":
        return ("" if op[2] == 1 else str(op[2])) + "r" + op[1]
    n = op[1]
    return ("" if n == 1 else str(n)) + k


def check_vi(text, cur, op, b: Buffer):
    """C01 for one Vi navigation-mode command: result = before + X + after' with X characterised"""
    v = drain_notifications(b, op)
    before, after = text[:cur], text[cur:]
    nt, nc = b.text, b.cursor_position
    k = op[0]
    line_after = after.split("\n", 1)[0]
    line_before = before.rsplit("\n", 1)[-1]

    def bad(cond, msg):
        v.append({"signature": f"vi {k} | {cond}", "msg": f"{msg}: text={text!r} cur={cur} keys={vi_keys(op)!r} -> text={nt!r} cur={nc}"})

    if not (0 <= nc <= len(nt)):
        bad("cursor out of range", "cursor outside 0..len(text)")
    if not (b.document.text == nt == b._working_lines[b.working_index] and b.document.cursor_position == nc):
        bad("views disagree", "text/document/working line differ")
    if k == "~":
        # the character under the cursor is replaced by its swapcase; on a line ending / at the end
        # of the text nothing at all changes
        if line_after == "":
            exp = text
        else:
            exp = before + after[0].swapcase() + after[1:]
        if nt != exp:
            longer = line_after != "" and len(after[0].swapcase()) != 1
            bad("swapcase changes the length" if longer else "frame",
                "~ must change exactly the character under the cursor (nothing on a line ending)")
    elif k == "x":
        m = min(op[1], len(line_after))
        if nt != before + after[m:]:
            bad("frame", "x must delete min(n, rest of the line) characters after the cursor")
    elif k == "X":
        m = min(op[1], len(line_before))
        if nt != before[:len(before) - m] + after or (m and nc > cur - m):
            bad("frame", "X must delete min(n, start of the line) characters before the cursor")
    elif k == "r":
        c = op[1]
        ks = [1 if line_after else 0]
        if op[2] > 1 and op[2] <= len(line_after):
            ks.append(op[2])          # vim semantics (n characters), should the count ever be honoured
        if not any(nt == before + c * max(j, 1) + after[j:] for j in ks):
            bad("frame", "r<c> must replace the character under the cursor (never a line ending) and nothing else")
    elif k in ("J", "gJ"):
        sep = " " if k == "J" else ""
        t, c = text, cur
        for _ in range(op[1]):
            if "\n" not in t[c:]:
                break
            i = t.index("\n", c)
            t = t[:i] + sep + t[i + 1:].lstrip(" ")
            c = i
        if nt != t:
            bad("frame", "J must replace exactly the line endings (and following blanks) it addresses")
    elif k in (">>", "<<"):
        lines, nlines = text.split("\n"), nt.split("\n")
        row = before.count("\n")
        rows = set(range(row, min(row + op[1], len(lines))))
        if len(lines) != len(nlines):
            bad("line count", "indent changed the number of lines")
        else:
            for r, (l0, l1) in enumerate(zip(lines, nlines)):
                if r not in rows:
                    if l0 != l1:
                        bad("frame", "a line outside the count changed")
                elif k == ">>":
                    if l1 != "    " + l0:
                        bad("content", "indented line is not indent + line")
                elif not l0.endswith(l1) or l0[: len(l0) - len(l1)].strip() != "":
                    bad("content", "unindent removed non-blank characters")
    return v


def vi_run(case, observe):
    from editor import editor
    from prompt_toolkit.key_binding.vi_state import InputMode
    with editor(text="", cursor=0, multiline=True, vi=True) as ed:
        attach_listeners(ed.buffer)
        for text, cur, op in case["ops"]:
            ed.app.vi_state.input_mode = InputMode.NAVIGATION
            ed.buffer.reset(Document(text, cur))
            del ed.buffer._verif_notif[:]
            ed.feed(vi_keys(op))
            observe(text, cur, op, ed.buffer)


def raise_run(case):
    """see raise_cases"""
    v = []
    b = new_buffer(case["text"], case["cur"])

    def consistent(op, when):
        t = b._working_lines[b.working_index]
        c = b.cursor_position
        ok = 0 <= c <= len(t) and b.text == t
        if ok:
            try:
                d = b.document
                ok = d.text == t and d.cursor_position == c
            except AssertionError:
                ok = False
        if not ok:
            v.append({"signature": f"Buffer.{op[0]} | inconsistent buffer {when}",
                      "msg": f"text={case['text']!r} cur={case['cur']} ops={case['ops']} boom at {case['boom']}: "
                             f"after {op}: text={t!r} cursor={c}"})

    for i, op in enumerate(case["ops"]):
        b._verif_boom[0] = (i == case["boom"])
        try:
            apply_op(b, op)
        except ListenerBoom:
            consistent(op, "after a listener raised")
        except (IndexError, AssertionError) as e:
            v.append({"signature": f"Buffer.{op[0]} | raised {type(e).__name__} after a listener raised",
                      "msg": f"text={case['text']!r} cur={case['cur']} ops={case['ops']} boom at {case['boom']}: {e}"})
            break
        b._verif_boom[0] = False
        v += drain_notifications(b, op)
        consistent(op, "after an op that follows a raising listener" if i > case["boom"] else "after an op")
    return v


def dedupe(v):
    seen, out = set(), []
    for x in v:
        if x["signature"] not in seen:
            seen.add(x["signature"])
            out.append(x)
    return out


def api_probe(case):
    """generic invariant probe of a public mutator the model does not know: call it without
    arguments (when possible) and check cursor range + views"""
    v = []
    b = new_buffer(case["text"], case["cur"])
    name = case["name"]
    try:
        if name.startswith("Buffer.") and not name.endswith("="):
            getattr(b, name[len("Buffer."):])()
        elif "." not in name:
            import prompt_toolkit.buffer as B
            getattr(B, name)(b)
    except Exception:
        return v
    nt, nc = b.text, b.cursor_position
    if not (0 <= nc <= len(nt)):
        v.append({"signature": f"{name} | cursor out of range", "msg": f"{name} on {case['text']!r}@{case['cur']}: cursor {nc} text {nt!r}"})
    if not (b.document.text == nt == b._working_lines[b.working_index] and b.document.cursor_position == nc):
        v.append({"signature": f"{name} | views disagree", "msg": f"{name} on {case['text']!r}@{case['cur']}"})
    return v


def oracle(case):
    kind = case.get("kind", "ops")
    v = []
    if kind == "api":
        return api_probe(case)
    if kind == "e2e":
        def obs(t, c, o, buf):
            for x in check_op(t, c, o["op"], buf, None):
                x["signature"] = "end-to-end " + x["signature"]
                v.append(x)
        e2e_run(case, obs)
        return dedupe(v)
    if kind == "vi":
        vi_run(case, lambda t, c, op, buf: v.extend(check_vi(t, c, op, buf)))
        return dedupe(v)
    if kind == "raise":
        return dedupe(raise_run(case))
    if kind == "argv":
        got = argv_run(case)
        for (x, plain), g in zip(case["ops"], got):
            if g != str(typed_arg_value(x)):
                v.append({"signature": "KeyPressEvent.arg | typed argument",
                          "msg": f"typing Esc-prefixed {x!r} (plain continuation={plain}) gives event.arg={g}, "
                                 f"the typed number is {typed_arg_value(x)}"})
        return dedupe(v)
    if kind == "fc":
        def obs(cache, key, d):
            if (d.text, d.cursor_position) != key:
                v.append({"signature": "FastDictCache | returned document describes another key",
                          "msg": f"key={key!r} -> Document({d.text!r}, {d.cursor_position})"})
            for k2, d2 in cache.items():
                if (d2.text, d2.cursor_position) != (k2[0], k2[1]):
                    v.append({"signature": "FastDictCache | cached document describes another key",
                              "msg": f"key={k2!r} holds Document({d2.text!r}, {d2.cursor_position})"})
            if sorted(cache.keys()) != sorted(cache._keys) or len(cache) > cache.size + 1:
                v.append({"signature": "FastDictCache | bookkeeping", "msg": f"dict keys {sorted(cache.keys())!r} vs deque {list(cache._keys)!r} size {cache.size}"})
        fc_run(case, obs)
        return dedupe(v)
    if kind == "tc":
        def obs(docs):
            for d in docs:
                c = d._cache
                if c.lines is not None and list(c.lines) != d.text.split("\n"):
                    v.append({"signature": "Document._cache | lines of another text", "msg": f"text={d.text!r} cached lines={list(c.lines)!r}"})
                if c.line_indexes is not None:
                    exp, pos = [], 0
                    for l in d.text.split("\n"):
                        exp.append(pos)
                        pos += len(l) + 1
                    if list(c.line_indexes) != exp:
                        v.append({"signature": "Document._cache | line indexes of another text", "msg": f"text={d.text!r} cached indexes={list(c.line_indexes)!r}"})
        tc_run(case, obs)
        return dedupe(v)
    if kind == "hist":
        b = hist_buffer(case)
        for op in case["ops"]:
            lines0, idx0, t0, c0 = list(b._working_lines), b.working_index, b.text, b.cursor_position
            try:
                ret = apply_op(b, op)
                v += check_hist(b, op, lines0, idx0, ret, t0, c0)
            except (IndexError, AssertionError) as e:
                # e.g. working_index left outside the working lines: Buffer.text raises IndexError
                v.append({"signature": f"Buffer.{op[0]} | raised {type(e).__name__}",
                          "msg": f"lines={lines0!r} idx={idx0} cur={c0} op={op}: {type(e).__name__}: {e}"})
                break
        return dedupe(v)
    if case.get("fresh"):
        b = new_buffer(case["text"], case["cur"])
        for op in case["ops"]:
            refresh(b, case)
            ret = apply_op(b, op)
            v += check_op(case["text"], case["cur"], op, b, ret)
    else:
        b = new_buffer(case["text"], case["cur"])
        for op in case["ops"]:
            t, c = b.text, b.cursor_position
            ret = apply_op(b, op)
            v += check_op(t, c, op, b, ret)
    return dedupe(v)


def sample_view(case):
    if case.get("fresh"):
        return dict(case, ops=case["ops"][:4] + [f"... {len(case['ops'])} single ops, each from a fresh init"])
    return case


def nontrivial(case):
    kind = case.get("kind", "ops")
    if kind in ("ops", "e2e"):
        return len(case["text"]) > 0
    if kind == "argv":
        return True
    if kind == "hist":
        return len(case["lines"]) > 1
    return len(case["ops"]) > 1


def distribution(cases):
    d = {"kinds": {}, "text_len": {}, "ops": {}, "api_coverage": API_COVERAGE}
    for c in cases:
        kind = c.get("kind", "ops")
        d["kinds"][kind] = d["kinds"].get(kind, 0) + 1
        if "text" in c:
            n = len(c["text"])
            key = str(n) if n < 6 else "6+"
            d["text_len"][key] = d["text_len"].get(key, 0) + 1
        for op in c["ops"]:
            name = (op["op"][0] if isinstance(op, dict) else "argv" if kind == "argv" else "vi " + op[2][0] if kind == "vi"
                    else op[0] if kind != "fc" else "fcget")
            d["ops"][name] = d["ops"].get(name, 0) + 1
    return d


if __name__ == "__main__":
    sys.exit(core.main(sys.modules[__name__]))
