#!/venv/bin/python
"""C17 — no keystroke lost / duplicated / misapplied across the accept boundary.

Two kinds of cases, both on the REAL PromptSession / Application / KeyProcessor /
typeahead store with `create_pipe_input()` + `DummyOutput`:

  step : a deterministic, explicit schedule  W(rite chunk) | S(tart prompt) | R(ead) |
         F(inish = await the prompt once its result is set), driven inside one asyncio loop by
         calling the reader callback the application registered for the pipe.  After every event
         the observable state (running, done, buffer, input_queue, typeahead store, results) is
         compared with the Lean model executing the same schedule.
  e2e  : k consecutive `prompt()` / `prompt_async()` calls on one pipe, the bytes delivered all
         at once before the first prompt, or from a writer thread / writer task in seeded chunks
         (at key boundaries, or at arbitrary byte positions) with seeded delays, CPR reports
         injected between keys.  Only the results (+ unconsumed keys) are compared: the model's
         answer does not depend on the schedule (theorem `results_schedule_independent`), the
         driver is given a seeded random schedule.

Every prompt runs under a watchdog.
"""
from __future__ import annotations

import asyncio
import io
import itertools
import json
import logging
import os
import select
import sys
import threading
import time

sys.path.insert(0, os.path.dirname(os.path.abspath(__file__)))
import core
import gen_c17
from core import enc_str

from prompt_toolkit import PromptSession
from prompt_toolkit.input import create_pipe_input
from prompt_toolkit.input import typeahead as _typeahead
from prompt_toolkit.input import vt100 as _vt100
from prompt_toolkit.key_binding.key_processor import _Flush
from prompt_toolkit.keys import Keys
from prompt_toolkit.data_structures import Size
from prompt_toolkit.output import DummyOutput
from prompt_toolkit.output.vt100 import Vt100_Output

# a broken tree makes asyncio log thousands of tracebacks; the verdict does not need them
logging.getLogger("asyncio").setLevel(logging.CRITICAL)

ID = "C17"
DRIVER = "drv_c17"
PROPS = ["Ptk.Props.C17", "Ptk.Props.C17Buf", "Ptk.Props.C17Flush", "Ptk.Props.C17Paste", "Ptk.Props.C17PasteApp",
         "Ptk.Props.C17Store", "Ptk.Props.C17Attach"]
ANCHORS = ["src/prompt_toolkit/application/application.py", "src/prompt_toolkit/key_binding/key_processor.py",
           "src/prompt_toolkit/input/typeahead.py", "src/prompt_toolkit/input/vt100.py",
           "src/prompt_toolkit/key_binding/bindings/cpr.py", "src/prompt_toolkit/input/vt100_parser.py",
           "src/prompt_toolkit/input/posix_utils.py", "src/prompt_toolkit/input/ansi_escape_sequences.py"]
# functions of /repo whose bodies the Lean models follow line by line AND that the step-by-step
# correspondence exercises (qualified names as `ast` nests them; hashed and pinned by harness/core.py)
MODELLED = {
    "src/prompt_toolkit/application/application.py": [
        "Application.run_async._run_async",                  # type-ahead replay, `await f`, exit path, store_typeahead
        "Application.run_async._run_async.read_from_input",  # guard, read_keys, feed_multiple, process_keys
        "Application.run_async._run_async.auto_flush_input",  # layer 3: deadline = last read + ttimeoutlen
        "Application.run_async._run_async.flush_input",
        "Application._request_absolute_cursor_position",     # CPR request only when queue empty and not done
    ],
    "src/prompt_toolkit/key_binding/key_processor.py": [
        "KeyProcessor.reset", "KeyProcessor.feed", "KeyProcessor.feed_multiple",
        "KeyProcessor.process_keys", "KeyProcessor.process_keys.not_empty", "KeyProcessor.process_keys.get_next",
        "KeyProcessor._process", "KeyProcessor._process_cpr_response", "KeyProcessor._call_handler",
        "KeyProcessor.empty_queue", "KeyProcessor._start_timeout.wait", "KeyProcessor._start_timeout.flush_keys",
    ],
    "src/prompt_toolkit/input/typeahead.py": ["store_typeahead", "get_typeahead"],
    "src/prompt_toolkit/input/vt100.py": ["Vt100Input.read_keys", "_attached_input"],
    "src/prompt_toolkit/input/vt100_parser.py": [
        "Vt100Parser.feed", "Vt100Parser._call_handler", "Vt100Parser._input_parser_generator",
        "Vt100Parser._get_match", "_IsPrefixOfLongerMatchCache.__missing__",
    ],
    "src/prompt_toolkit/key_binding/bindings/cpr.py": ["load_cpr_bindings._"],
    "src/prompt_toolkit/renderer.py": ["Renderer.report_absolute_cursor_row", "Renderer.waiting_for_cpr"],
    "src/prompt_toolkit/key_binding/bindings/basic.py": [
        "load_basic_bindings._newline2",                     # c-j feeds ControlM to the front of the queue
        "load_basic_bindings._paste",                        # bracketed paste: CR/CRLF -> LF, insert_text
    ],
    "src/prompt_toolkit/shortcuts/prompt.py": [
        "PromptSession._create_prompt_bindings._accept_input", "PromptSession._create_prompt_bindings._keyboard_interrupt",
        "PromptSession._create_prompt_bindings.ctrl_d_condition", "PromptSession._create_prompt_bindings._eof",
    ],
    "src/prompt_toolkit/buffer.py": ["Buffer.validate", "Buffer.validate_and_handle"],
    "src/prompt_toolkit/validation.py": ["_ValidatorFromCallable.validate"],
}
LEVEL_TEXT = ("Lean 4 theorems over six executable models around the accept boundary, for EVERY schedule of writes / reads "
              "of any size / starts / timer expiries / finishes and every CPR placement. Layer 1 (process_keys with "
              "the is_done gate, c-j re-feed, run_async type-ahead replay / read guard / CPR wait of the exit path / "
              "store_typeahead): no key "
              "lost, duplicated or reordered; results = the segments of the typed key stream; k lines -> k prompts "
              "(a fair schedule finishes all k); accepted line frozen; CPR never text; termination. Layer 2 (key "
              "buffer of KeyProcessor._process: multi-key bindings, prefix waiting, retry loop, flush timer, "
              "push-back on exit, CPR outside the buffer, numeric argument) for EVERY state-dependent binding registry "
              "(so also for validators that reject a line and for handlers that exit with an exception: c-c, c-d): "
              "conservation, a CPR changes neither the argument nor what the next key does, "
              "nothing dispatched after the exiting call, a prompt ends only at an exiting call (a rejected Enter is no "
              "boundary), no double exit, key buffer empty at exit. Layer 3 (input "
              "flush timer): a sequence split across reads closer than ttimeoutlen apart is never flushed in "
              "between - stated also for the DEFAULT ttimeoutlen regenerated from Application() and pinned (500 ms; "
              "timeoutlen 1000 ms). Layer 4 (the input object in front of the boundary: pipe of characters + Vt100Parser.feed with "
              "its bracketed-paste mode, for EVERY normal-mode generator): feed = a character-by-character "
              "specification, hence every chunking of the stream (cuts inside ESC[200~, the pasted text, ESC[201~, "
              "any escape sequence) gives the same key presses and parser state; a paste is ONE key press carrying "
              "exactly the text between the marks and what follows the end mark (Enter!) is ordinary input; "
              "conservation at the level of characters incl. what parser and unread pipe will still deliver; k lines "
              "of typed text and pastes -> exactly these lines = typed text + pasted text; the parser (pending "
              "sequence, paste mode) survives the accept boundary; side conditions re-decided on the sequence table "
              "regenerated from /repo. Layer 5 (type-ahead store as a map keyed by typeahead_hash(), several inputs): "
              "FIFO append per hash, isolation between hashes, every input runs the one-input machine under every "
              "interleaving (all layer-1 theorems per input). Layer 6 (the reader callback's life cycle on one event "
              "loop: _attached_input attach/detach with the previous callback, the guard of read_from_input, the "
              "renderer's memory of seen CPR responses and unanswered requests from prompt to prompt, loop turns as "
              "schedule steps): between two prompts no reader of a finished run is registered, a loop turn in the gap "
              "reads nothing, conservation over the gaps (nothing is eaten by a stale callback). The models are "
              "tied to /repo on every run by generated tables and pins, a step-by-step correspondence on explicit "
              "schedules (also on a virtual clock with chunk boundaries inside escape sequences; byte-exact read sizes "
              "for the parser layer incl. the 1024-byte read boundary; two inputs in one event loop), an end-to-end "
              "correspondence (k prompts on one pipe: pre-fed, writer thread, writer task, byte-level chunking, "
              "in_thread; k prompt_async() calls on ONE loop with a non-answering vt100 output, a CPR seen on the input and "
              "writes strictly between prompts; real-time cases with the default ttimeoutlen and a writer pausing "
              "120-200 ms inside Left / a CPR report) and the property oracle")
LEVEL_NOTE = ("PARTIAL: read boundaries, finish points and timer expiry are nondeterministic inputs of the models "
              "(the theorems quantify over all of them); the OS pipe, asyncio scheduling, the UTF-8 decoder and the "
              "escape-sequence grammar of the normal-mode generator (C03; a parameter of layer 4, its concrete copy is "
              "correspondence-checked), the parser's own flush timer and the line editor are runtime/other properties "
              "and only sampled here. Trusted: Lean kernel, axioms propext/Classical.choice/Quot.sound only; "
              "hand-written models validated by the correspondence")
TECHNIQUE = "Lean 4 proof over an executable model + differential correspondence + property oracle"
RULE = ("step cases: every script over {a, Enter, CPR, c-j} up to the tier's length x every chunking into writes x "
        "4 schedule patterns (pre-fed / interleaved / late finish with reads while done / stale reader callback "
        "between prompts), then seeded random scripts (editing keys, c-c, multi-byte text, CPRs) with random event "
        "schedules incl. partial reads; the same for the key-buffer layer (c-x prefix, c-x c-x, escape Enter, "
        "escape + unbound key, c-space c-c = pending abort, flush-timer events; sessions with a rejecting validator "
        "and c-d); parser layer: scripts with bracketed pastes (bodies incl. CR, CRLF, a prefix of the end mark, "
        "empty), EVERY single cut position x write-cut / read-cut / late / pre-fed patterns, pairs of cuts, byte by "
        "byte, the end mark across the 1024-byte read boundary, random character schedules; two-input layer: every "
        "interleaving of two inputs with type-ahead, sampled interleavings with partial reads, alternating sessions "
        "per input; e2e cases: seeded scripts of 1-5 lines in modes pre / thread (key-boundary chunks) / threadbytes "
        "(arbitrary byte cuts) / async (writer task) / in_thread, CPRs injected at key boundaries, pastes with cuts "
        "mostly inside the marks. non-trivial = at least two prompts, or a key after an accepting key, or a CPR, or "
        "a paste; one-loop layer: 5 scripts (CPR report in line 1 / 2 / nowhere / twice) x 4 gap patterns (write + loop "
        "turn between prompts, half a line in the gap, the loop does all reading, type-ahead), random schedules with "
        "loop turns anywhere, e2e with each line written in the gap before its prompt incl. a line longer than two "
        "reads")
EXHAUSTIVE = True
EXHAUSTIVE_SCOPE = {
    "quick": "virtual clock: bursts 'a' | 'b'+first part of Left/Delete | rest+'X Enter cd Enter' for every split position "
             "and gaps in {0.4,0.7,0.95}*ttimeoutlen; step: scripts over {a,Enter,CPR,c-j} len<=3 with >=1 accepting key, all chunkings into writes (len 3: "
             "3 chunkings), 4 schedule patterns; CPR-answering output: scripts over {a,Enter,CPR} len<=3, all "
             "chunkings, 4 patterns around the CPR wait; key-buffer layer: scripts over {a,Enter,c-x,c-space c-c,c-c} len<=3, 2-4 chunkings, "
             "schedule patterns with and without the flush timer; validator/c-d: scripts over {a,Enter,c-d,BS} / "
             "{a,x,Enter,BS} / {a,Enter,c-d,c-a} len<=2 (len 3: pre-fed only) for validators none / non-empty / "
             "no-x; parser layer: 5 scripts with pastes, every single cut position (every split point of both marks) "
             "x 1-4 patterns, all pairs of cuts inside the marks, byte by byte, end mark 0..6 bytes before the "
             "1024-byte read boundary (step and e2e); two inputs: all 70 interleavings of two 4-block schedules",
    "thorough": "step: scripts over {a,Enter,CPR,c-j,b} len<=3 all chunkings (len 4: 2 chunkings), 4 schedule "
                "patterns; CPR-answering output: scripts over {a,Enter,CPR,c-j} len<=3, all chunkings, 4 patterns "
                "around the CPR wait; key-buffer layer: scripts over {a,Enter,c-x,c-space c-c,c-c,esc-Enter,CPR,esc-q} len<=2 "
                "all chunkings (len 3 and, over the first five, len 4: 2 chunkings), patterns with and "
                "without the flush timer; validator/c-d: len<=3 (len 4: pre-fed only); parser layer: as quick plus "
                "all pairs of cuts anywhere in the first script, the end mark across the first and the second read "
                "boundary; two inputs: as quick"}
TRUSTED = ["harness/c17.py: token table (bytes <-> key code), the stepper that calls the registered reader callback "
           "(and limits how many bytes one stdin_reader.read returns), the comparison of states/results",
           "harness/gen_c17.py: prints ANSI_SEQUENCES with the protocol's key codes, the end-mark literal of "
           "Vt100Parser.feed (from the AST), the four regex pattern strings, the read size of PosixStdinReader",
           "Ptk/Model/C17*.lean are hand translations of process_keys / _process / run_async / typeahead.py / "
           "Vt100Parser.feed and _input_parser_generator / the default single-line emacs bindings used in the "
           "scripts (correspondence-checked)"]
ASSUMPTIONS = ["asyncio runs callbacks of one loop one at a time (the model's events are atomic)",
               "layers 1-3 and 5: bytes -> key presses is a function of the concatenated byte stream (layer 4 proves it "
               "for the paste mechanism and every normal-mode generator; the generator itself is C03's); incomplete "
               "escape sequences are not flushed by a timer in the byte-cut cases (ttimeoutlen raised there)",
               "layer 4 works on characters: the incremental UTF-8 decoder in front of the parser is C03's (step cases "
               "are ASCII, e2e cases cut multi-byte text at arbitrary bytes)",
               "one pipe input = one typeahead hash; outputs: DummyOutput (no CPR requests) and Vt100_Output on a "
               "fake tty (CPR request at every start; the 1 s timeout of wait_for_cpr_responses is shortened to "
               "0.08 s in the harness, a timer value only)",
               "real-time pause cases count only when no two reads were more than 400 ms apart (else repeated, after "
               "three attempts not counted): only the lower side of the pause matters",
               "applications that run at the same time on different inputs have an AppSession each "
               "(create_app_session; with a shared AppSession get_app() is the application started last - documented "
               "API contract, not modelled)",
               "sessions with a validator use validate_while_typing=False (with the default, whether a rejected Enter "
               "moves the cursor depends on whether the asynchronous validation has cached its verdict yet: "
               "timing-dependent, but no accept boundary is involved)"]
PARTIAL_SCOPE = ["the input flush timer (flush_input / ttimeoutlen) is the third-layer model (pending deadline moved "
                 "by every read); its cases keep every gap inside an escape sequence below ttimeoutlen (a longer stop "
                 "legitimately yields a lone Escape); layer 4 has no flush event (its cases never let the timer "
                 "fire); the key processor's flush timer (_Flush / timeoutlen) is an "
                 "event of the second-layer model only",
                 "handlers that feed keys (c-j) are in the first layer only; state-dependent exits (validator, c-d) in "
                 "the second layer only; the second layer's concrete registry "
                 "covers the keys the scripts use (c-x prefix, c-x c-x, escape Enter, escape + unbound key, "
                 "c-space c-c, c-d, validators none / non-empty / no-x), its theorems cover every registry",
                 "the CPR wait of the exit path (renderer.waiting_for_cpr branch of read_from_input, "
                 "wait_for_cpr_responses) is in the first-layer model only; `cpr_support` NOT_SUPPORTED (decided by a "
                 "2 s timer) is not modelled",
                 "layer 4: the normal-mode generator is a parameter of the theorems (its concrete copy over the "
                 "regenerated table is what the driver runs); a paste body is assumed not to complete the end mark "
                 "early (CleanBody; the first ESC[201~ ends a paste by definition); paste + numeric argument and "
                 "line-oriented editing keys after a pasted line ending are not generated (single-line reference editor)",
                 "layer 5: different Input OBJECTS with the same hash (a new Vt100Input on the same fd for every "
                 "prompt(), as the prompt() shortcut does) share the store but not the parser: bytes of an incomplete "
                 "escape sequence or an unfinished paste left in the old object's parser at accept time are not "
                 "carried over - observed, outside the property's 'same input'; not modelled",
                 "exceptions escaping a handler (process_keys: reset() replaces the queue, so the keys queued behind "
                 "the raising key are dropped, then the exception goes to the loop's handler and a nested 'Press "
                 "ENTER' prompt reads the input): handler code that raises is outside the property's quantifier; "
                 "run_in_terminal / suspend, Application.exit() from a background task, erase_when_done, pre_run "
                 "callables that feed keys, accept_default are not modelled",
                 "layer 6: one application at a time per input (the `previous` callback of nested attaches is "
                 "modelled but nesting is never generated); what a stale callback would do with the keys it reads is "
                 "abstracted to a `lost` ledger (proved empty); the CPR_TIMEOUT timer that turns UNKNOWN into "
                 "NOT_SUPPORTED is not modelled",
                 "OS pipe, thread and event-loop scheduling: sampled by the e2e cases, not proved"]

BASE = 0x110000
SPECIAL = {
    "ENTER": (b"\r", -1), "CJ": (b"\n", -4), "CC": (b"\x03", -2),
    "BS": (b"\x7f", BASE + 0), "DEL": (b"\x1b[3~", BASE + 1),
    "LEFT": (b"\x1b[D", BASE + 2), "LEFT2": (b"\x1bOD", BASE + 2), "RIGHT": (b"\x1b[C", BASE + 3),
    "HOME": (b"\x1b[H", BASE + 4), "END": (b"\x1b[F", BASE + 5),
    "CK": (b"\x0b", BASE + 6), "CU": (b"\x15", BASE + 7), "CA": (b"\x01", BASE + 8),
    "CE": (b"\x05", BASE + 9), "CB": (b"\x02", BASE + 10), "CF": (b"\x06", BASE + 11),
    # second layer (key buffer): prefix keys
    "CX": (b"\x18", BASE + 13), "CSPACE": (b"\x00", BASE + 14),
    # c-d: EOFError on an empty buffer, delete-char otherwise (state dependent: second layer only)
    "CD": (b"\x04", BASE + 15),
}
ESC = BASE + 12
KEY_CODE = gen_c17.key_codes()          # the same table that generates lean/Ptk/Gen/C17.lean
PASTE_BASE = gen_c17.PASTE_BASE
enc_text = gen_c17.enc_text
PASTE_START, PASTE_END = b"\x1b[200~", b"\x1b[201~"
try:
    sys.set_int_max_str_digits(0)       # a paste key code is a big number
except AttributeError:
    pass


def read_count() -> int:
    """how many bytes one `PosixStdinReader.read()` returns at most (1024 today), from the code"""
    import inspect
    from prompt_toolkit.input.posix_utils import PosixStdinReader
    try:
        return int(inspect.signature(PosixStdinReader.read).parameters["count"].default)
    except Exception:  # noqa
        return 1024


READ_COUNT = read_count()
FIN = ("ENTER", "CJ", "CC", "EENTER")
WATCHDOG_S = float(os.environ.get("VERIF_C17_WATCHDOG", "10"))


def watchdog_s(case) -> float:
    """per prompt; long lines get more time (the machine may be heavily loaded)"""
    n = len(case.get("script") or ())
    return WATCHDOG_S + 0.02 * n


def tok_bytes(t: str) -> bytes:
    if t.startswith("CPR:"):
        return b"\x1b[" + t[4:].encode() + b"R"
    if t == "EENTER":                      # escape enter: two key presses, one binding
        return b"\x1b\r"
    if t.startswith("EX:"):                # escape + a character without binding
        return b"\x1b" + t[3:].encode("utf-8")
    if t.startswith("EARG:"):              # escape digit: numeric argument
        return b"\x1b" + t[5:].encode()
    if t.startswith("PASTE:"):             # bracketed paste: ONE key press carrying the text
        return PASTE_START + t[6:].encode("utf-8") + PASTE_END
    if t in SPECIAL:
        return SPECIAL[t][0]
    assert len(t) == 1, t
    return t.encode("utf-8")


def tok_code(t: str) -> int:
    if t.startswith("CPR:"):
        return -3
    if t.startswith("PASTE:"):
        return PASTE_BASE + enc_text(t[6:])
    if t in SPECIAL:
        return SPECIAL[t][1]
    return ord(t)


def tok_codes(t: str):
    """key presses of one token (second layer: escape sequences of two key presses)"""
    if t == "EENTER":
        return [ESC, -1]
    if t.startswith("EX:"):
        return [ESC, ord(t[3:])]
    if t.startswith("EARG:"):
        return [ESC, ord(t[5:])]
    return [tok_code(t)]


def item_bytes(it) -> bytes:
    """a W item: a token, or the first (`H`) / remaining (`T`) bytes of a token"""
    if isinstance(it, str):
        return tok_bytes(it)
    kind, tok, j = it
    b = tok_bytes(tok)
    return b[:j] if kind == "H" else b[j:]


def item_tokens(items):
    """the tokens that are complete once these items have been read"""
    return [it if isinstance(it, str) else it[1] for it in items if isinstance(it, str) or it[0] == "T"]


def typed_text(t: str):
    """characters a token may legitimately put into the line"""
    if len(t) == 1:
        return [t]
    if t.startswith("EX:"):
        return [t[3:]]
    if t.startswith("PASTE:"):
        return list(paste_shown(t[6:]))
    return []


def paste_shown(text: str) -> str:
    """what a paste puts into the line: the pasted text with `\\n` line endings"""
    return text.replace("\r\n", "\n").replace("\r", "\n")


def kp_code(kp) -> int:
    if kp is _Flush:
        return BASE + 998
    k = kp.key
    if k == Keys.BracketedPaste:
        return PASTE_BASE + enc_text(kp.data)
    if k in KEY_CODE:
        return KEY_CODE[k]
    if isinstance(k, str) and not isinstance(k, Keys) and len(k) == 1:
        return ord(k)
    return BASE + 999


def enc_keys(codes) -> str:
    codes = list(codes)
    return " ".join([str(len(codes))] + [str(c) for c in codes])


def enc_res(results) -> str:
    return " ".join([str(len(results))] + [f"{kind}:{enc_str(text)}" for kind, text in results])


# ------------------------------------------------------------------ real code: stepper
class FakeTty(io.StringIO):
    """a terminal that swallows what is drawn but says it is a tty: Vt100_Output on it answers
    `responds_to_cpr`, so the renderer sends CPR requests and the exit path waits for the answers"""
    encoding = "utf-8"

    def isatty(self):
        return True


CPR_WAIT_S = 0.08      # `wait_for_cpr_responses(timeout=1)` shortened (a timer value, not logic)


def make_session(inp, case, **kw):
    if case.get("out") == "cpr":
        os.environ.pop("PROMPT_TOOLKIT_NO_CPR", None)
        out = Vt100_Output(FakeTty(), lambda: Size(rows=40, columns=80), term="xterm")
        assert out.responds_to_cpr
    elif case.get("out") == "cprseen":
        # a vt100 output that is NOT a tty: it never answers a cursor-position request, the renderer
        # starts with cpr_support = NOT_SUPPORTED; a CPR report on the INPUT flips that to SUPPORTED and
        # from then on every start sends a request that stays unanswered (also after the run)
        out = Vt100_Output(io.StringIO(), lambda: Size(rows=40, columns=80), term="xterm")
        assert not out.responds_to_cpr
    else:
        out = DummyOutput()
    if case.get("val"):
        kw["validator"] = make_validator(case["val"])
        # (with the default, an asynchronous validation runs after every change and may or may not have
        #  cached its verdict when Enter is processed: whether a rejected Enter moves the cursor would
        #  then depend on the timing)
        kw["validate_while_typing"] = False
    session = PromptSession(input=inp, output=out, **kw)
    if case.get("out") == "cpr":
        r = session.app.renderer
        r.CPR_TIMEOUT = 100000          # never decide "terminal does not support CPR" in a test
        orig = r.wait_for_cpr_responses
        r.wait_for_cpr_responses = lambda timeout=1: orig(timeout=CPR_WAIT_S)
    return session


class Abort(Exception):
    """interrupt_exception used where a KeyboardInterrupt would tear down the harness' own loop"""


class Eof(Exception):
    """eof_exception of the sessions (c-d on an empty buffer); the harness itself ends prompts that
    are still waiting at the end of a schedule with a plain EOFError, which is not a result"""


def valid_text(val, text: str) -> bool:
    """the validators of the cases, by number (the model's `Emacs.valid`)"""
    if val == 1:
        return text != ""
    if val == 2:
        return "x" not in text
    return True


def make_validator(val):
    from prompt_toolkit.validation import Validator
    return Validator.from_callable(lambda t: valid_text(val, t), error_message="rejected",
                                   move_cursor_to_end=(val == 2))


class _Run:
    """result of one real execution (shared by impl_lines and oracle)"""
    def __init__(self):
        self.lines = []
        self.results = []       # (kind, text)
        self.leftover = []      # key codes (no CPRs)
        self.notes = []         # oracle observations made while stepping


def _typeahead_peek(inp):
    return list(_typeahead._buffer[inp.typeahead_hash()])


def _drain(inp):
    """everything that is still unconsumed for this input: typeahead store, pipe, parser"""
    keys = list(_typeahead.get_typeahead(inp))
    for _ in range(10000):
        if not select.select([inp.fileno()], [], [], 0)[0]:
            break
        keys += inp.read_keys()
    keys += inp.flush_keys()
    return keys


async def _step_async(case) -> _Run:
    run = _Run()
    loop = asyncio.get_running_loop()
    k = case["k"]
    with create_pipe_input() as inp:
        session = make_session(inp, case, interrupt_exception=Abort, eof_exception=Eof)
        app = session.app
        fd = inp.fileno()
        cpr_out = case.get("out") == "cpr"
        in_wait = [False]
        vclock = case.get("vclock")
        emitted = []
        if vclock:
            app.ttimeoutlen = vclock / 1000.0
            _rk, _fk = inp.read_keys, inp.flush_keys

            def _rec(keys):
                emitted.extend(kp_code(x) for x in keys)
                return keys
            inp.read_keys = lambda: _rec(_rk())
            inp.flush_keys = lambda: _rec(_fk())
        limit = [1024]
        pipe_toks = []                      # tokens written and not yet read: [token, bytes left]
        orig_read = inp.stdin_reader.read

        def limited_read(count: int = 1024) -> str:
            # the OS may return fewer bytes than asked for: `R n` delivers n keys
            before = inp.stdin_reader.closed
            if not select.select([fd], [], [], 0)[0]:
                return orig_read(count)
            n = min(count, limit[0])
            data = orig_read(n)
            # bookkeeping: bytes consumed from the pipe
            left = n
            while left > 0 and pipe_toks:
                if pipe_toks[0][1] <= left:
                    left -= pipe_toks[0][1]
                    pipe_toks.pop(0)
                else:
                    pipe_toks[0][1] -= left
                    left = 0
            return data

        inp.stdin_reader.read = limited_read
        layer_b = case.get("layer") == "B"
        layer_p = case.get("layer") == "P"
        layer_a = case.get("layer") == "A"
        if layer_b:
            # the `timeoutlen` timer fires only inside a T event (which sleeps); nothing else sleeps
            app.timeoutlen = 0.001
        if layer_p:
            # chunk boundaries inside escape sequences / paste marks: no flush timer may decide anything
            # (a stalled machine must not turn a pending ESC into an Escape key)
            app.ttimeoutlen = 100000.0
            app.timeoutlen = None
        task = None
        last_cb = None
        typed_chars = set()
        frozen = None                       # (text, cursor) at the moment the result was set

        def done_kind():
            f = app.future
            if f is None or not f.done():
                return "N"
            if isinstance(f.exception(), Eof):
                return "-5"
            return "-2" if f.exception() is not None else "-1"

        def observe():
            running = bool(app._is_running)
            if running:
                b = session.default_buffer
                buf = f"{enc_str(b.text)} {b.cursor_position}"
            else:
                buf = "- -"
            q = [kp_code(x) for x in app.key_processor.input_queue]
            ta = [kp_code(x) for x in _typeahead_peek(inp)]
            if layer_b:
                a = app.key_processor.arg
                a = "-" if not running else "N" if a is None else str(int(a))
                kb = f"arg={a} kb={enc_keys(kp_code(x) for x in app.key_processor.key_buffer)} "
            else:
                kb = ""
            exw = "" if layer_b else f"ex={int(in_wait[0])} w={len(app.renderer._waiting_for_cpr_futures)} "
            pz = ""
            if layer_p:
                vp = inp.vt100_parser
                inpaste = bool(vp._in_bracketed_paste)
                fr = vp._input_parser.gi_frame
                pre = fr.f_locals.get("prefix", "") if fr is not None else "?"
                pz = (f" pm={int(inpaste)} pb={enc_str(vp._paste_buffer) if inpaste else '-'} "
                      f"pre={enc_str(pre)}")
            if layer_a:
                from prompt_toolkit.renderer import CPR_Support
                try:
                    rh = loop._selector.get_key(fd).data[0]
                    rd = rh is not None and not rh._cancelled
                except (KeyError, ValueError):
                    rd = False
                pz = (f" rd={int(rd)} cs={int(app.renderer.cpr_support == CPR_Support.SUPPORTED)} lost=0")
            run.lines.append(f"run={int(running)} {exw}done={done_kind()} buf={buf} {kb}q={enc_keys(q)} "
                             f"ta={enc_keys(ta)} res={enc_res(run.results)}{pz}")
            if app.is_done and app.key_processor.key_buffer:
                run.notes.append(("key buffer | keys left in the key buffer of a finished application",
                                  str([kp_code(x) for x in app.key_processor.key_buffer])))
            # --- property observations on the real objects
            nonlocal frozen
            if running:
                b = session.default_buffer
                if app.is_done:
                    if frozen is None:
                        frozen = (b.text, b.cursor_position)
                    elif frozen != (b.text, b.cursor_position):
                        run.notes.append(("accepted line | changed after the accepting key",
                                          f"{frozen} -> {(b.text, b.cursor_position)}"))
                    if -3 in q:
                        run.notes.append(("process_keys | CPR response left in the queue after exit", str(q)))
                else:
                    frozen = None
                    if q:
                        run.notes.append(("process_keys | keys stuck in input_queue while not done", str(q)))
                if any(c not in typed_chars for c in b.text):
                    run.notes.append(("buffer | text that was never typed (CPR as text?)", repr(b.text)))
            else:
                frozen = None
            if -3 in ta:
                run.notes.append(("typeahead | CPR response stored as type-ahead", str(ta)))

        async def collect():
            nonlocal task
            try:
                if vclock:
                    # the loop's clock stands still: spin instead of waiting for a timeout
                    for _ in range(3000):
                        if task.done():
                            break
                        await asyncio.sleep(0)
                    if not task.done():
                        raise asyncio.TimeoutError()
                r = await asyncio.wait_for(task, WATCHDOG_S)
                run.results.append((-1, r))
            except Abort:
                run.results.append((-2, session.default_buffer.text))
            except Eof:
                run.results.append((-5, session.default_buffer.text))
            except asyncio.TimeoutError:
                run.results.append((-9, "TIMEOUT"))
            except BaseException as e:  # noqa
                run.results.append((-9, "EXC:" + type(e).__name__))
            task = None

        if layer_p:
            for t in case["script"]:
                typed_chars.update(typed_text(t))
        observe()
        for ev in case["events"]:
            op = ev[0]
            if op == "W" and layer_p:
                inp.send_bytes(ev[1].encode("utf-8"))
            elif op == "R" and layer_p:
                # `stdin_reader.read()` returns at most ev[1] bytes this time
                limit[0] = max(1, min(READ_COUNT, ev[1]))
                cb = _vt100._current_callbacks.get((loop, fd)) or last_cb
                if cb is not None:
                    try:
                        cb()
                    except Exception as e:  # noqa
                        run.notes.append(("read_from_input | raised " + type(e).__name__, str(e)[:200]))
                        run.lines.append("exception in read_from_input: " + type(e).__name__)
                limit[0] = READ_COUNT
            elif op == "W":
                for it in ev[1]:
                    bs = item_bytes(it)
                    pipe_toks.append([it, len(bs)])
                for t in item_tokens(ev[1]):
                    typed_chars.update(typed_text(t))
                inp.send_bytes(b"".join(item_bytes(it) for it in ev[1]))
            elif op == "S":
                if task is None and len(run.results) < k:
                    frozen = None
                    task = loop.create_task(session.prompt_async())
                    await asyncio.sleep(0)          # first step of the task: runs up to `await f`
                    last_cb = _vt100._current_callbacks.get((loop, fd)) or last_cb
                    if not app._is_running:         # result was already set by the type-ahead
                        await collect()
            elif op == "L":
                # the event loop turns: IT calls the readers it has registered (nobody else does); an
                # application whose result is set runs to its end
                for _ in range(6):
                    await asyncio.sleep(0)
                if task is not None and (task.done() or app.is_done or not app._is_running):
                    await collect()
            elif op == "R":
                n = ev[1]
                nbytes = sum(b for _, b in pipe_toks[:n])
                limit[0] = max(1, min(1024, nbytes)) if n < len(pipe_toks) else 1024
                cb = _vt100._current_callbacks.get((loop, fd)) or (None if layer_a else last_cb)
                if cb is not None:
                    try:
                        cb()
                    except Exception as e:  # noqa  (e.g. "Return value already set")
                        run.notes.append(("read_from_input | raised " + type(e).__name__,
                                          str(e)[:200]))
                        run.lines.append("exception in read_from_input: " + type(e).__name__)
                limit[0] = 1024
                if vclock and not app.is_done:
                    await asyncio.sleep(0)      # the new flush task starts its sleep at this time
            elif op == "F":
                if task is not None and app.is_done and app._is_running:
                    if cpr_out:
                        # `await f` returns; the exit path runs up to the CPR wait (or to its end)
                        for _ in range(20):
                            await asyncio.sleep(0)
                            if not app._is_running:
                                break
                        if task.done() or not app.renderer.waiting_for_cpr:
                            await collect()
                        else:
                            in_wait[0] = True
                    else:
                        await collect()
            elif op == "A":
                # virtual time passes; the loop runs the timers that are due
                loop.vt += ev[1] / 1000.0
                for _ in range(4):
                    await asyncio.sleep(0)
            elif op == "E":
                # the CPR wait ends (answers, or its timeout); whatever is readable is read first
                if task is not None and in_wait[0]:
                    await collect()
                    in_wait[0] = False
            elif op == "T":
                # let the key processor's flush timer (timeoutlen = 1 ms here) fire; when the
                # flushed key ends the application, the application finishes
                if task is not None and not app.is_done:
                    ft = app.key_processor._flush_wait_task
                    if ft is not None and not ft.done():
                        # (waiting for the timer task itself: no race with a stalled machine)
                        await asyncio.wait({ft}, timeout=WATCHDOG_S)
                    if app.is_done or not app._is_running:
                        await collect()
            observe()
        run.open_prompt = task is not None and app._is_running
        if task is not None:
            # prompt still waiting for input: end it (not part of the comparison)
            if app.future is not None and not app.is_done and app._is_running:
                app.exit(exception=EOFError())
            try:
                if vclock:
                    for _ in range(3000):
                        if task.done():
                            break
                        await asyncio.sleep(0)
                else:
                    await asyncio.wait_for(task, WATCHDOG_S)
            except BaseException:  # noqa
                pass
        inp.stdin_reader.read = orig_read
        if vclock:
            inp.read_keys, inp.flush_keys = _rk, _fk
            run.lines.append("out=" + enc_keys(emitted))
        run.leftover = [c for c in (kp_code(x) for x in _drain(inp)) if c != -3]
    return run


# ------------------------------------------------------------------ real code: end to end
def _split(data: bytes, cuts):
    out, a = [], 0
    for c in cuts:
        out.append(data[a:c])
        a = c
    out.append(data[a:])
    return [x for x in out if x]


def _chunks_of(case):
    toks = case["script"]
    if case["mode"] in ("threadbytes", "asyncbytes", "pause") or case.get("layer") == "P":
        return _split(b"".join(tok_bytes(t) for t in toks), case["cuts"])
    # cuts are token indices
    out, a = [], 0
    for c in list(case["cuts"]) + [len(toks)]:
        if c > a:
            out.append(b"".join(tok_bytes(t) for t in toks[a:c]))
        a = max(a, c)
    return out


def _e2e_sync(case) -> _Run:
    run = _Run()
    k = case["k"]
    mode = case["mode"]
    chunks = _chunks_of(case)
    delays = case.get("delays") or [0]
    with create_pipe_input() as inp:
        session = make_session(inp, case, eof_exception=Eof)
        app = session.app
        if case.get("tt") is not None:
            app.ttimeoutlen = case["tt"]
        read_times = []
        if mode == "pause":
            # real time, DEFAULT ttimeoutlen: remember when the input object delivered something
            _rk0 = inp.read_keys

            def _timed_read_keys():
                keys = _rk0()
                read_times.append(time.monotonic())
                return keys
            inp.read_keys = _timed_read_keys
        writer = None
        if mode == "pre":
            for c in chunks:
                inp.send_bytes(c)
        else:
            def w():
                for i, c in enumerate(chunks):
                    d = delays[i % len(delays)]
                    if d:
                        time.sleep(d / 1000.0)
                    try:
                        inp.send_bytes(c)
                    except OSError:
                        return
            writer = threading.Thread(target=w, daemon=True)
            writer.start()
        for i in range(k):
            def wd():
                loop = app.loop
                if loop is not None:
                    def stop():
                        if app.future is not None and not app.future.done():
                            app.exit(exception=TimeoutError())
                    try:
                        loop.call_soon_threadsafe(stop)
                    except RuntimeError:
                        pass
            timer = threading.Timer(watchdog_s(case), wd)
            timer.daemon = True
            timer.start()
            try:
                # (in_thread: the application runs in a thread of its own with its own event loop;
                #  the type-ahead store is the same module-level dict)
                r = session.prompt(in_thread=bool(case.get("in_thread")))
                run.results.append((-1, r))
            except KeyboardInterrupt:
                run.results.append((-2, session.default_buffer.text))
            except Eof:
                run.results.append((-5, session.default_buffer.text))
            except TimeoutError:
                run.results.append((-9, "TIMEOUT"))
            except BaseException as e:  # noqa
                run.results.append((-9, "EXC:" + type(e).__name__))
            finally:
                timer.cancel()
            pd = case.get("pdelay") or 0
            if pd:
                time.sleep(pd / 1000.0)
        if writer is not None:
            writer.join(watchdog_s(case) * 2)
        if mode == "pause":
            inp.read_keys = _rk0
            run.maxgap = max([b - a for a, b in zip(read_times, read_times[1:])] or [0.0])
        run.leftover = [c for c in (kp_code(x) for x in _drain(inp)) if c != -3]
    return run


MAX_REAL_GAP_S = 0.4      # a real-time case counts only when no two reads were further apart than this


def _e2e_pause(case) -> _Run:
    """the writer pauses `pause` ms inside escape sequences; ttimeoutlen is NOT overridden.  Only the
    lower side of the pause matters for the property (well below the 500 ms default); when the machine
    was so slow that two reads ended up more than 400 ms apart the attempt is repeated, and after three
    such attempts the case is not counted (the reference result is reported)"""
    for _ in range(3):
        run = _e2e_sync(case)
        if getattr(run, "maxgap", 0.0) <= MAX_REAL_GAP_S:
            return run
    run = _Run()
    run.results, run.leftover = expected(case["script"], case["k"])
    run.skipped = True
    return run


async def _e2e_gap(case) -> _Run:
    """k `prompt_async()` calls on ONE event loop; chunk i is written strictly BETWEEN prompt i-1 and
    prompt i (after the former returned, before the latter starts), and the loop turns in between"""
    run = _Run()
    k = case["k"]
    with create_pipe_input() as inp:
        session = make_session(inp, case, interrupt_exception=Abort, eof_exception=Eof)
        for i in range(k):
            if i < len(case["gapchunks"]):
                inp.send_bytes(b"".join(tok_bytes(t) for t in case["gapchunks"][i]))
            for _ in range(4):
                await asyncio.sleep(0)
            await asyncio.sleep(case.get("gapsleep", 0) / 1000.0)
            try:
                r = await asyncio.wait_for(session.prompt_async(), watchdog_s(case))
                run.results.append((-1, r))
            except Abort:
                run.results.append((-2, session.default_buffer.text))
            except Eof:
                run.results.append((-5, session.default_buffer.text))
            except asyncio.TimeoutError:
                run.results.append((-9, "TIMEOUT"))
            except BaseException as e:  # noqa
                run.results.append((-9, "EXC:" + type(e).__name__))
        run.leftover = [c for c in (kp_code(x) for x in _drain(inp)) if c != -3]
    return run


async def _e2e_async(case) -> _Run:
    run = _Run()
    k = case["k"]
    chunks = _chunks_of(case)
    delays = case.get("delays") or [0]
    with create_pipe_input() as inp:
        session = make_session(inp, case, interrupt_exception=Abort, eof_exception=Eof)
        if case.get("tt") is not None:
            session.app.ttimeoutlen = case["tt"]

        async def w():
            for i, c in enumerate(chunks):
                d = delays[i % len(delays)]
                await asyncio.sleep(d / 1000.0)
                inp.send_bytes(c)
        wt = asyncio.ensure_future(w())
        for i in range(k):
            try:
                r = await asyncio.wait_for(session.prompt_async(), watchdog_s(case))
                run.results.append((-1, r))
            except Abort:
                run.results.append((-2, session.default_buffer.text))
            except Eof:
                run.results.append((-5, session.default_buffer.text))
            except asyncio.TimeoutError:
                run.results.append((-9, "TIMEOUT"))
            except BaseException as e:  # noqa
                run.results.append((-9, "EXC:" + type(e).__name__))
        try:
            await asyncio.wait_for(wt, watchdog_s(case) * 2)
        except BaseException:  # noqa
            pass
        run.leftover = [c for c in (kp_code(x) for x in _drain(inp)) if c != -3]
    return run


# ------------------------------------------------------------------ real code: several inputs, one store
class _PipeCtl:
    """one pipe input whose `stdin_reader.read` can be told how many key presses to deliver"""

    def __init__(self, inp):
        self.inp = inp
        self.fd = inp.fileno()
        self.limit = READ_COUNT
        self.toks = []                      # [token, bytes left] written and not yet read
        self._orig = inp.stdin_reader.read
        inp.stdin_reader.read = self._read

    def _read(self, count: int = 1024) -> str:
        if not select.select([self.fd], [], [], 0)[0]:
            return self._orig(count)
        n = min(count, self.limit)
        data = self._orig(n)
        left = n
        while left > 0 and self.toks:
            if self.toks[0][1] <= left:
                left -= self.toks[0][1]
                self.toks.pop(0)
            else:
                self.toks[0][1] -= left
                left = 0
        return data

    def write(self, toks):
        for t in toks:
            self.toks.append([t, len(tok_bytes(t))])
        self.inp.send_bytes(b"".join(tok_bytes(t) for t in toks))

    def set_keys(self, n):
        nbytes = sum(b for _, b in self.toks[:n])
        self.limit = max(1, min(READ_COUNT, nbytes)) if n < len(self.toks) else READ_COUNT

    def restore(self):
        self.inp.stdin_reader.read = self._orig


async def prompt_in_own_app_session(session, inp):
    """applications that run at the same time need an AppSession each (`get_app()` is a field of the
    current AppSession): the documented way to serve several inputs from one event loop"""
    from prompt_toolkit.application.current import create_app_session
    with create_app_session(input=inp, output=DummyOutput()):
        return await session.prompt_async()


async def _step_multi_async(case) -> _Run:
    """two pipe inputs A/B (different type-ahead hashes), two PromptSessions per input (the store is
    keyed by the input, not by the session), all in one event loop; events carry the input index"""
    run = _Run()
    run.mres = [[], []]
    run.mleft = [[], []]
    loop = asyncio.get_running_loop()
    ks = case["ks"]
    with create_pipe_input() as inp_a, create_pipe_input() as inp_b:
        inps = [inp_a, inp_b]
        ctl = [_PipeCtl(i) for i in inps]
        sessions = [[PromptSession(input=i, output=DummyOutput(), interrupt_exception=Abort) for _ in range(2)]
                    for i in inps]
        cur = [None, None]                  # the session whose prompt runs on this input
        tasks = [None, None]
        last_cb = [None, None]
        typed = [set(), set()]
        if inp_a.typeahead_hash() == inp_b.typeahead_hash():
            run.notes.append(("typeahead | two different pipe inputs file their type-ahead under the same hash",
                              inp_a.typeahead_hash()))

        def obs_one(i):
            sess = cur[i]
            app = sess.app if sess is not None else None
            running = bool(app is not None and app._is_running)
            if running:
                b = sess.default_buffer
                buf = f"{enc_str(b.text)} {b.cursor_position}"
                f = app.future
                done = "N" if f is None or not f.done() else ("-2" if f.exception() is not None else "-1")
                q = [kp_code(x) for x in app.key_processor.input_queue]
                if any(c not in typed[i] for c in b.text):
                    run.notes.append(("buffer | text that was never typed on THIS input", repr(b.text)))
            else:
                buf, done, q = "- -", "N", []
            ta = [kp_code(x) for x in _typeahead_peek(inps[i])]
            return (f"run={int(running)} ex=0 w=0 done={done} buf={buf} q={enc_keys(q)} "
                    f"ta={enc_keys(ta)} res={enc_res(run.mres[i])}")

        def observe():
            nkeys = len(set(x.typeahead_hash() for x in inps) & set(_typeahead._buffer.keys()))
            run.lines.append(f"A[{obs_one(0)}] B[{obs_one(1)}]")

        async def collect(i):
            try:
                r = await asyncio.wait_for(tasks[i], WATCHDOG_S)
                run.mres[i].append((-1, r))
            except Abort:
                run.mres[i].append((-2, cur[i].default_buffer.text))
            except asyncio.TimeoutError:
                run.mres[i].append((-9, "TIMEOUT"))
            except BaseException as e:  # noqa
                run.mres[i].append((-9, "EXC:" + type(e).__name__))
            tasks[i] = None
            cur[i] = None

        observe()
        for ev in case["events"]:
            op, i = ev[0], ev[1]
            if op == "W":
                for t in ev[2]:
                    typed[i].update(typed_text(t))
                ctl[i].write(ev[2])
            elif op == "S":
                # finished applications (on whichever input) leave first: once the new prompt is attached
                # with unread bytes in its pipe the stepper must not await (the loop would read them)
                for j in (0, 1):
                    if tasks[j] is not None and (tasks[j].done() or cur[j].app.is_done
                                                 or not cur[j].app._is_running):
                        await collect(j)
                if tasks[i] is None and len(run.mres[i]) < ks[i]:
                    cur[i] = sessions[i][ev[2] % 2]
                    tasks[i] = loop.create_task(prompt_in_own_app_session(cur[i], inps[i]))
                    await asyncio.sleep(0)
                    last_cb[i] = _vt100._current_callbacks.get((loop, ctl[i].fd)) or last_cb[i]
                    if not cur[i].app._is_running:
                        await collect(i)
            elif op == "R":
                ctl[i].set_keys(ev[2])
                cb = _vt100._current_callbacks.get((loop, ctl[i].fd)) or last_cb[i]
                if cb is not None:
                    try:
                        cb()
                    except Exception as e:  # noqa
                        run.notes.append(("read_from_input | raised " + type(e).__name__, str(e)[:200]))
                ctl[i].limit = READ_COUNT
            elif op == "F":
                if tasks[i] is not None and cur[i].app.is_done and cur[i].app._is_running:
                    await collect(i)
            if op == "F":
                # the stepper has awaited: the loop ran every application whose result is set to its end
                for j in (0, 1):
                    if tasks[j] is not None and (tasks[j].done() or cur[j].app.is_done
                                                 or not cur[j].app._is_running):
                        await collect(j)
            observe()
        for i in (0, 1):
            if tasks[i] is not None:
                app = cur[i].app
                if app.future is not None and not app.is_done and app._is_running:
                    app.exit(exception=EOFError())
                try:
                    await asyncio.wait_for(tasks[i], WATCHDOG_S)
                except BaseException:  # noqa
                    pass
            ctl[i].restore()
            run.mleft[i] = [c for c in (kp_code(x) for x in _drain(inps[i])) if c != -3]
        run.lines.append(f"A[res={enc_res(run.mres[0])} left={enc_keys(run.mleft[0])}] "
                         f"B[res={enc_res(run.mres[1])} left={enc_keys(run.mleft[1])}]")
        run.results = run.mres[0] + run.mres[1]
    return run


_LAST = [None, None]
_HANGS = [0]          # per worker process: prompts that had to be stopped by the watchdog
MAX_HANGS = 6


def real_run(case) -> _Run:
    key = json.dumps(case, sort_keys=True)
    if _LAST[0] == key:
        return _LAST[1]
    if _HANGS[0] >= MAX_HANGS:
        # the tree under test loses accepting keys again and again: do not wait for the watchdog
        # thousands of times, the verdict is already a violation
        run = _Run()
        run.results = [(-9, "TIMEOUT")]
        run.lines = ["skipped: repeated hangs in this worker"]
        _LAST[0], _LAST[1] = key, run
        return run
    if case.get("layer") == "M":
        run = _new_loop_run(_step_multi_async(case))
    elif case["kind"] == "step":
        run = _new_loop_run(_step_async(case), vclock=bool(case.get("vclock")))
    elif case["mode"] == "pause":
        run = _e2e_pause(case)
    elif case["mode"] == "gap":
        run = _new_loop_run(_e2e_gap(case))
    elif case["mode"] in ("async", "cprwait", "asyncbytes"):
        run = _new_loop_run(_e2e_async(case))
    else:
        run = _e2e_sync(case)
    _HANGS[0] += sum(1 for kd, tx in run.results if kd == -9 and tx == "TIMEOUT")
    _LAST[0], _LAST[1] = key, run
    return run


class VLoop(asyncio.SelectorEventLoop):
    """event loop with a virtual clock: `time()` only moves when the harness says so, so every
    timer of the application (ttimeoutlen, timeoutlen, …) fires exactly when the schedule wants"""

    def __init__(self):
        super().__init__()
        self.vt = 1000.0

    def time(self):
        return self.vt


def _new_loop_run(coro, vclock=False):
    loop = VLoop() if vclock else asyncio.new_event_loop()
    try:
        asyncio.set_event_loop(loop)
        return loop.run_until_complete(coro)
    finally:
        try:
            loop.run_until_complete(loop.shutdown_asyncgens())
        finally:
            asyncio.set_event_loop(None)
            loop.close()


# ------------------------------------------------------------------ protocol
def model_lines_m(case):
    out = [f"Minit {case['ks'][0]} {case['ks'][1]}"]
    for ev in case["events"]:
        if ev[0] == "W":
            out.append(f"MW {ev[1]} " + enc_keys(c for t in ev[2] for c in tok_codes(t)))
        elif ev[0] == "S":
            out.append(f"MS {ev[1]}")
        elif ev[0] == "R":
            out.append(f"MR {ev[1]} {ev[2]}")
        else:
            out.append(f"MF {ev[1]}")
    out.append("MEND")
    return out


def model_lines_a(case):
    out = [f"Linit {case['k']} {int(case.get('out') == 'cpr')}"]
    for ev in case["events"]:
        if ev[0] == "W":
            out.append("LW " + enc_keys(c for t in ev[1] for c in tok_codes(t)))
        elif ev[0] == "R":
            out.append(f"LR {ev[1]}")
        elif ev[0] == "L":
            out.append("LT")
        else:
            out.append("L" + ev[0])
    out.append("LEND")
    return out


def model_lines(case):
    if case.get("layer") == "A" and case["kind"] == "step":
        return model_lines_a(case)
    if case.get("layer") == "P":
        return model_lines_p(case)
    if case.get("layer") == "M":
        return model_lines_m(case)
    pre = "B" if case.get("layer") == "B" else ""
    val = case.get("val") or 0
    if pre and val:
        e2e = lambda sched: f"BE2EV {case['k']} {val} " + _sched_tokens(sched)   # noqa: E731
    else:
        e2e = lambda sched: f"{pre}E2E " + str(case["k"]) + _rflag(case, pre) + " " + _sched_tokens(sched)  # noqa: E731
    if case["kind"] == "step":
        out = [f"BinitV {case['k']} {val}" if pre and val else
               f"{pre}init {case['k']}" + ("" if pre else f" {int(case.get('out') == 'cpr')}")]
        for ev in case["events"]:
            if ev[0] == "W":
                out.append(f"{pre}W " + enc_keys(c for t in item_tokens(ev[1]) for c in tok_codes(t)))
            elif ev[0] == "R":
                out.append(f"{pre}R {ev[1]}")
            else:
                out.append(pre + ev[0])
        if case.get("vclock"):
            out.append(_flush_line(case))       # (reply compared with what the input object delivered)
        # after the schedule: what is left unconsumed
        out.append(e2e(case["events"]))
        return out
    return [e2e(case["msched"])]


def _sched_tokens_p(events):
    out = []
    for ev in events:
        if ev[0] == "W":
            out.append("w " + enc_str(ev[1]))
        elif ev[0] == "R":
            out.append(f"r {max(1, min(READ_COUNT, ev[1]))}")
        else:
            out.append(ev[0].lower())
    return " ".join(out)


def model_lines_p(case):
    """fourth layer: the schedule is in CHARACTERS (the step cases are ASCII: 1 byte = 1 character)"""
    if case["kind"] == "step":
        out = [f"Pinit {case['k']}"]
        for ev in case["events"]:
            if ev[0] == "W":
                out.append("PW " + enc_str(ev[1]))
            elif ev[0] == "R":
                out.append(f"PR {max(1, min(READ_COUNT, ev[1]))}")
            else:
                out.append("P" + ev[0])
        out.append(f"PE2E {case['k']} " + _sched_tokens_p(case["events"]))
        return out
    return [f"PE2E {case['k']} " + _sched_tokens_p(case["msched"])]


def _rflag(case, pre):
    return "" if pre else f" {int(case.get('out') == 'cpr')}"


def _sched_tokens(events):
    out = []
    for ev in events:
        if ev[0] == "W":
            out.append("w " + enc_keys(c for t in item_tokens(ev[1]) for c in tok_codes(t)))
        elif ev[0] == "R":
            out.append(f"r {ev[1]}")
        elif ev[0] == "A":
            continue
        else:
            out.append(ev[0].lower())
    return " ".join(out)


def _flush_line(case):
    """third layer: the timed reads / timer looks of the schedule"""
    now, pend, out = 0, [], []
    for ev in case["events"]:
        if ev[0] == "A":
            now += ev[1]
            out.append(f"m {now}")
        elif ev[0] == "W":
            for it in ev[1]:
                if isinstance(it, str):
                    pend += [f"k{c}" for c in tok_codes(it)]
                else:
                    pend.append(("h" if it[0] == "H" else "t") + str(tok_code(it[1])))
        elif ev[0] == "R":
            out.append(f"r {now} {len(pend)} " + " ".join(pend) if pend else f"r {now} 0")
            pend = []
    return f"FL {case['vclock']} " + " ".join(out)


def impl_lines(case):
    run = real_run(case)
    if case.get("layer") == "M":
        return run.lines
    final = f"run=0 res={enc_res(run.results)} left={enc_keys(run.leftover)}"
    if case["kind"] == "step":
        return run.lines + [_step_final(case, run) + (" lost=0" if case.get("layer") == "A" else "")]
    return [final]


def _step_final(case, run):
    # the stepper ends every still-running prompt; the model line reports the state after the
    # schedule, so only complete schedules (generator guarantees it) end with run=0
    return f"run={int(bool(getattr(run, 'open_prompt', False)))} res={enc_res(run.results)} left={enc_keys(run.leftover)}"


# ------------------------------------------------------------------ oracle (independent of the model)
def expected(tokens, k, val=0):
    """The property, restated: the typed keys, cut at the accepting keys, edited by the obvious
    reference editor; CPR reports are not keys.  -> (results, leftover key codes)
    With a validator an Enter on a line it rejects is NOT an accepting key: the line stays, the
    cursor goes where the validator points (start; validator 2: end), typing goes on.  c-d ends the
    prompt (EOFError) on an empty line and deletes the character under the cursor otherwise."""
    results, text, cur = [], [], 0
    i = 0
    n = len(tokens)
    pending_cx = False
    arg = [None]                           # the numeric argument typed with escape-digit

    def count():
        a, arg[0] = arg[0], None
        return 1 if a is None or a >= 1000000 else a

    rejected = [False]                     # the validator has rejected exactly this text (verdict cached)
    snapshot = []
    while i < n and len(results) < k:
        if text != snapshot:
            rejected[0] = False            # a text change forgets the verdict (cursor movements do not)
            snapshot = list(text)
        t = tokens[i]
        i += 1
        if t.startswith("CPR:"):
            continue                       # not a key: argument, pending prefix, everything stays
        if t == "CX":
            if pending_cx:                 # c-x c-x: jump between line start and line end
                count()
                cur = 0 if cur == len(text) else len(text)
            pending_cx = not pending_cx
            continue
        if pending_cx:                     # c-x followed by another key: c-x alone is an ignored key
            count()                        # (its handler uses up the argument)
        pending_cx = False
        if t.startswith("EARG:"):
            d = int(t[5:])
            arg[0] = d if arg[0] is None else arg[0] * 10 + d
            continue
        if len(t) == 1 and t.isdigit() and arg[0] is not None:
            arg[0] = arg[0] * 10 + int(t)
            continue
        if t == "CSPACE":
            count()
            continue                       # (the generator puts c-c right behind it)
        if t.startswith("EX:"):            # escape is ignored (it uses up the argument), the character is typed
            count()
            t = t[3:]
        if t.startswith("PASTE:"):         # the pasted text goes in at the cursor, as text (an Enter inside is text)
            count()
            ins = list(paste_shown(t[6:]))
            text[cur:cur] = ins
            cur += len(ins)
            continue
        if t in ("ENTER", "CJ", "EENTER"):
            if not valid_text(val, "".join(text)):
                count()
                if not rejected[0]:        # the cursor goes to the error position when the validator is asked
                    cur = len(text) if val == 2 else 0
                rejected[0] = True
                continue
            results.append((-1, "".join(text)))
            text, cur = [], 0
            arg[0] = None
        elif t == "CD" and not text:
            results.append((-5, ""))
            text, cur = [], 0
            arg[0] = None
        elif t == "CD":
            del text[cur:cur + count()]
        elif t == "CC":
            results.append((-2, "".join(text)))
            text, cur = [], 0
            arg[0] = None
        elif t == "BS":
            m = min(count(), cur)
            del text[cur - m:cur]
            cur -= m
        elif t == "DEL":
            del text[cur:cur + count()]
        elif t in ("LEFT", "LEFT2", "CB"):
            cur = max(0, cur - count())
        elif t in ("RIGHT", "CF"):
            cur = min(len(text), cur + count())
        elif t in ("HOME", "CA"):
            count()
            cur = 0
        elif t in ("END", "CE"):
            count()
            cur = len(text)
        elif t == "CK":
            count()
            del text[cur:]
        elif t == "CU":
            count()
            del text[:cur]
            cur = 0
        else:
            m = count()
            text[cur:cur] = [t] * m
            cur += m
    left = [c for t in tokens[i:] if not t.startswith("CPR:") for c in tok_codes(t)]
    return results, left


def case_tokens(case):
    if case.get("layer") == "M":
        return [t for ev in case["events"] if ev[0] == "W" for t in ev[2]]
    if case["kind"] == "step" and case.get("layer") != "P":
        return [t for ev in case["events"] if ev[0] == "W" for t in item_tokens(ev[1])]
    return list(case["script"])


def oracle_m(case):
    """several inputs: every input, on its own, satisfies the property for the keys typed on IT"""
    run = real_run(case)
    v, seen = [], set()

    def bad(sig, msg):
        if sig not in seen:
            seen.add(sig)
            v.append({"signature": sig, "msg": msg + f" | results={run.mres!r} leftover={run.mleft!r}"})

    if not hasattr(run, "mres"):
        bad("prompt() | did not return (accepting key lost)", "skipped after repeated hangs")
        return v
    for i in (0, 1):
        toks = [t for ev in case["events"] if ev[0] == "W" and ev[1] == i for t in ev[2]]
        res = run.mres[i]
        exp_res, exp_left = expected(toks, len(res))
        typed = {c for t in toks for c in typed_text(t)}
        name = "AB"[i]
        for j, (kind, text) in enumerate(res):
            if kind == -9:
                bad("prompt() | did not return (accepting key lost)" if text == "TIMEOUT"
                    else "prompt() | raised " + text, f"input {name} prompt #{j + 1}: {text}")
                continue
            if any(c not in typed for c in text):
                bad("typeahead | keys of another input (or untyped text) appear in the line",
                    f"input {name} prompt #{j + 1} returned {text!r}")
            elif j >= len(exp_res):
                bad("prompt() | returned although no accepting key was typed for it", f"input {name} prompt #{j + 1}")
            elif (kind, text) != exp_res[j]:
                bad("prompt() | line differs from the typed line: keys lost, duplicated or misapplied",
                    f"input {name} prompt #{j + 1}: got {(kind, text)!r}, typed {exp_res[j]!r}")
        if len(res) < case["ks"][i]:
            bad("prompt() | did not return (accepting key lost)",
                f"input {name}: {len(res)} of {case['ks'][i]} prompts finished under a complete schedule")
        elif run.mleft[i] != exp_left:
            bad("typeahead | keys after the last accepting key lost, duplicated or reordered",
                f"input {name}: unconsumed keys {run.mleft[i]} != typed {exp_left}")
    for sig, msg in run.notes:
        bad(sig, msg)
    return v


def oracle(case):
    if case.get("layer") == "M":
        return oracle_m(case)
    run = real_run(case)
    toks = case_tokens(case)
    v = []
    seen = set()

    def bad(sig, msg):
        if sig not in seen:
            seen.add(sig)
            v.append({"signature": sig, "msg": msg + f" | results={run.results!r} leftover={run.leftover!r}"})

    nres = len(run.results)
    exp_res, exp_left = expected(toks, nres if case["kind"] == "step" else case["k"], case.get("val") or 0)
    # A flush-timer event in the middle of a schedule legitimately changes what a pending prefix
    # key (c-x) means (that is what `timeoutlen` is for); the reference editor below knows no
    # timers, so for such schedules only the timer-independent parts of the property are checked
    # here (the model/real correspondence still compares these cases exactly).
    timer_sensitive = False
    if case["kind"] == "step" and case.get("layer") == "B" and "CX" in toks:
        body = case["events"][:len(case["events"]) - len(completion_b(case["k"]))]
        timer_sensitive = any(ev[0] == "T" for ev in body)
    typed = {c for t in toks for c in typed_text(t)}
    for i, (kind, text) in enumerate(run.results):
        if kind == -9:
            bad("prompt() | did not return (accepting key lost)" if text == "TIMEOUT"
                else "prompt() | raised " + text, f"prompt #{i + 1}: {text}")
            continue
        if any(c not in typed for c in text):
            bad("prompt() | cursor-position report (or other untyped text) appears in the line",
                f"prompt #{i + 1} returned {text!r}")
        if i >= len(exp_res):
            bad("prompt() | returned although no accepting key was typed for it", f"prompt #{i + 1}")
            continue
        ek, et = exp_res[i]
        if kind != ek:
            bad("prompt() | ended the wrong way (accept vs abort vs EOF)", f"prompt #{i + 1}: {kind} != {ek}")
        elif text != et and timer_sensitive:
            pass
        elif text != et:
            if len(text) < len(et) and _subseq(text, et):
                cls = "keys lost"
            elif len(text) > len(et) and _subseq(et, text):
                cls = "keys duplicated or taken from another line"
            else:
                cls = "keys misapplied"
            if cpr_inside_sequence(toks):
                bad("key sequence | a CPR response between the keys of a key sequence breaks the sequence",
                    f"prompt #{i + 1}: got {text!r}, typed {et!r}")
                continue
            bad(f"prompt() | line differs from the typed line: {cls}",
                f"prompt #{i + 1}: got {text!r}, typed {et!r}")
    if case["kind"] == "e2e" and nres == case["k"] and all(kd != -9 for kd, _ in run.results) \
            and run.leftover != exp_left:
        bad("typeahead | keys after the last accepting key lost, duplicated or reordered",
            f"unconsumed keys {run.leftover} != typed {exp_left}")
    if case["kind"] == "step":
        if nres < case["k"] and case.get("complete"):
            bad("prompt() | did not return (accepting key lost)",
                f"{nres} of {case['k']} prompts finished under a complete schedule")
        elif nres == case["k"] and run.leftover != exp_left:
            bad("typeahead | keys after the last accepting key lost, duplicated or reordered",
                f"unconsumed keys {run.leftover} != typed {exp_left}")
        for sig, msg in run.notes:
            bad(sig, msg)
    return v


def cpr_inside_sequence(toks):
    """a CPR report directly behind a key that waits for a second key (c-x, c-c with a selection)"""
    for j, t in enumerate(toks):
        if t.startswith("CPR:") and j > 0:
            p = j - 1
            while p >= 0 and toks[p].startswith("CPR:"):
                p -= 1
            if p >= 0 and toks[p] in ("CX",):
                return True
    return False


def _subseq(a, b):
    it = iter(b)
    return all(c in it for c in a)


# ------------------------------------------------------------------ generators
def fins(toks):
    return sum(1 for t in toks if t in FIN)


def compositions(n):
    """all ways to cut a sequence of length n into consecutive non-empty chunks (as chunk lengths)"""
    if n == 0:
        yield []
        return
    for bits in itertools.product((0, 1), repeat=n - 1):
        out, cur = [], 1
        for b in bits:
            if b:
                out.append(cur)
                cur = 1
            else:
                cur += 1
        out.append(cur)
        yield out


def completion(k):
    """suffix that lets every remaining prompt run to its end"""
    ev = []
    for _ in range(k + 1):
        ev += [["S"], ["R", 100000], ["F"]]
    return ev


def pattern_events(toks, sizes, pat):
    chunks, a = [], 0
    for s in sizes:
        chunks.append(toks[a:a + s])
        a += s
    ev = []
    if pat == "pre":
        ev += [["W", c] for c in chunks]
    elif pat == "inter":
        ev.append(["S"])
        for c in chunks:
            ev += [["W", c], ["R", 100000], ["F"], ["S"]]
    elif pat == "late":
        ev.append(["S"])
        for c in chunks:
            ev += [["W", c], ["R", 100000]]
    elif pat == "stale":
        # reads between two prompts (through the reader callback of the finished application)
        ev.append(["S"])
        for c in chunks:
            ev += [["W", c], ["F"], ["R", 100000], ["S"], ["R", 100000]]
    return ev


def mk_step(toks_events, k):
    return {"kind": "step", "k": k, "events": toks_events + completion(k), "complete": True}


# ---- virtual clock: chunk boundaries inside escape sequences, gaps measured against ttimeoutlen
VT = 150                       # ttimeoutlen of these cases, in (virtual) milliseconds
SPLITTABLE = ("LEFT", "RIGHT", "DEL", "HOME", "END", "LEFT2")


def mk_vclock(chunks, gaps):
    """chunks: lists of W items; gaps[i] = virtual ms between read i-1 and read i"""
    toks = item_tokens([it for c in chunks for it in c])
    k = fins(toks)
    ev = [["S"]]
    for c, g in zip(chunks, gaps):
        # (one S per accepting key of the chunk and one more: a prompt is running at the next read,
        #  so nothing stays unread in the pipe while virtual time passes)
        ev += [["A", g], ["W", c], ["R", 100000], ["F"]] + [["S"]] * (fins(item_tokens(c)) + 1)
    ev += [["A", 2 * VT]]
    return {"kind": "step", "vclock": VT, "k": k, "events": ev + completion(k), "complete": True}


def split_chunks(rng, toks, nchunks):
    """cut the token list into chunks; a cut may fall inside the escape sequence of a key"""
    n = len(toks)
    cuts = sorted(set(rng.randrange(1, n) for _ in range(nchunks - 1))) if n > 1 else []
    chunks, a = [], 0
    carry = None
    for c in cuts + [n]:
        items = ([carry] if carry else []) + list(toks[a:c])
        carry = None
        # move the cut into the last key of the chunk when that key is an escape sequence
        if c < n and items and isinstance(items[-1], str) and items[-1] in SPLITTABLE and rng.random() < 0.7:
            t = items.pop()
            j = rng.randrange(1, len(tok_bytes(t)))
            items.append(["H", t, j])
            carry = ["T", t, j]
        chunks.append(items)
        a = c
    return chunks


def gaps_for(rng, chunks):
    """any gap after a chunk that ends at a key boundary; less than ttimeoutlen after a chunk that
    ends inside a sequence (the property's "whatever the timing" cannot include a terminal that
    stops in the middle of a sequence for longer than the escape timeout)"""
    gaps, pending = [], False
    for c in chunks:
        if pending:
            gaps.append(rng.choice([int(0.3 * VT), int(0.6 * VT), int(0.7 * VT), int(0.95 * VT)]))
        else:
            gaps.append(rng.choice([0, int(0.4 * VT), int(0.7 * VT), int(0.9 * VT), int(1.3 * VT), 3 * VT]))
        pending = bool(c) and not isinstance(c[-1], str) and c[-1][0] == "H"
    return gaps


# ---- an output that answers CPR requests: the finished application waits for the answers
def completion_cpr(k):
    ev = []
    for _ in range(k + 1):
        ev += [["S"], ["R", 100000], ["F"], ["E"]]
    return ev


def mk_step_cpr(events, k):
    return {"kind": "step", "out": "cpr", "k": k, "events": events + completion_cpr(k), "complete": True}


def pattern_events_cpr(toks, sizes, pat):
    chunks, a = [], 0
    for sz in sizes:
        chunks.append(toks[a:a + sz])
        a += sz
    ev = [["S"]]
    if pat == "during":        # later chunks are read while the finished prompt waits for the answer
        for c in chunks:
            ev += [["W", c], ["R", 100000], ["F"]]
        ev += [["E"]]
    elif pat == "each":        # the wait ends (timeout / answer) before the next chunk
        for c in chunks:
            ev += [["W", c], ["R", 100000], ["F"], ["E"], ["S"]]
    elif pat == "implicit":    # partial read, the rest is read by the loop during the wait
        for c in chunks:
            ev += [["W", c], ["R", 1], ["F"], ["E"], ["S"]]
    elif pat == "pre":
        ev = [["W", c] for c in chunks]
    return ev


def rand_events_cpr(rng, toks, k):
    ev, i = [], 0
    while i < len(toks):
        r = rng.random()
        if r < 0.35:
            n = rng.choice([1, 1, 2, 3, 5, len(toks)])
            ev.append(["W", toks[i:i + n]])
            i += n
        elif r < 0.6:
            ev.append(["R", rng.choice([1, 2, 100000, 100000])])
        elif r < 0.72:
            ev.append(["S"])
        elif r < 0.88:
            ev.append(["F"])
        else:
            ev.append(["E"])
    return ev


def mk_e2e_cprwait(rng, toks, k):
    """every line in its own chunk, a little later than the previous one: line i+1 arrives while
    prompt i (accepted, CPR request unanswered) is still attached to the input"""
    cuts = [j + 1 for j, t in enumerate(toks) if t in FIN and j + 1 < len(toks)]
    case = {"kind": "e2e", "out": "cpr", "mode": "cprwait", "k": k, "script": toks, "cuts": cuts,
            "delays": [rng.choice([15, 25, 35])]}
    sched = [["W", toks]]
    for _ in range(k + 1):
        sched += [["S"], ["R", 100000], ["F"], ["E"]]
    case["msched"] = sched
    return case


# ---- second layer: key sequences of several key presses (key buffer), flush timer
def completion_b(k):
    ev = []
    for _ in range(k + 1):
        ev += [["S"], ["R", 100000], ["T"], ["F"]]
    return ev


def mk_step_b(events, k):
    return {"kind": "step", "layer": "B", "k": k, "events": events + completion_b(k), "complete": True}


def flatten_units(units):
    return [t for u in units for t in u]


def pattern_events_b(units, sizes, pat):
    """units = lists of tokens that the chunking may separate"""
    chunks, a = [], 0
    for sz in sizes:
        chunks.append(flatten_units(units[a:a + sz]))
        a += sz
    ev = []
    if pat == "pre":
        ev += [["W", c] for c in chunks]
    elif pat == "inter":
        ev.append(["S"])
        for c in chunks:
            ev += [["W", c], ["R", 100000], ["F"], ["S"]]
    elif pat == "interT":
        ev.append(["S"])
        for c in chunks:
            ev += [["W", c], ["R", 100000], ["T"], ["F"], ["S"]]
    elif pat == "late":
        ev.append(["S"])
        for c in chunks:
            ev += [["W", c], ["R", 100000]]
    return ev


B_CHARS = "abxzq "


def rand_units_b(rng, nlines, cpr_p):
    """script as units; the accepting unit of a line is Enter, escape-Enter or c-space c-c"""
    units = []
    for _ in range(nlines):
        for _ in range(rng.choice([0, 1, 2, 3, 5])):
            r = rng.random()
            if r < 0.5:
                units.append([rng.choice(B_CHARS)])
            elif r < 0.62:
                units.append(["CX"])
            elif r < 0.66:
                units.append(["CX", "CX"])
            elif r < 0.7:
                units += [["CX"], [f"CPR:{rng.randrange(1, 60)};{rng.randrange(1, 200)}"], ["CX"]]
            elif r < 0.76:
                units.append(["EX:" + rng.choice("qzx")])
            elif r < 0.8:
                # numeric argument, often with a CPR report between the argument and its key
                units.append(["EARG:" + rng.choice("234")])
                if rng.random() < 0.3:
                    units.append(["EARG:" + rng.choice("012")])
                if rng.random() < 0.6:
                    units.append([f"CPR:{rng.randrange(1, 60)};{rng.randrange(1, 200)}"])
                units.append([rng.choice(["x", "z", "BS", "LEFT", "RIGHT", "DEL", "CX", "q"])])
            else:
                units.append([rng.choice(["BS", "LEFT", "RIGHT", "CA", "CE", "HOME", "END", "CB", "CF"])])
        r = rng.random()
        if r < 0.5:
            units.append(["ENTER"])
        elif r < 0.7:
            units.append(["EENTER"])
        elif r < 0.85:
            units.append(["CC"])
        else:
            units += [["CSPACE"], ["CC"]]
    out = []
    for u in units:
        while rng.random() < cpr_p:
            out.append([f"CPR:{rng.randrange(1, 60)};{rng.randrange(1, 200)}"])
        out.append(u)
    return out


def rand_events_b(rng, units):
    """writes at unit boundaries, full reads, the flush timer only right after a read"""
    ev, i = [], 0
    last_read = False
    while i < len(units):
        r = rng.random()
        if r < 0.35:
            n = rng.choice([1, 1, 2, 3, len(units)])
            ev.append(["W", flatten_units(units[i:i + n])])
            i += n
            last_read = False
        elif r < 0.6:
            ev.append(["R", 100000])
            last_read = True
        elif r < 0.7:
            if last_read:
                ev.append(["T"])
                last_read = False
        elif r < 0.85:
            ev.append(["S"])
            last_read = False
        else:
            ev.append(["F"])
            last_read = False
    return ev


def mk_e2e_b(rng, mode, units, val=0):
    toks = flatten_units(units)
    k = lines_of(toks, val) if (val or "CD" in toks) else fins(toks)
    case = {"kind": "e2e", "layer": "B", "mode": mode, "k": k, "script": toks}
    if val:
        case["val"] = val
    if mode == "pre":
        case["cuts"] = []
    else:
        # never cut right behind a key that waits for a second key (no timer may decide the result)
        def pending_before(j):
            real = [t for t in toks[:j] if not t.startswith("CPR:")]
            if not real:
                return False
            if real[-1] == "CX":
                # an even number of c-x in a row is complete (c-x c-x), an odd number waits
                n = 0
                while n < len(real) and real[-1 - n] == "CX":
                    n += 1
                return n % 2 == 1
            return real[-1] == "CSPACE" or (real[-1] == "CC" and len(real) >= 2 and real[-2] == "CSPACE")
        ok = [j for j in range(1, len(toks)) if not pending_before(j)]
        ncut = rng.choice([0, 1, 2, 3, len(toks)])
        case["cuts"] = sorted(set(rng.sample(ok, min(ncut, len(ok))))) if ok else []
        case["delays"] = [rng.choice([0, 0, 0, 1, 1, 2, 3]) for _ in range(rng.randrange(1, 5))]
        case["pdelay"] = rng.choice([0, 0, 1])
    sched = [["W", toks]]
    for _ in range(k + 1):
        sched += [["S"], ["R", 100000], ["T"], ["F"]]
    case["msched"] = sched
    return case


# ---- fourth layer: the byte parser's bracketed-paste mode under chunked reads
P_BODIES = ["x", "x\ry", "\x1b[20", "", "~\x1b[201", "p q", "\r", "1\r\n2"]


def script_bytes(toks) -> bytes:
    return b"".join(tok_bytes(t) for t in toks)


def completion_p(k, nbytes=0):
    ev = []
    for _ in range(k + 1):
        ev += [["S"]] + [["R", 100000]] * (nbytes // READ_COUNT + 2) + [["F"]]
    return ev


def mk_step_p(script, events, k=None):
    k = fins(script) if k is None else k
    n = len(script_bytes(script))
    return {"kind": "step", "layer": "P", "k": k, "script": list(script),
            "events": events + completion_p(k, n), "complete": True}


def pattern_events_p(data: bytes, cuts, pat):
    """data is ASCII here; cuts = byte offsets of the chunk boundaries"""
    chunks = [c.decode("ascii") for c in _split(data, cuts)]
    ev = []
    if pat == "wcut":          # write boundaries = read boundaries; every prompt ends as soon as it can
        ev.append(["S"])
        for c in chunks:
            ev += [["W", c], ["R", 100000], ["F"], ["S"]]
    elif pat == "rcut":        # everything is in the pipe; the READS are short
        ev += [["W", data.decode("ascii")], ["S"]]
        for c in chunks:
            ev += [["R", len(c)], ["F"], ["S"]]
    elif pat == "late":        # the finished prompt keeps reading (keys pile up behind the accepting key)
        ev.append(["S"])
        for c in chunks:
            ev += [["W", c], ["R", 100000]]
    elif pat == "pre":         # written before the first prompt, read in short reads
        ev += [["W", c] for c in chunks] + [["S"]]
        for c in chunks:
            ev += [["R", len(c)]]
    return ev


def marker_cuts(toks):
    """byte offsets strictly inside a paste start / end mark, and the others"""
    inside, off = [], 0
    for t in toks:
        b = tok_bytes(t)
        if t.startswith("PASTE:"):
            inside += [off + j for j in range(1, len(PASTE_START))]
            e = off + len(b) - len(PASTE_END)
            inside += [e + j for j in range(1, len(PASTE_END))]
        off += len(b)
    return inside, off


def rand_body(rng, rich=False):
    r = rng.random()
    if r < 0.35:
        return rng.choice(P_BODIES)
    chars = "abc xyz01\r~[2" + ("\x1b" if rng.random() < 0.3 else "") + ("éß世" if rich else "")
    body = "".join(rng.choice(chars) for _ in range(rng.choice([1, 2, 3, 5, 9, 20])))
    return body.replace("\x1b[201~", "")


def rand_script_p(rng, nlines, rich=False, tail=None):
    """lines of typed characters, editing keys and bracketed pastes; after a paste that contains a
    line ending only characters and Backspace follow in that line (the reference editor is a
    single-line one)"""
    chars = "abcxyz01 -_" + ("éß世✓" if rich else "")
    edits = ["BS", "DEL", "LEFT", "LEFT2", "RIGHT", "HOME", "END", "CK", "CU", "CA", "CE", "CB", "CF"]
    toks = []
    for _ in range(nlines):
        multi = False
        for _ in range(rng.choice([0, 1, 2, 3, 5, 8])):
            r = rng.random()
            if r < 0.25:
                body = rand_body(rng, rich)
                toks.append("PASTE:" + body)
                multi = multi or ("\r" in body or "\n" in body)
            elif r < 0.7 or multi:
                toks.append(rng.choice(chars) if rng.random() < 0.85 or not multi else "BS")
            else:
                toks.append(rng.choice(edits))
        toks.append(rng.choice(["ENTER"] * 6 + ["CJ", "CC"]))
    if tail is None:
        tail = rng.random() < 0.3
    if tail:
        for _ in range(rng.randrange(1, 4)):
            toks.append(rng.choice(chars))
    return toks


def rand_events_p(rng, data: str):
    """random schedule over CHARACTERS (ASCII): writes of any size, reads of any size"""
    ev, i = [], 0
    while i < len(data):
        r = rng.random()
        if r < 0.35:
            n = rng.choice([1, 1, 2, 3, 4, 5, 7, 11, len(data)])
            ev.append(["W", data[i:i + n]])
            i += n
        elif r < 0.65:
            ev.append(["R", rng.choice([1, 1, 2, 3, 4, 5, 6, 9, 100000, 100000])])
        elif r < 0.82:
            ev.append(["S"])
        else:
            ev.append(["F"])
    return ev


def mk_e2e_p(rng, mode, toks, cuts=None, delays=None):
    k = fins(toks)
    data = script_bytes(toks)
    inside, n = marker_cuts(toks)
    case = {"kind": "e2e", "layer": "P", "mode": mode, "k": k, "script": list(toks), "tt": 30.0}
    if mode == "pre":
        case["cuts"] = [] if cuts is None else cuts
    else:
        if cuts is None:
            # mostly inside the paste marks
            ncut = rng.choice([1, 1, 2, 3, 5])
            pool = inside if inside and rng.random() < 0.8 else list(range(1, max(2, n)))
            cuts = sorted({rng.choice(pool) for _ in range(ncut)})
        case["cuts"] = cuts
        # the reader gets time to consume a chunk before the next one arrives (else no read boundary)
        case["delays"] = delays or [rng.choice([0, 2, 4]), rng.choice([3, 5, 8]), rng.choice([2, 5])]
        case["pdelay"] = rng.choice([0, 0, 1])
    text = data.decode("utf-8")
    sched = [["W", text]]
    for _ in range(k + 1):
        sched += [["S"]] + [["R", 100000]] * (len(text) // READ_COUNT + 2) + [["F"]]
    case["msched"] = sched
    return case


def boundary_paste_script(d, where=1, pre="a"):
    """a paste whose end mark starts d bytes before the `where`-th read boundary (1024 bytes)"""
    head = [c for c in pre]
    n0 = len(script_bytes(head)) + len(PASTE_START)
    body = "x" * (where * READ_COUNT - d - n0)
    return head + ["PASTE:" + body, "!", "ENTER", "b", "c", "ENTER"]


def cases_p(tier, rng):
    quick = tier == "quick"
    # ---- exhaustive small scope: every split point of both paste marks (and everything else)
    small = [(["a", "PASTE:x", "ENTER", "b", "ENTER"], ("wcut", "rcut", "late", "pre")),
             (["a", "ENTER", "PASTE:x\ry", "b", "ENTER"], ("wcut", "rcut")),
             (["PASTE:\x1b[20", "c", "ENTER"], ("wcut", "rcut")),
             (["PASTE:", "ENTER", "PASTE:~\x1b[201", "ENTER"], ("wcut",)),
             (["a", "LEFT", "PASTE:p q", "DEL", "CPR:3;7", "ENTER", "PASTE:\r", "z", "CC"], ("wcut", "late"))]
    for toks, pats in small:
        data = script_bytes(toks)
        for c in range(1, len(data)):
            for pat in pats:
                yield mk_step_p(toks, pattern_events_p(data, [c], pat))
        yield mk_step_p(toks, pattern_events_p(data, [], "wcut"))
    # two cuts: both inside the marks of the first script (quick) / all pairs (thorough)
    toks = small[0][0]
    data = script_bytes(toks)
    inside, n = marker_cuts(toks)
    pool = inside if quick else list(range(1, n))
    for i, c1 in enumerate(pool):
        for c2 in pool[i + 1:]:
            yield mk_step_p(toks, pattern_events_p(data, [c1, c2], "rcut" if (c1 + c2) % 2 else "wcut"))
    # byte by byte
    for toks, _ in small[:3]:
        data = script_bytes(toks)
        yield mk_step_p(toks, pattern_events_p(data, list(range(1, len(data))), "rcut"))
        yield mk_step_p(toks, pattern_events_p(data, list(range(1, len(data))), "wcut"))
    # ---- the read boundary of PosixStdinReader (1024 bytes) inside the end mark of a long paste
    for d in range(0, len(PASTE_END) + 1):
        for where in ((1,) if quick else (1, 2)):
            toks = boundary_paste_script(d, where)
            data = script_bytes(toks).decode("ascii")
            yield mk_step_p(toks, [["W", data], ["S"]])
            yield mk_e2e_p(rng, "pre", toks)
    # ---- seeded random step cases
    for _ in range(60 if quick else 1500):
        toks = inject_cpr(rng, rand_script_p(rng, rng.choice([1, 2, 2, 3]), tail=False), p=rng.choice([0, 0, 0.1]))
        k = fins(toks)
        if rng.random() < 0.15:
            k = max(1, k - 1)
        yield mk_step_p(toks, rand_events_p(rng, script_bytes(toks).decode("ascii")), k)
    # ---- end to end: the demo shape with a cut at every position inside both marks
    demo = ["a", "b", "PASTE:pasted text", "!", "ENTER", "n", "e", "x", "t", "LEFT", "LEFT", "x", "ENTER"]
    inside, _ = marker_cuts(demo)
    for j, c in enumerate(inside):
        if quick and j % 2:
            continue
        yield mk_e2e_p(rng, ["threadbytes", "asyncbytes"][j % 4 // 2], demo, cuts=[c], delays=[0, 12])
    # ---- end to end: seeded scripts (multi-byte text too), cuts mostly inside the marks
    for i in range(30 if quick else 600):
        toks = inject_cpr(rng, rand_script_p(rng, rng.choice([1, 2, 3, 4]), rich=True), p=rng.choice([0, 0, 0.1]))
        if not any(t.startswith("PASTE:") for t in toks):
            # (no line ending in this one: line-oriented editing keys may follow)
            toks.insert(0, "PASTE:" + rand_body(rng, True).replace("\r", "").replace("\n", ""))
        yield mk_e2e_p(rng, ["threadbytes", "asyncbytes", "pre"][i % 3], toks)


# ---- fifth layer: two inputs, one type-ahead store
def interleavings(a, b):
    """all merges of two event lists that keep each list's order"""
    if not a:
        yield list(b)
        return
    if not b:
        yield list(a)
        return
    for rest in interleavings(a[1:], b):
        yield [a[0]] + rest
    for rest in interleavings(a, b[1:]):
        yield [b[0]] + rest


def completion_m(ks):
    ev = []
    for _ in range(max(ks) + 1):
        for i in (0, 1):
            ev += [["S", i, 0], ["R", i, 100000], ["F", i]]
    return ev


def mk_step_m(events, ks):
    return {"kind": "step", "layer": "M", "k": sum(ks), "ks": list(ks),
            "events": events + completion_m(ks), "complete": True}


def input_blocks(rng, i, toks, sizes, sess0=0, prefeed=False):
    """the events of one input as BLOCKS: inside a block the stepper never awaits with unread bytes
    in the pipe of a running application (an await lets the event loop read them by itself, at a
    moment the schedule does not control); blocks of the two inputs are interleaved freely"""
    blocks, a, j = [], 0, sess0
    chunks = []
    for sz in sizes:
        chunks.append(toks[a:a + sz])
        a += sz
    if a < len(toks):
        chunks.append(toks[a:])
    first = True
    for c in chunks:
        rd = [["R", i, rng.choice([1, 2])]] if rng.random() < 0.3 else []
        if first and prefeed:
            blocks.append([["W", i, c], ["S", i, j]] + rd + [["R", i, 100000]])
        else:
            if first:
                blocks.append([["S", i, j]])
            blocks.append([["W", i, c]] + rd + [["R", i, 100000]])
        first = False
        if rng.random() < 0.7:
            j += 1
            blocks.append([["F", i]])
            blocks.append([["S", i, j], ["R", i, 100000]])
    return blocks


def cases_m(tier, rng):
    quick = tier == "quick"
    ta = ["a", "ENTER", "b", "ENTER"]
    tb = ["x", "ENTER", "y", "CC"]
    # every interleaving of the blocks of two inputs that both have type-ahead
    ba = [[["S", 0, 0]], [["W", 0, ta], ["R", 0, 100000]], [["F", 0]], [["S", 0, 1]]]
    bb = [[["S", 1, 0]], [["W", 1, tb], ["R", 1, 100000]], [["F", 1]], [["S", 1, 1]]]
    for merged in interleavings(ba, bb):
        yield mk_step_m([e for blk in merged for e in blk], (2, 2))
    # pre-fed inputs, partial reads, alternating sessions, CPR reports: sampled interleavings
    variants = [[4], [2, 2], [1, 3], [1, 1, 2], [3]]
    nsample = 24 if quick else 600
    for _ in range(nsample):
        sa, sb = rng.choice(variants), rng.choice(variants)
        toks_a = inject_cpr(rng, rng.choice([ta, ["a", "b", "ENTER", "ENTER"], ["ENTER", "a", "b", "CC"]]),
                            p=rng.choice([0, 0.2]))
        toks_b = rng.choice([tb, ["x", "y", "ENTER", "x"], ["CJ", "x", "BS", "ENTER"]])
        la = input_blocks(rng, 0, toks_a, sa, rng.randrange(2), rng.random() < 0.3)
        lb = input_blocks(rng, 1, toks_b, sb, rng.randrange(2), rng.random() < 0.3)
        ev, ia, ib = [], 0, 0
        while ia < len(la) or ib < len(lb):
            if ib >= len(lb) or (ia < len(la) and rng.random() < 0.5):
                ev += la[ia]
                ia += 1
            else:
                ev += lb[ib]
                ib += 1
        yield mk_step_m(ev, (fins(toks_a), fins(toks_b)))


# ---- second layer with a validator that rejects lines, and c-d (EOFError on an empty buffer)
def lines_of(toks, val=0):
    """how many prompts the script ends (an Enter that the validator rejects ends none)"""
    return len(expected(toks, 10 ** 9, val)[0])


def mk_step_v(units, events, val):
    toks = flatten_units(units)
    n = lines_of(toks, val)
    k = max(1, n)
    case = {"kind": "step", "layer": "B", "k": k, "events": events + completion_b(k), "complete": n >= k}
    if val:
        case["val"] = val
    return case


def rand_units_v(rng, nlines):
    units = []
    for _ in range(nlines):
        for _ in range(rng.choice([0, 1, 2, 3, 5])):
            r = rng.random()
            if r < 0.55:
                units.append([rng.choice("abxx")])
            elif r < 0.7:
                units.append([rng.choice(["BS", "CA", "CE", "LEFT", "RIGHT", "DEL"])])
            elif r < 0.8:
                units.append(["CD"])
            elif r < 0.9:
                units.append(["ENTER"])            # (maybe rejected: then it is just another key)
            else:
                units.append(["BS"])
        units.append([rng.choice(["ENTER", "ENTER", "ENTER", "EENTER", "CC", "CD"])])
    return units


def cases_v(tier, rng):
    quick = tier == "quick"
    for val, alpha in ((1, [["a"], ["ENTER"], ["CD"], ["BS"]]), (2, [["a"], ["x"], ["ENTER"], ["BS"]]),
                       (0, [["a"], ["ENTER"], ["CD"], ["CA"]])):
        for n in range(1, (3 if quick else 4) + 1):
            for tup in itertools.product(alpha, repeat=n):
                units = list(tup)
                if not any(u[0] in ("ENTER", "CD") for u in units):
                    continue
                comps = list(compositions(n))
                big = n == (3 if quick else 4)
                comps = [comps[0]] if big else ([comps[0], comps[-1]] if n > 1 else comps)
                for sizes in comps:
                    for pat in (("pre",) if big else ("pre", "interT", "late")):
                        if pat == "pre" and len(sizes) > 1:
                            continue
                        yield mk_step_v(units, pattern_events_b(units, sizes, pat), val)
    for _ in range(24 if quick else 800):
        val = rng.choice([0, 1, 2])
        units = rand_units_v(rng, rng.choice([1, 2, 2, 3]))
        yield mk_step_v(units, rand_events_b(rng, units), val)
    for i in range(15 if quick else 500):
        val = rng.choice([0, 1, 2])
        units = rand_units_v(rng, rng.choice([1, 2, 3]))
        if lines_of(flatten_units(units), val) == 0:
            continue
        yield mk_e2e_b(rng, ["pre", "thread", "async"][i % 3], units, val)


# ---- sixth layer: the reader's life cycle on ONE event loop, writes in the gaps between prompts
def completion_a(k):
    ev = []
    for _ in range(k + 1):
        ev += [["S"], ["R", 100000], ["L"], ["F"]]
    return ev


def mk_step_a(events, k, out="cprseen"):
    return {"kind": "step", "layer": "A", "out": out, "k": k, "events": events + completion_a(k), "complete": True}


def gap_events(lines, how):
    """line i is written in the gap before prompt i; `how` says what happens in the gap / in the run"""
    ev = []
    for i, ln in enumerate(lines):
        if how == "gapturn":        # write, the loop turns with nothing running, then the prompt
            ev += [["W", ln], ["L"], ["S"], ["R", 100000], ["F"]]
        elif how == "gapturn2":     # half of the line in the gap, the rest while the prompt runs; the LOOP reads
            h = max(1, len(ln) // 2)
            ev += [["W", ln[:h]], ["L"], ["S"], ["W", ln[h:]], ["L"]]
        elif how == "loopreads":    # the prompt is running, the loop does all the reading and the finishing
            ev += [["S"], ["W", ln], ["L"]]
        elif how == "ahead":        # line i and i+1 before prompt i (type-ahead), turns everywhere
            nxt = lines[i + 1] if i + 1 < len(lines) and i % 2 == 0 else []
            if i % 2 == 0:
                ev += [["W", ln + nxt], ["L"], ["S"], ["L"], ["L"]]
            else:
                ev += [["L"], ["S"], ["L"]]
    return ev


def mk_e2e_gap(rng, lines, sleep_ms=0):
    toks = [t for ln in lines for t in ln]
    k = fins(toks)
    case = {"kind": "e2e", "layer": "A", "out": "cprseen", "mode": "gap", "k": k, "script": toks,
            "gapchunks": [list(ln) for ln in lines], "gapsleep": sleep_ms, "cuts": []}
    case["msched"] = [["W", toks]] + completion(k)
    return case


def cases_a(tier, rng):
    quick = tier == "quick"
    cpr = "CPR:1;1"
    # where the CPR report is (or is not) decides whether the renderer keeps unanswered requests
    scripts = [[[cpr, "a", "ENTER"], ["b", "ENTER"], ["c", "d", "ENTER"]],
               [["a", cpr, "ENTER"], ["b", "ENTER"], ["c", "ENTER"], ["d", "CC"]],
               [["a", "ENTER"], [cpr, "b", "ENTER"], ["c", "ENTER"], ["d", "ENTER"]],
               [["a", "ENTER"], ["b", "ENTER"], ["c", "ENTER"]],
               [[cpr, cpr, "ENTER"], ["ENTER"], ["x", "BS", "y", "ENTER"], ["z", "ENTER"]]]
    for lines in scripts:
        k = fins([t for ln in lines for t in ln])
        for how in ("gapturn", "gapturn2", "loopreads", "ahead"):
            yield mk_step_a(gap_events(lines, how), k)
        yield mk_e2e_gap(rng, lines)
        yield mk_e2e_gap(rng, lines, sleep_ms=3)
    # a long line in the gap: more than one 1024-byte read (the witness of seeded/C17-j)
    long_line = [rng.choice("abcdefgh") for _ in range(2500 if quick else 8000)] + ["ENTER"]
    yield mk_e2e_gap(rng, [[cpr, "o", "n", "e", "ENTER"], ["t", "w", "o", "ENTER"] + long_line])
    yield mk_e2e_gap(rng, [[cpr, "o", "ENTER"], ["t", "ENTER"], long_line])
    # seeded random: scripts with CPR reports, random events incl. loop turns in and between runs
    for _ in range(40 if quick else 800):
        nl = rng.choice([2, 3, 3, 4])
        toks = inject_cpr(rng, rand_script(rng, nl, rich=False, tail=False), p=rng.choice([0.1, 0.2, 0.3]))
        k = fins(toks)
        ev, i = [], 0
        while i < len(toks):
            r = rng.random()
            if r < 0.35:
                n = rng.choice([1, 2, 3, 5, len(toks)])
                ev.append(["W", toks[i:i + n]])
                i += n
            elif r < 0.5:
                ev.append(["R", rng.choice([1, 2, 100000])])
            elif r < 0.7:
                ev.append(["L"])
            elif r < 0.87:
                ev.append(["S"])
            else:
                ev.append(["F"])
        yield mk_step_a(ev, k)
    for _ in range(10 if quick else 200):
        nl = rng.choice([2, 3, 4])
        lines = []
        for j in range(nl):
            ln = [rng.choice("abcxyz") for _ in range(rng.choice([0, 1, 3, 6]))]
            if rng.random() < (0.8 if j == 0 else 0.2):
                ln.insert(rng.randrange(len(ln) + 1), cpr)
            lines.append(ln + [rng.choice(["ENTER", "ENTER", "ENTER", "CC"])])
        yield mk_e2e_gap(rng, lines, sleep_ms=rng.choice([0, 0, 2]))


# ---- real time, DEFAULT ttimeoutlen: the writer pauses well below the default inside a sequence
def mk_e2e_pause(rng, toks, split_toks, pause_ms):
    """cut inside every token of `split_toks` (indices), the writer pauses before the rest"""
    cuts, off = [], 0
    for j, t in enumerate(toks):
        b = tok_bytes(t)
        if j in split_toks and len(b) > 1:
            cuts.append(off + rng.randrange(1, len(b)))
        off += len(b)
    k = fins(toks)
    case = {"kind": "e2e", "mode": "pause", "k": k, "script": list(toks), "cuts": cuts,
            "delays": [0] + [pause_ms] * len(cuts), "pdelay": 0}
    case["msched"] = [["W", toks]] + completion(k)
    return case


def cases_pause(tier, rng):
    quick = tier == "quick"
    cpr = "CPR:12;40"
    scripts = [(["a", "b", "LEFT", "c", "ENTER", "x", "ENTER"], [2]),
               (["a", cpr, "b", "ENTER", "DEL", "y", "ENTER"], [1]),
               (["a", "b", "ENTER", cpr, "HOME", "c", "ENTER"], [3, 4])]
    for toks, idx in scripts:
        for pause in ((150,) if quick else (120, 150, 200)):
            yield mk_e2e_pause(rng, toks, idx, pause)
    for _ in range(2 if quick else 12):
        toks = inject_cpr(rng, rand_script(rng, 2, rich=True, tail=False), p=0.15)
        idx = [j for j, t in enumerate(toks) if (t in SPLITTABLE or t.startswith("CPR:"))]
        idx = rng.sample(idx, min(len(idx), 2))
        if idx:
            yield mk_e2e_pause(rng, toks, sorted(idx), rng.choice([120, 150]))


def rand_script(rng, nlines, rich=True, tail=None):
    chars = "abcxyz01 -_" + ("éß世✓" if rich else "")
    edits = ["BS", "DEL", "LEFT", "LEFT2", "RIGHT", "HOME", "END", "CK", "CU", "CA", "CE", "CB", "CF"]
    toks = []
    for _ in range(nlines):
        for _ in range(rng.choice([0, 1, 2, 3, 5, 8])):
            r = rng.random()
            if r < 0.62:
                toks.append(rng.choice(chars))
            else:
                toks.append(rng.choice(edits) if rich else rng.choice(["BS", "CA", "CE", "CB", "CK"]))
        toks.append(rng.choice(["ENTER"] * 6 + ["CJ", "CJ", "CC"]))
    if tail is None:
        tail = rng.random() < 0.3
    if tail:
        for _ in range(rng.randrange(1, 4)):
            toks.append(rng.choice(chars))
    return toks


def inject_cpr(rng, toks, p=0.15):
    out = []
    for t in toks:
        while rng.random() < p:
            out.append(f"CPR:{rng.randrange(1, 60)};{rng.randrange(1, 200)}")
        out.append(t)
    while rng.random() < p:
        out.append(f"CPR:{rng.randrange(1, 60)};{rng.randrange(1, 200)}")
    return out


def rand_events(rng, toks, k):
    """random schedule: writes in order, reads of random size, starts / finishes anywhere"""
    ev = []
    i = 0
    while i < len(toks):
        r = rng.random()
        if r < 0.35:
            n = rng.choice([1, 1, 2, 3, 5, len(toks)])
            ev.append(["W", toks[i:i + n]])
            i += n
        elif r < 0.6:
            ev.append(["R", rng.choice([1, 1, 2, 3, 100000, 100000])])
        elif r < 0.8:
            ev.append(["S"])
        else:
            ev.append(["F"])
    return ev


def model_sched(rng, toks, k):
    """a seeded schedule for the model side of an e2e case (the real schedule is unknown;
    the model's answer does not depend on it)"""
    style = rng.randrange(3)
    if style == 0:
        ev = [["W", toks]]
    elif style == 1:
        ev = [["S"]]
        i = 0
        while i < len(toks):
            n = rng.choice([1, 2, 3, 7])
            ev += [["W", toks[i:i + n]], ["R", rng.choice([1, 2, 100000])], ["F"], ["S"]]
            i += n
    else:
        ev = rand_events(rng, toks, k)
    return ev + completion(k)


def mk_e2e(rng, mode, toks, k):
    case = {"kind": "e2e", "mode": mode, "k": k, "script": toks}
    data_len = sum(len(tok_bytes(t)) for t in toks)
    if mode == "pre":
        case["cuts"] = []
    elif mode == "threadbytes":
        ncut = rng.choice([1, 2, 3, 5, 8, data_len])
        case["cuts"] = sorted({rng.randrange(1, max(2, data_len)) for _ in range(ncut)})
        case["tt"] = 30.0
    else:
        ncut = rng.choice([0, 1, 2, 3, 5, len(toks)])
        case["cuts"] = sorted({rng.randrange(1, max(2, len(toks))) for _ in range(ncut)})
    if mode != "pre":
        case["delays"] = [rng.choice([0, 0, 0, 1, 1, 2, 3, 5]) for _ in range(rng.randrange(1, 6))]
        case["pdelay"] = rng.choice([0, 0, 0, 1, 3])
    if mode in ("pre", "thread", "threadbytes") and rng.random() < 0.25:
        case["in_thread"] = True           # PromptSession.prompt(in_thread=True)
    case["msched"] = model_sched(rng, toks, k)
    return case


def cases(tier, rng):
    quick = tier == "quick"
    # ---- exhaustive small scope (step cases)
    alpha = ["a", "ENTER", "CPR:3;7", "CJ"] if quick else ["a", "ENTER", "CPR:3;7", "CJ", "b"]
    maxlen = 3 if quick else 4
    for n in range(1, maxlen + 1):
        for tup in itertools.product(alpha, repeat=n):
            toks = list(tup)
            k = fins(toks)
            if k == 0:
                continue
            comps = list(compositions(n))
            if n == 4:
                # all-in-one and one seeded chunking
                comps = [comps[0], comps[rng.randrange(1, len(comps))]]
            elif quick and n == 3:
                comps = [comps[0], comps[-1], comps[rng.randrange(1, len(comps) - 1)]]
            for sizes in comps:
                for pat in ("pre", "inter", "late", "stale"):
                    if pat == "pre" and len(sizes) > 1:
                        continue
                    yield mk_step(pattern_events(toks, sizes, pat), k)
    # ---- fourth layer: bracketed paste under chunked reads
    yield from cases_p(tier, rng)
    # ---- fifth layer: two inputs sharing the type-ahead store
    yield from cases_m(tier, rng)
    # ---- second layer: validators that reject, c-d
    yield from cases_v(tier, rng)
    # ---- sixth layer: one event loop, writes between prompts, a CPR seen and then unanswered requests
    yield from cases_a(tier, rng)
    # ---- real time with the DEFAULT ttimeoutlen: pauses inside sequences well below the default
    yield from cases_pause(tier, rng)
    # ---- random step cases
    nstep = 120 if quick else 1500
    for _ in range(nstep):
        nl = rng.choice([1, 2, 2, 3, 4])
        toks = inject_cpr(rng, rand_script(rng, nl, rich=True), p=rng.choice([0, 0.1, 0.3]))
        k = fins(toks)
        if rng.random() < 0.15:
            k = max(1, k - 1)              # fewer prompts than lines: the rest must stay unconsumed
        yield mk_step(rand_events(rng, toks, k), k)
    # ---- end to end
    ne2e = 160 if quick else 1500
    modes = ["pre", "thread", "threadbytes", "async"]
    for i in range(ne2e):
        mode = modes[i % 4]
        nl = rng.choice([1, 2, 3, 3, 4, 5])
        toks = inject_cpr(rng, rand_script(rng, nl, rich=True), p=rng.choice([0, 0.1, 0.25]))
        k = fins(toks)
        yield mk_e2e(rng, mode, toks, k)
    # ---- virtual clock: bursts of chunks with a boundary inside an escape sequence
    g_all = [int(0.4 * VT), int(0.7 * VT), int(0.95 * VT)]
    for key in (("LEFT", "DEL") if quick else SPLITTABLE):
        for j in range(1, len(tok_bytes(key))):
            for g1 in ([0, int(0.7 * VT)] if quick else [0] + g_all):
                for g2 in g_all:
                    for g3 in g_all:
                        # an earlier chunk, a chunk ending inside the sequence, the rest
                        chunks = [["a"], ["b", ["H", key, j]], [["T", key, j], "X", "ENTER", "c", "d", "ENTER"]]
                        yield mk_vclock(chunks, [g1, g2, g3])
            # nothing before the split sequence / the split right at the start of a prompt
            for g2 in g_all:
                yield mk_vclock([["a", "b", ["H", key, j]], [["T", key, j], "X", "ENTER"]], [0, g2])
                yield mk_vclock([["a", "ENTER", ["H", key, j]], [["T", key, j], "X", "ENTER"]], [int(0.7 * VT), g2])
    nvc = 60 if quick else 1500
    for _ in range(nvc):
        toks = rand_script(rng, rng.choice([1, 2, 2, 3]), rich=True, tail=False)
        toks = [t for t in toks if t != "CJ" or True]
        chunks = split_chunks(rng, toks, rng.choice([2, 3, 4, 5]))
        yield mk_vclock(chunks, gaps_for(rng, chunks))
    # ---- output that answers CPR requests: the CPR wait of the finished application
    c_alpha = ["a", "ENTER", "CPR:3;7"] if quick else ["a", "ENTER", "CPR:3;7", "CJ"]
    for n in range(1, 4):
        for tup in itertools.product(c_alpha, repeat=n):
            toks = list(tup)
            k = fins(toks)
            if k == 0:
                continue
            for sizes in compositions(n):
                for pat in ("pre", "during", "each", "implicit"):
                    if pat == "pre" and len(sizes) > 1:
                        continue
                    if quick and pat == "implicit" and len(sizes) not in (1, n):
                        continue
                    yield mk_step_cpr(pattern_events_cpr(toks, sizes, pat), k)
    ncpr = 50 if quick else 800
    for _ in range(ncpr):
        nl = rng.choice([1, 2, 2, 3])
        toks = inject_cpr(rng, rand_script(rng, nl, rich=True), p=rng.choice([0, 0.1, 0.3]))
        k = fins(toks)
        yield mk_step_cpr(rand_events_cpr(rng, toks, k), k)
    ncw = 16 if quick else 120
    for _ in range(ncw):
        nl = rng.choice([2, 2, 3])
        toks = inject_cpr(rng, rand_script(rng, nl, rich=True, tail=False), p=rng.choice([0, 0, 0.08]))
        yield mk_e2e_cprwait(rng, toks, fins(toks))
    # ---- second layer (key buffer): exhaustive small scope
    b_small = [["a"], ["ENTER"], ["CX"], ["CSPACE"], ["CC"]]
    b_alpha = b_small + ([] if quick else [["EENTER"], ["CPR:3;7"], ["EX:q"]])
    b_max = 3 if quick else 4
    for n in range(1, b_max + 1):
        for tup in itertools.product(b_small if n == 4 else b_alpha, repeat=n):
            units = list(tup)
            toks = flatten_units(units)
            k = fins(toks)
            if k == 0:
                continue
            # c-space is only generated directly in front of c-c (a selection changes every binding)
            if any(t == "CSPACE" and (j + 1 >= len(toks) or toks[j + 1] != "CC") for j, t in enumerate(toks)):
                continue
            comps = list(compositions(n))
            if (quick and n == 3) or n == 4:
                comps = [comps[0], comps[-1]]
            elif n == 3:
                comps = [comps[0], comps[rng.randrange(1, len(comps))]]
            for sizes in comps:
                for pat in ("pre", "inter", "interT", "late"):
                    if pat == "pre" and len(sizes) > 1:
                        continue
                    if ((quick and n == 3) or n == 4) and pat in ("inter", "late"):
                        continue
                    yield mk_step_b(pattern_events_b(units, sizes, pat), k)
    # ---- second layer: a CPR report between a numeric argument and the key it applies to
    arg_scripts = [
        [["a"], ["EARG:3"], ["CPR:12;1"], ["x"], ["ENTER"]],
        [["EARG:2"], ["CPR:5;5"], ["CPR:6;6"], ["y"], ["z"], ["ENTER"]],
        [["a"], ["b"], ["c"], ["EARG:2"], ["CPR:3;3"], ["BS"], ["ENTER"]],
    ]
    if not quick:
        arg_scripts += [
            [["a"], ["ENTER"], ["EARG:1"], ["EARG:2"], ["CPR:9;9"], ["x"], ["ENTER"]],
            [["a"], ["b"], ["c"], ["CA"], ["EARG:2"], ["CPR:1;1"], ["RIGHT"], ["x"], ["CC"]],
            [["EARG:3"], ["CX"], ["CPR:2;2"], ["q"], ["ENTER"]],
        ]
    for units in arg_scripts:
        toks = flatten_units(units)
        comps = list(compositions(len(units)))
        nsample = 2 if quick else 10
        comps = [comps[0], comps[-1]] + [comps[rng.randrange(1, len(comps) - 1)] for _ in range(nsample)]
        for sizes in comps:
            for pat in ("pre", "inter", "interT", "late"):
                if pat == "pre" and len(sizes) > 1:
                    continue
                yield mk_step_b(pattern_events_b(units, sizes, pat), fins(toks))
        for mode in ("pre", "thread", "async"):
            yield mk_e2e_b(rng, mode, units)
    # ---- second layer: random step cases and end to end
    nb = 60 if quick else 1000
    for _ in range(nb):
        units = rand_units_b(rng, rng.choice([1, 2, 2, 3]), rng.choice([0, 0.1, 0.3]))
        toks = flatten_units(units)
        yield mk_step_b(rand_events_b(rng, units), fins(toks))
    nbe = 45 if quick else 800
    for i in range(nbe):
        units = rand_units_b(rng, rng.choice([1, 2, 3, 4]), rng.choice([0, 0.1, 0.25]))
        if units[-1] == ["CC"] and len(units) >= 2 and units[-2] == ["CSPACE"]:
            units.append(["a"])            # the pending c-c needs a next key (or 0.5 s) to fire
        yield mk_e2e_b(rng, ["pre", "thread", "async"][i % 3], units)
    # ---- long lines: more than one 1024-byte read per line
    nbig = 3 if quick else 60
    for i in range(nbig):
        toks = []
        nl = rng.choice([2, 3])
        for _ in range(nl):
            toks += [rng.choice("abcdefgh") for _ in range(rng.choice([700, 1024, 1500, 2300]))]
            toks.append("ENTER")
        toks = inject_cpr(rng, toks, p=0.002)
        yield mk_e2e(rng, ["pre", "thread", "async"][i % 3], toks, fins(toks))


def nontrivial(case):
    toks = case_tokens(case)
    if any(t.startswith("PASTE:") for t in toks):
        return True
    if any(t.startswith("CPR:") for t in toks):
        return True
    if case["k"] >= 2:
        return True
    idx = [i for i, t in enumerate(toks) if t in FIN]
    return bool(idx) and idx[0] < len(toks) - 1


def distribution(cases_):
    d = {"kind": {}, "prompts": {}, "tokens": {}, "cpr_cases": 0, "typeahead_cases": 0}
    for c in cases_:
        key = c["kind"] if c["kind"] == "step" else "e2e:" + c["mode"]
        if c.get("layer") == "B":
            key += ":keybuffer"
        if c.get("val"):
            key += ":validator"
        if c.get("in_thread"):
            key += ":in_thread"
        if c.get("layer") == "P":
            key += ":paste"
        if c.get("layer") == "M":
            key += ":two-inputs"
        if c.get("layer") == "A":
            key += ":one-loop-gaps"
        if c.get("out") == "cpr":
            key += ":cpr-output"
        if c.get("vclock"):
            key += ":virtual-clock"
        d["kind"][key] = d["kind"].get(key, 0) + 1
        d["prompts"][str(c["k"])] = d["prompts"].get(str(c["k"]), 0) + 1
        toks = case_tokens(c)
        n = len(toks)
        b = str(n) if n < 8 else "8-31" if n < 32 else "32+"
        d["tokens"][b] = d["tokens"].get(b, 0) + 1
        if any(t.startswith("CPR:") for t in toks):
            d["cpr_cases"] += 1
        idx = [i for i, t in enumerate(toks) if t in FIN]
        if idx and idx[0] < len(toks) - 1:
            d["typeahead_cases"] += 1
    return d


def sample_view(case):
    c = dict(case)
    if c["kind"] == "e2e":
        c.pop("msched", None)
        if len(c["script"]) > 60:
            c["script"] = c["script"][:20] + [f"... {len(case['script'])} tokens"]
    return c


if __name__ == "__main__":
    sys.exit(core.main(sys.modules[__name__]))
