#!/venv/bin/python
"""C12 — split containers divide space: correspondence with Ptk.Model.C12 + property oracle."""
from __future__ import annotations

import itertools
import os
import signal
import sys
import types

sys.path.insert(0, os.path.dirname(os.path.abspath(__file__)))
import core

from prompt_toolkit.application import Application
from prompt_toolkit.application.current import set_app
from prompt_toolkit.input import DummyInput
from prompt_toolkit.layout.containers import (ConditionalContainer, DynamicContainer, HorizontalAlign, HSplit,
                                              VerticalAlign, VSplit, Window)
from prompt_toolkit.layout.controls import FormattedTextControl
from prompt_toolkit.filters import Condition
from prompt_toolkit.layout.dimension import (Dimension, max_layout_dimensions,
                                             sum_layout_dimensions, to_dimension)
from prompt_toolkit.layout.mouse_handlers import MouseHandlers
from prompt_toolkit.layout.screen import Screen, WritePosition
from prompt_toolkit.output import DummyOutput
from prompt_toolkit.utils import take_using_weights

ID = "C12"
DRIVER = "drv_c12"
PROPS = ["Ptk.Props.C12", "Ptk.Props.C12Fuel", "Ptk.Props.C12Slow", "Ptk.Props.C12Session", "Ptk.Props.C12Tree", "Ptk.Props.C12TreeFuel",
         "Ptk.Props.C12Orig", "Ptk.Props.C12OrigFuel",
         "Ptk.Props.C12Gen", "Ptk.Props.C12Loop", "Ptk.Props.C12Grow", "Ptk.Props.C12Bound", "Ptk.Props.C12Steps",
         "Ptk.Props.C12Dim", "Ptk.Props.C12Align", "Ptk.Props.C12Mouse"]
LEVEL_TEXT = ("Lean 4 theorems over an executable model of Dimension / to_dimension / sum_ and max_layout_dimensions / "
              "Window._merge_dimensions, take_using_weights (explicit stream state machine, integer cross-multiplication), "
              "_child_generators/_grow_sizes and the two divide functions: termination WITH AN EXPLICIT BOUND for every "
              "list of valid dimensions incl. weight 0 - at most n*(maxW+1) loop iterations per cell handed out, hence "
              "(available - sum min)*n*(maxW+1) in total, each next() within 3n+3 generator steps (the driver runs the "
              "model once with that fuel and its iteration counter equals the number of next() calls counted on the "
              "real generator) - and a proof that the factor maxW is attained (weights [1, M] need exactly M+2 "
              "iterations for 2 cells: effective hang for huge weights, known finding); too-small iff the minimums do "
              "not fit (also in terms of the user's children: minimums plus (n-1) paddings, every alignment), "
              "min <= size <= max, sum <= available, preferred before extra, space used up to the maxima, adjacent "
              "disjoint regions in the listed order with exactly one padding between neighbours and fillers only at "
              "the ends; for nested HSplit/VSplit/Window/ConditionalContainer trees with explicit width=/height= on "
              "splits, content-derived preferred sizes and dont_extend_width/height: every drawn window inside the "
              "root region, no two overlapping (hence every cell has at most one mouse handler and none lies outside "
              "the region), the 'window too small' replacement gets exactly the split's region, and rendering never "
              "runs out of the fuel computed from the tree; one split object reused (children may be "
              "ConditionalContainers that come and go): answers depend on the current requirements only, never out of "
              "fuel; for the pre-fix code: non-termination on the F4 witness, equality with the fixed code on positive "
              "weights and the same explicit fuel; tied to /repo "
              "on every run by a differential correspondence (exhaustive small scope + random) on the real "
              "HSplit/VSplit/Window objects and by the property oracle under a CPU-time watchdog")
LEVEL_NOTE = ("trusted: Lean kernel, axioms propext/Classical.choice/Quot.sound only; the hand-written model "
              "(validated by the correspondence, not proved equal to the Python); float division == exact rational "
              "comparison in take_using_weights for operands < 2^26; the harness replaces the module global "
              "containers.take_using_weights by a counting wrapper in its own process to count loop iterations")
RULE = ("exhaustive: every list of <= N children over all valid (min<=preferred<=max, max possibly unbounded, weight "
        "incl. 0) combinations of a small value set x every available size 0..A x HSplit/VSplit (justify, padding 0; "
        "lists of 3+ children alternate between the two), plus for each list one seeded alignment/padding variant; "
        "every division also compares the NUMBER OF LOOP ITERATIONS (next() calls) and the proved bound; then seeded "
        "random lists of up to 8 children with unspecified fields, larger sizes/weights, all alignments, int and "
        "Dimension paddings, is_done, and write_to_screen positions; direct cases for Dimension(), to_dimension "
        "(None/int/Dimension/callables), Window._merge_dimensions (content preference x dont_extend), "
        "sum/max_layout_dimensions and take_using_weights; random trees of nested HSplit/VSplit/Window (depth <= 3), "
        "half of them with FormattedTextControl windows (content size, dont_extend_width/height), "
        "ConditionalContainer (filter on/off) and DynamicContainer children and explicit width=/height= on splits, compared window by "
        "window in drawing order, every written screen cell and every registered mouse handler checked against the "
        "windows' regions, explicit min..max of windows / sized splits / int paddings checked against the drawn sizes; "
        "sessions on ONE HSplit/VSplit object (children with callable dimensions, a third of them behind "
        "ConditionalContainers whose filters toggle) divided/rendered 2-4 times while requirements, children list, "
        "available size (mostly unchanged) and align change; a third of the sessions (and an exhaustive two-children "
        "family) edit the SAME children list object in place (swap, reverse, replace an entry) and draw every render: "
        "the oracle then requires the drawn windows to be the CURRENT children in their CURRENT order, each within "
        "its current min..max; a quarter of the sessions have a CALLABLE padding whose value changes between the "
        "renders (padding windows must be within its CURRENT value) and a quarter build their windows from ONE "
        "Dimension object each while the available size goes small/large (single-call oracle against the numbers "
        "the user gave; the user's Dimension objects must not be mutated); 9 huge-weight cases (10^6..10^12) run on the real code "
        "under an iteration budget; a case is non-trivial when at least one division has to grow a child")
EXHAUSTIVE = True
EXHAUSTIVE_SCOPE = {
    "quick": "children<=2 over min in {0,1}, preferred<=2, max in {..2,unbounded}, weight in {0,1,2}; children=3 over "
             "min in {0,1}, preferred<=1, max in {..1,unbounded}, weight in {0,1,2}; avail 0..8; HSplit and VSplit",
    "thorough": "children<=2 over min in {0,1,2}, preferred<=3, max in {..3,unbounded}, weight in {0,1,2,3}; children=3 "
                "over the quick 2-children alphabet; children=4 over min in {0,1}, preferred<=1, max in {..1,unbounded}, "
                "weight in {0,1}; avail 0..10; HSplit and VSplit"}
TRUSTED = ["harness/c12.py compares the return value of _divide_heights/_divide_widths, the number of items the real "
           "take_using_weights generators handed out during the call (counting wrapper installed as "
           "containers.take_using_weights), (watchdog: a call that burns more than 0.5 s CPU, confirmed once with 2 s, "
           "is 'err:Hang') and Screen.visible_windows_to_write_positions / Screen.data_buffer after write_to_screen",
           "Ptk/Model/C12.lean, C12Steps.lean, C12Tree.lean, C12Session.lean are hand translations of dimension.py, "
           "take_using_weights, the divide/grow code, Window._merge_dimensions and the "
           "preferred_width/preferred_height/write_to_screen of HSplit, VSplit, ConditionalContainer and (region only) "
           "Window (correspondence-checked); Ptk/Model/C12Orig.lean is the pre-fix loop (correspondence-checked on "
           "positive weights, where it must agree with the fixed code)",
           "Drivers/C12.lean runs every model function ONCE with the proved fuel (fuelBound / treeFuel; theorems "
           "divide_terminates_bound, runSessionB_no_hang, render_treeFuel, divideOrig_terminates_bound); there is no "
           "fuel search left in the driver"]
ASSUMPTIONS = ["content-derived preferred sizes are an input of the model (what the control reports: any natural number "
               "or None, independent of the offered width - true for FormattedTextControl without line wrapping and "
               "for DummyControl; windows have no margins)",
               "Dimension objects are not mutated after construction (min <= preferred <= max)",
               "float division in take_using_weights is exact for the operand range (< 2^26)",
               "an unspecified minimum is 0 (regenerated constant, side condition gen_defaultMin re-decided on every run)"]
PARTIAL_SCOPE = ["inside a window only the region is modelled (the write position after the dont_extend reduction); "
                 "_copy_body / margins / _fill_bg are checked by the oracle only (no cell outside the root region, window "
                 "text inside the window's write position)",
                 "z_index (postponed drawing), FloatContainer (floats are not children of a split: outside the "
                 "statement), ScrollablePane, parent_style and content whose preferred height depends on the width "
                 "(line wrapping) are not modelled; mouse handlers: only their regions (= the windows' write positions)",
                 "the iteration bound n*(maxW+1) per cell is within the factor n of the true worst case (weights [1, M]: "
                 "M+2 iterations for 2 cells vs bound 4(M+1))",
                 "effective hang for huge weight ratios is a known finding, not repaired (a results-preserving repair "
                 "needs a weighted stream that skips saturated children)"]
ANCHORS = ["src/prompt_toolkit/layout/containers.py", "src/prompt_toolkit/layout/dimension.py",
           "src/prompt_toolkit/utils.py"]
MODELLED = {
    "src/prompt_toolkit/layout/containers.py": [
        "_child_generators", "_grow_sizes",
        "HSplit.preferred_width", "HSplit.preferred_height", "HSplit._all_children", "HSplit._all_children.get",
        "HSplit.write_to_screen", "HSplit._divide_heights",
        "VSplit.preferred_width", "VSplit.preferred_height", "VSplit._all_children", "VSplit._all_children.get",
        "VSplit._divide_widths", "VSplit.write_to_screen",
        "Window._merge_dimensions", "Window.write_to_screen",
        "ConditionalContainer.preferred_width", "ConditionalContainer.preferred_height",
        "ConditionalContainer.write_to_screen",
        "DynamicContainer._get_container", "DynamicContainer.preferred_width", "DynamicContainer.preferred_height",
        "DynamicContainer.write_to_screen"],
    "src/prompt_toolkit/layout/dimension.py": [
        "Dimension.__init__", "Dimension.exact", "Dimension.zero", "Dimension.is_zero",
        "sum_layout_dimensions", "max_layout_dimensions", "to_dimension"],
    "src/prompt_toolkit/utils.py": ["take_using_weights"],
}

# ------------------------------------------------------------------ counting the loop iterations
# `_child_generators` builds its generators with the module global `take_using_weights` of
# containers.py; the harness replaces that global (in this process only, /repo is untouched) by a
# wrapper that counts every item the real generator hands out = every `next(generator)` of
# `_grow_sizes` = every iteration of `while sum(sizes) < group_stop`.
import prompt_toolkit.layout.containers as _containers

_REAL_TAKE = take_using_weights
STEPS = [0]
STEP_BUDGET = [None]


class StepBudget(Exception):
    """more `next(generator)` calls than the budget of this call allows"""


def _counting_take(items, weights):
    g = _REAL_TAKE(items, weights)

    def gen():
        for x in g:
            STEPS[0] += 1
            if STEP_BUDGET[0] is not None and STEPS[0] > STEP_BUDGET[0]:
                raise StepBudget()
            yield x
    return gen()


_containers.take_using_weights = _counting_take

SLOW_BUDGET = 100_000   # loop iterations granted to a 'slow' case (about 0.2 s of CPU)
SLOW_SIGNATURE = ("_grow_sizes | loop iterations proportional to the largest weight: effective hang for "
                  "huge weights")

TIME_LIMIT = 0.5     # CPU seconds (ITIMER_VIRTUAL: a busy loop burns CPU, a descheduled process does not)
CONFIRM_LIMIT = 2.0  # a first time-out is confirmed once with a longer limit before it counts as a hang


class Hang(BaseException):
    pass


def _on_alarm(*_a):
    raise Hang()


_hangs = 0


def hang_established():
    """Two confirmed hangs in this process: the tree is failing (both were reported by the oracle);
    the remaining cases are skipped instead of burning a time-out each."""
    return _hangs >= 2


def _run_limited(f, limit):
    old = signal.signal(signal.SIGVTALRM, _on_alarm)
    signal.setitimer(signal.ITIMER_VIRTUAL, limit)
    try:
        try:
            v = f()
            return ("ok", v)
        finally:
            signal.setitimer(signal.ITIMER_VIRTUAL, 0)
    except Hang:
        return ("hang", None)
    except Exception as e:  # noqa
        return ("exc", type(e).__name__)
    finally:
        signal.setitimer(signal.ITIMER_VIRTUAL, 0)
        signal.signal(signal.SIGVTALRM, old)


def guarded(f):
    """run f() under a CPU-time watchdog; returns ('ok', value) | ('hang', None) | ('exc', name)"""
    global _hangs
    r = _run_limited(f, TIME_LIMIT)
    if r[0] == "hang":
        r = _run_limited(f, CONFIRM_LIMIT)
        if r[0] == "hang":
            _hangs += 1
    return r


_APP = None


def app():
    global _APP
    if _APP is None:
        _APP = Application(input=DummyInput(), output=DummyOutput())
    return _APP


_DONE = types.SimpleNamespace(done=lambda: True)

VALIGN = [VerticalAlign.TOP, VerticalAlign.CENTER, VerticalAlign.BOTTOM, VerticalAlign.JUSTIFY]
HALIGN = [HorizontalAlign.LEFT, HorizontalAlign.CENTER, HorizontalAlign.RIGHT, HorizontalAlign.JUSTIFY]


def mkD(spec):
    mn, mx, w, pr = spec
    return Dimension(min=mn, max=mx, weight=w, preferred=pr)


def spec_tokens(spec):
    return " ".join("N" if v is None else str(v) for v in spec)


def pad_spec(pad):
    return [pad, pad, None, pad] if isinstance(pad, int) else pad



# ------------------------------------------------------------------ nested containers
NOSPEC = [None, None, None, None]
ZERO_SPEC = [0, 0, None, 0]      # Dimension.zero()


def rand_tree(rng, depth, ids, root=True, ext=False):
    """['W', id, wspec, hspec] | ['H'|'V', align, pad, [children]]; with ext also ['Y', child]
    (DynamicContainer),
    ['X', id, wspec, hspec, cw, ch, dew, deh] (window with content / dont_extend),
    ['C', on, child] (ConditionalContainer), ['S', wspec|None, hspec|None, split] (explicit
    width=/height= on a split); the root is always a split"""
    if depth == 0 or (not root and rng.randrange(3) == 0):
        ids[0] += 1
        if ext and rng.randrange(3):
            if rng.randrange(4):
                cw, ch = rng.choice([0, 1, 2, 3, 5, 9]), rng.choice([1, 1, 2, 3, 6])
            else:
                cw = ch = None
            leaf = ["X", ids[0], rng.choice([NOSPEC, rand_spec(rng)]), rng.choice([NOSPEC, rand_spec(rng)]),
                    cw, ch, rng.randrange(2), rng.randrange(2)]
        else:
            leaf = ["W", ids[0], rand_spec(rng), rand_spec(rng)]
        if ext and rng.randrange(5) == 0:
            return ["C", rng.randrange(2), leaf]
        if ext and rng.randrange(8) == 0:
            return ["Y", leaf]
        return leaf
    node = [rng.choice("HV"), rng.randrange(4), rand_pad(rng),
            [rand_tree(rng, depth - 1, ids, False, ext) for _ in range(rng.choice([0, 1, 2, 2, 3]))]]
    if ext and rng.randrange(4) == 0:
        node = ["S", rng.choice([None, rand_spec(rng)]), rng.choice([None, rand_spec(rng)]), node]
    if ext and not root and rng.randrange(6) == 0:
        node = ["C", rng.randrange(2), node]
    elif ext and not root and rng.randrange(8) == 0:
        node = ["Y", node]
    return node


def opt_tok(v):
    return "N" if v is None else str(v)


def tree_tokens(t):
    if t[0] == "W":
        return f"W {t[1]} {spec_tokens(t[2])} {spec_tokens(t[3])}"
    if t[0] == "X":
        return (f"X {t[1]} {spec_tokens(t[2])} {spec_tokens(t[3])} {opt_tok(t[4])} {opt_tok(t[5])} "
                f"{t[6]} {t[7]}")
    if t[0] == "C":
        return f"C {t[1]} {tree_tokens(t[2])}"
    if t[0] == "Y":
        return f"Y {tree_tokens(t[1])}"
    if t[0] == "S":
        return (f"S {int(t[1] is not None)} {spec_tokens(t[1] or NOSPEC)} {int(t[2] is not None)} "
                f"{spec_tokens(t[2] or NOSPEC)} {tree_tokens(t[3])}")
    return (f"{t[0]} {t[1]} {spec_tokens(pad_spec(t[2]))} {len(t[3])}"
            + "".join(" " + tree_tokens(c) for c in t[3]))


def tree_size(t):
    if t[0] in "WX":
        return 1
    if t[0] == "C":
        return 1 + tree_size(t[2])
    if t[0] == "Y":
        return 1 + tree_size(t[1])
    if t[0] == "S":
        return tree_size(t[3])
    return 1 + sum(tree_size(c) for c in t[3])


def tree_ext(t):
    """does the tree use a window with content / dont_extend, a conditional container or a sized split"""
    if t[0] in "XCSY":
        return True
    return t[0] in "HV" and any(tree_ext(c) for c in t[3])


def win_letter(wid):
    # (capitals without 'W': the text of the 'Window too small...' replacement must not be mistaken
    #  for the text of a user window)
    return "ABCDEFGHIJKLMNOPQRSTUVXYZ"[wid % 25]


# write positions handed to the real splits during the last real_tree() (harness-side wrapper
# around HSplit/VSplit.write_to_screen, this process only) and the tree node of every real object
SPLIT_REGIONS = {}
NODE_OF = {}


def _recording(cls):
    orig = cls.write_to_screen

    def write_to_screen(self, screen, mouse_handlers, write_position, parent_style, erase_bg, z_index):
        SPLIT_REGIONS[self] = write_position
        return orig(self, screen, mouse_handlers, write_position, parent_style, erase_bg, z_index)
    cls.write_to_screen = write_to_screen


_recording(HSplit)
_recording(VSplit)


def build_tree(t, tags, size=(None, None)):
    r = _build_tree(t, tags, size)
    NODE_OF[r] = t
    return r


def _build_tree(t, tags, size=(None, None)):
    if t[0] == "W":
        w = Window(width=mkD(t[2]), height=mkD(t[3]))
        tags[w] = f"u{t[1]}"
        return w
    if t[0] == "X":
        _, wid, ws, hs, cw, ch, dew, deh = t
        content = None
        if cw is not None:
            content = FormattedTextControl("\n".join([win_letter(wid) * cw] * ch))
        w = Window(content, width=None if ws == NOSPEC else mkD(ws), height=None if hs == NOSPEC else mkD(hs),
                   dont_extend_width=bool(dew), dont_extend_height=bool(deh))
        tags[w] = f"u{wid}"
        return w
    if t[0] == "C":
        return ConditionalContainer(build_tree(t[2], tags), filter=bool(t[1]))
    if t[0] == "Y":
        inner = build_tree(t[1], tags)
        return DynamicContainer(lambda: inner)
    if t[0] == "S":
        return build_tree(t[3], tags, (None if t[1] is None else mkD(t[1]), None if t[2] is None else mkD(t[2])))
    kids = [build_tree(c, tags) for c in t[3]]
    pad = t[2] if isinstance(t[2], int) else mkD(t[2])
    if t[0] == "H":
        return HSplit(kids, padding=pad, align=VALIGN[t[1]], width=size[0], height=size[1])
    return VSplit(kids, padding=pad, align=HALIGN[t[1]], width=size[0], height=size[1])


def tag_aux(split, tags):
    """tags for the windows a split creates itself: p(adding), f(iller), r(emaining), s(too small)"""
    if isinstance(split, Window):
        return
    if isinstance(split, ConditionalContainer):
        tag_aux(split.content, tags)
        return
    if isinstance(split, DynamicContainer):
        tag_aux(split.get_container(), tags)
        return
    kids = split.children
    allc = split._all_children
    for i, c in enumerate(allc):
        if any(c is k for k in kids):
            continue
        # fillers sit at the two ends, next to a child (or alone); padding sits between two children
        edge = (i == 0 and (len(allc) == 1 or any(allc[1] is k for k in kids))) or \
               (i == len(allc) - 1 and (len(allc) == 1 or any(allc[-2] is k for k in kids)))
        tags[c] = "f" if edge else "p"
    tags[split._remaining_space_window] = "r"
    tags[split.window_too_small] = "s"
    for k in kids:
        tag_aux(k, tags)


def real_tree(case):
    """-> (status, [(tag, x, y, w, h)] in drawing order, root)"""
    tags = {}
    SPLIT_REGIONS.clear()
    NODE_OF.clear()
    root = build_tree(case["tree"], tags)
    tag_aux(root, tags)
    screen = Screen()
    app().render_counter += 1
    x, y, w, h = case["wp"]
    mouse = MouseHandlers()
    r = guarded(lambda: root.write_to_screen(screen, mouse, WritePosition(x, y, w, h), "", False, None))
    real_tree.screen = screen
    real_tree.mouse = mouse
    if r[0] != "ok":
        return r, None, root
    vis = screen.visible_windows_to_write_positions
    return r, [(tags.get(win, "??"), p.xpos, p.ypos, p.width, p.height) for win, p in vis.items()], root


def build(case):
    pad = case["pad"]
    padding = pad if isinstance(pad, int) else mkD(pad)
    if case["dir"] == "h":
        return HSplit([Window(height=mkD(s)) for s in case["children"]], padding=padding,
                      padding_char=PAD_CHAR, align=VALIGN[case["align"]])
    return VSplit([Window(width=mkD(s)) for s in case["children"]], padding=padding,
                  padding_char=PAD_CHAR, align=HALIGN[case["align"]])


PAD_CHAR = "#"  # lets the oracle tell the padding windows of a split from its fillers


class Session:
    """ONE split object whose children report whatever `self.cur[id]` currently holds
    (Window(width=lambda: ...)); every call may edit the children list and the requirements."""

    def __init__(self, case):
        self.dir = case["dir"]
        self.cur = {}
        self.wins = {}
        self.cond = bool(case.get("cond"))    # children wrapped in ConditionalContainer(filter=...)
        self.hidden = set()
        self.padcall = bool(case.get("padcall"))   # padding=<callable>, its value changes between calls
        self.shared = bool(case.get("shared"))     # Window(height=<ONE Dimension object>) for all renders
        self.curpad = None
        self.given = {}    # wid -> (Dimension object handed to the window, the numbers it had then)
        first = case["calls"][0]
        pad = first["pad"]
        padding = pad if isinstance(pad, int) else mkD(pad)
        if self.padcall:
            self.curpad = padding
            padding = lambda: self.curpad  # noqa: E731
        if self.dir == "h":
            self.split = HSplit([], padding=padding, padding_char=PAD_CHAR, align=VALIGN[first["align"]])
        else:
            self.split = VSplit([], padding=padding, padding_char=PAD_CHAR, align=HALIGN[first["align"]])

    def window(self, wid):
        if wid not in self.wins:
            get = lambda wid=wid: self.cur[wid]  # noqa: E731
            if self.shared:
                # the application's own Dimension object, the same one at every render
                get = self.cur[wid]
                self.given[wid] = (get, (get.min, get.max, get.preferred, get.weight))
            w = Window(height=get) if self.dir == "h" else Window(width=get)
            if self.cond:
                w = ConditionalContainer(w, filter=Condition(lambda wid=wid: wid not in self.hidden))
            self.wins[wid] = w
        return self.wins[wid]

    def prepare(self, call):
        self.hidden = set(call.get("hidden") or [])
        if self.padcall:
            self.curpad = call["pad"] if isinstance(call["pad"], int) else mkD(call["pad"])
        for wid, spec in call["children"]:
            if not (self.shared and wid in self.cur):
                self.cur[wid] = mkD(spec)
        new = [self.window(wid) for wid, _ in call["children"]]
        if call.get("inplace") and len(new) == len(self.split.children):
            # the SAME list object is edited in place (swap / reverse / replace an entry)
            self.split.children[:] = new
        else:
            self.split.children = new
        self.split.align = (VALIGN if self.dir == "h" else HALIGN)[call["align"]]
        return {"dir": self.dir, "done": call["done"], "wp": call.get("wp")}


def mutated_given(ses):
    """the Dimension objects the application handed to the windows must keep their numbers"""
    for wid, (obj, nums) in ses.given.items():
        now = (obj.min, obj.max, obj.preferred, obj.weight)
        if now != nums:
            return [{"signature": "Dimension | object given by the application was mutated",
                     "msg": f"the Dimension given to window {wid} was (min, max, preferred, weight) = {nums}, "
                            f"after the render it is {now}"}]
    return []


def real_divide(split, case, avail):
    STEPS[0] = 0
    if case["dir"] == "h":
        return split._divide_heights(WritePosition(0, 0, 7, avail))
    return split._divide_widths(avail)


def real_dims(split, case, avail):
    if case["dir"] == "h":
        return [c.preferred_height(7, avail) for c in split._all_children]
    return [c.preferred_width(avail) for c in split._all_children]


class done_ctx:
    def __init__(self, done):
        self.done = done

    def __enter__(self):
        self.cm = set_app(app())
        self.cm.__enter__()
        if self.done:
            app().future = _DONE

    def __exit__(self, *a):
        app().future = None
        self.cm.__exit__(*a)


# ------------------------------------------------------------------ model side
def req_tokens(case):
    return (f"{spec_tokens(pad_spec(case['pad']))} {len(case['children'])}"
            + "".join(" " + spec_tokens(s) for s in case["children"]))


def merge_variants(case, i):
    """(content preference, dont_extend) pairs tried for the i-th spec of a 'dim' case"""
    k = sum(v or 0 for s in case["specs"] for v in s) + i
    return [(None, 1), (0, 0), (0, 1), (k % 5, 1), (k % 7 + 1, 0), (k % 11 + 2, 1)]


def all_positive(case):
    """no child and no padding window has weight 0 (None = default weight 1)"""
    return all(s[2] != 0 for s in case["children"] + [pad_spec(case["pad"])])


def model_lines(case):
    k = case["kind"]
    if k == "dim":
        out = []
        for i, s in enumerate(case["specs"]):
            out.append("dim " + spec_tokens(s))
            out.append("win " + spec_tokens(s))
            out.append("win " + spec_tokens(s))
            for c, de in merge_variants(case, i):
                out.append(f"mrg {spec_tokens(s)} {opt_tok(c)} {de}")
            out.append("todim D " + spec_tokens(s))
            out.append("todim F F D " + spec_tokens(s))
            for v in s:
                if v is not None:
                    out.append(f"todim I {v}")
                    out.append(f"todim F I {v}")
        out.append("todim N")
        out.append("todim F N")
        body = f"{len(case['specs'])}" + "".join(" " + spec_tokens(s) for s in case["specs"])
        out.append("sum " + body)
        out.append("max " + body)
        return out
    if k == "take":
        return [f"take {case['k']}" + "".join(f" {w}" for w in case["weights"])]
    if k == "tree":
        x, y, w, h = case["wp"]
        tt = tree_tokens(case["tree"])
        return [f"tree {x} {y} {w} {h} {tt}", f"tpw {w} {tt}", f"tph {w} {h} {tt}"]
    if k == "slow":
        # huge weights: the model is not run (it would need as many iterations as the real code,
        # Ptk.Props.C12Slow); only the proved bound is printed
        return [f"bnd {case['dir']} {case['align']} {case['done']} {case['avail']} {req_tokens(case)}"]
    if k == "reuse":
        toks = [f"sess {case['dir']} {len(case['calls'])}"]
        for c in case["calls"]:
            # a hidden ConditionalContainer child reports Dimension.zero()
            hid = set(c.get("hidden") or [])
            toks.append(f"{c['align']} {c['done']} {int(bool(case.get('padcall')))} {c['avail']} "
                        f"{spec_tokens(pad_spec(c['pad']))} {len(c['children'])}"
                        + "".join(f" {wid} {spec_tokens(ZERO_SPEC if wid in hid else sp)}"
                                  for wid, sp in c["children"]))
        return [" ".join(toks)]
    out = []
    for a in case["avails"]:
        out.append(f"div {case['dir']} {case['align']} {case['done']} {a} {req_tokens(case)}")
    if all_positive(case):
        # the pre-fix algorithm (Ptk.Model.C12Orig) must agree with the real code on positive weights
        for a in case["avails"]:
            out.append(f"odiv {case['dir']} {case['align']} {case['done']} {a} {req_tokens(case)}")
    if case.get("wp"):
        x, y, w, h = case["wp"]
        out.append(f"lay {case['dir']} {case['align']} {case['done']} {x} {y} {w} {h} {req_tokens(case)}")
    return out


# ------------------------------------------------------------------ real side
def enc_dim(d):
    return f"{d.min} {d.preferred} {d.max} {d.weight}"


def enc_wp(wp):
    return "-" if wp is None else f"{wp.xpos},{wp.ypos},{wp.width},{wp.height}"


def enc_res(r):
    st, v = r
    if st == "hang":
        return "err:Hang"
    if st == "exc":
        return "err:" + v
    if v is None:
        return "small"
    return "ok " + " ".join([str(len(v))] + [str(s) for s in v])


def gap_bound(dims):
    """n * (maxW + 1): the proved bound on the loop iterations per cell handed out (restated here
    over the REAL dimensions; Ptk.Props.C12Fuel.divideC_steps_le)"""
    return len(dims) * (max([1] + [d.weight for d in dims]) + 1)


def step_bound(dims, avail):
    return max(avail - sum(d.min for d in dims), 0) * gap_bound(dims)


def enc_div(r, split, case, avail):
    """result of one real divide call + the number of `next` calls it made + the bound formula"""
    out = enc_res(r)
    if r[0] == "ok" and r[1] is not None:
        steps = STEPS[0]
        dims = real_dims(split, case, avail) if not (case["dir"] == "h" and not split.children) else []
        out += f" it={steps} bound={step_bound(dims, avail)}"
    return out


def draw(split, case):
    """write_to_screen on a fresh Screen; returns the recorded positions or an error token"""
    x, y, w, h = case["wp"]
    screen = Screen()
    app().render_counter += 1
    r = guarded(lambda: split.write_to_screen(screen, MouseHandlers(), WritePosition(x, y, w, h), "", False, None))
    if r[0] != "ok":
        return r, None
    return r, screen.visible_windows_to_write_positions


def impl_lines(case):
    k = case["kind"]
    if hang_established() and k != "dim":
        return ["skipped: non-termination already established in this run"]
    if k == "dim":
        out = []
        ds = []
        with done_ctx(False):
            for idx, s in enumerate(case["specs"]):
                ints = [v for v in s if v is not None]

                def todims():
                    for v in ints:
                        for value in (v, lambda v=v: v):
                            t = to_dimension(value)
                            yield enc_dim(t) + (" zero" if t.is_zero() else " nonzero")
                try:
                    d = mkD(s)
                except ValueError:
                    out += ["err:ValueError"] * (3 + len(merge_variants(case, 0)) + 2)
                    out += list(todims())
                    ds = None
                    continue
                if ds is not None:
                    ds.append(d)
                out.append(enc_dim(d))
                out.append(enc_dim(Window(height=d).preferred_height(9, 9)))
                out.append(enc_dim(Window(width=d).preferred_width(9)))
                for c, de in merge_variants(case, idx):
                    try:
                        out.append(enc_dim(Window._merge_dimensions(d, lambda c=c: c, bool(de))))
                    except ValueError:
                        out.append("err:ValueError")
                for value in (d, lambda d=d: (lambda: d)):
                    t = to_dimension(value)
                    out.append(enc_dim(t) + (" zero" if t.is_zero() else " nonzero"))
                out += list(todims())
            for value in (None, lambda: None):
                t = to_dimension(value)
                out.append(enc_dim(t) + (" zero" if t.is_zero() else " nonzero"))
            for f in (sum_layout_dimensions, max_layout_dimensions):
                if ds is None:
                    out.append("err:ValueError")
                else:
                    try:
                        out.append(enc_dim(f(list(ds))))
                    except ValueError:
                        out.append("err:ValueError")
        return out
    if k == "take":
        ws = case["weights"]
        r = guarded(lambda: list(itertools.islice(take_using_weights(list(range(len(ws))), ws), case["k"])))
        return [enc_res(r)]
    if k == "slow":
        with done_ctx(case["done"]):
            split = build(case)
            a = case["avail"]
            dims = real_dims(split, case, a) if not (case["dir"] == "h" and not split.children) else []
            return [f"bound={step_bound(dims, a)} fuel={step_bound(dims, a) + 3 * len(dims) + 3}"]
    if k == "reuse":
        outs = []
        with done_ctx(False):
            ses = Session(case)
            for c in case["calls"]:
                pc = ses.prepare(c)
                app().future = _DONE if c["done"] else None
                r = guarded(lambda: real_divide(ses.split, pc, c["avail"]))
                outs.append(enc_res(r))
                if r[0] == "hang":
                    break
        return [" ; ".join(outs)]
    if k == "tree":
        with done_ctx(False):
            r, items, root = real_tree(case)
            if r[0] != "ok":
                return [enc_res(r)] * 3
            x, y, w, h = case["wp"]
            out = ["ok " + " ".join([str(len(items))] + [f"{t}:{a},{b},{c},{d}" for t, a, b, c, d in items])]
            for f in (lambda: root.preferred_width(w), lambda: root.preferred_height(w, h)):
                g = guarded(f)
                out.append(enc_dim(g[1]) if g[0] == "ok" else enc_res(g))
            return out
    out = []
    with done_ctx(case["done"]):
        split = build(case)
        hung = False
        plain = []
        for a in case["avails"]:
            # after one hang in this case the remaining lines are not worth a time-out each
            r = ("hang", None) if hung else guarded(lambda: real_divide(split, case, a))
            hung = hung or r[0] == "hang"
            out.append(enc_div(r, split, case, a))
            plain.append(enc_res(r))
        if all_positive(case):
            out += plain
        if case.get("wp"):
            r, vis = (("hang", None), None) if hung else draw(split, case)
            if r[0] != "ok":
                out.append(enc_res(r))
            elif case["dir"] == "v" and not split.children:
                out.append("nothing" if not vis else "drawn-without-children")
            else:
                sizes = guarded(lambda: real_divide(split, case, case["wp"][3 if case["dir"] == "h" else 2]))[1]
                if split.window_too_small in vis or sizes is None:
                    out.append("small " + enc_wp(vis.get(split.window_too_small)))
                    return out
                # the children that write_to_screen pairs with a size: zip(sizes, _all_children)
                regs = [enc_wp(vis.get(c)) for _s, c in zip(sizes, split._all_children)]
                out.append("ok " + " ".join([str(len(regs))] + regs) + " rem:"
                           + enc_wp(vis.get(split._remaining_space_window)))
    return out


# ------------------------------------------------------------------ oracle
def check_divide(name, dims, avail, done, res, steps=None):
    """C12 restated over the dimensions the real split sees and the sizes it returned
    (`steps` = number of loop iterations the real call made, when it was counted)."""
    v = []
    mins = [d.min for d in dims]
    prefs = [d.preferred for d in dims]
    maxs = [d.max for d in dims]
    ws = [d.weight for d in dims]
    zero = "weight 0 present" if any(w == 0 for w in ws) else "positive weights"

    def bad(cond, msg):
        v.append({"signature": f"{name} | {cond}",
                  "msg": f"{msg}: dims={[enc_dim(d) for d in dims]} avail={avail} done={done} -> {res}"})

    st, sizes = res
    if st == "hang":
        bad(f"does not terminate ({zero})", "division did not finish within the time limit")
        return v
    if st == "exc":
        bad(f"raises {sizes} ({zero})", "division raised")
        return v
    if (sizes is None) != (sum(mins) > avail):
        bad("too-small report", "None must be returned exactly when sum(min) > available")
        return v
    if sizes is None:
        return v
    if len(sizes) != len(dims):
        bad("length", "one size per child expected")
        return v
    if any(not (mins[i] <= sizes[i] <= maxs[i]) for i in range(len(dims))):
        bad("child outside min..max", "a child got a size outside its bounds")
    if sum(sizes) > avail:
        bad("sum exceeds available", "sizes add up to more than the available size")
    if avail <= sum(prefs) and any(sizes[i] > prefs[i] for i in range(len(dims))):
        bad("extra before preferred", "a child exceeds its preferred size although the preferred sizes do not fit")
    if sum(prefs) <= avail and any(sizes[i] < prefs[i] for i in range(len(dims))):
        bad("preferred not reached", "a child is below its preferred size although all preferred sizes fit")
    goal = min(avail, sum(prefs) if done else sum(maxs))
    if sum(sizes) != goal:
        bad(f"space not used ({zero})", f"sum(sizes)={sum(sizes)} but children could take {goal}")
    if steps is not None and steps > max(sum(sizes) - sum(mins), 0) * gap_bound(dims):
        # termination WITH A BOUND: at most n * (maxW + 1) loop iterations per cell handed out
        bad(f"more loop iterations than n*(maxW+1) per cell handed out ({zero})",
            f"{steps} iterations for {sum(sizes) - sum(mins)} cells, n={len(dims)}, maxW={max([1] + ws)}")
    return v


def check_structure(cls, split, horiz, avail, res, specs=None, padding="attr"):
    """Independent of how _all_children was built: the children stand in their listed order with
    exactly one padding between two neighbours, fillers only at the two ends; and 'too small' is
    reported exactly when the children's minimums plus (n-1) paddings do not fit."""
    v = []
    kids = split.children
    # the padding as the USER states it now: an int, or the four arguments of a Dimension
    # (sessions pass the current value of their padding callable; otherwise the attribute)
    pad_now = split.padding if padding == "attr" else (padding if isinstance(padding, int) else mkD(padding))
    tags = []
    for c in split._all_children:
        idx = next((i for i, k in enumerate(kids) if k is c), None)
        if idx is not None:
            tags.append(idx)
        elif isinstance(c, Window) and c.char == PAD_CHAR:
            tags.append("p")
        else:
            tags.append("f")
    core_tags = list(tags)
    if core_tags and core_tags[0] == "f":
        core_tags.pop(0)
    if core_tags and core_tags[-1] == "f":
        core_tags.pop()
    expect = []
    for i in range(len(kids)):
        if i:
            expect.append("p")
        expect.append(i)
    if core_tags != expect and not (not kids and core_tags == []):
        v.append({"signature": f"{cls}._all_children | children not adjacent in order (stray padding or filler region)",
                  "msg": f"regions {tags} for {len(kids)} children (f=filler, p=padding), expected {expect} "
                         f"between optional fillers; align={split.align} padding={split.padding!r}"})
    if res[0] == "ok" and res[1] is not None and len(res[1]) == len(tags):
        # sizes against what the USER wrote (not against what preferred_* report): an int padding
        # is exactly that many cells, a child stays within the explicit min..max of its Dimension
        for tg, size in zip(tags, res[1]):
            if tg == "p" and isinstance(pad_now, int) and not isinstance(pad_now, bool) \
                    and size != pad_now:
                v.append({"signature": f"{cls} | padding window size differs from the int padding",
                          "msg": f"padding={pad_now} but a padding window got {size}: sizes {res[1]} regions {tags}"})
                break
            if tg == "p" and isinstance(pad_now, Dimension) and not (pad_now.min <= size <= pad_now.max):
                v.append({"signature": f"{cls} | padding window outside the current min..max of the padding",
                          "msg": f"padding now {enc_dim(pad_now)} but a padding window got {size}: sizes {res[1]} regions {tags}"})
                break
            if isinstance(tg, int) and specs is not None and tg < len(specs):
                mn, mx = specs[tg][0] or 0, specs[tg][1]
                if size < mn or (mx is not None and size > mx):
                    v.append({"signature": f"{cls} | child outside its explicit min..max",
                              "msg": f"child {tg} with Dimension(min={specs[tg][0]}, max={mx}) got {size}: sizes {res[1]}"})
                    break
    if res[0] == "ok":
        if horiz:
            mins = [k.preferred_height(7, avail).min for k in kids]
        else:
            mins = [k.preferred_width(avail).min for k in kids]
        need = sum(mins) + max(len(kids) - 1, 0) * to_dimension(pad_now).min
        if (res[1] is None) != (need > avail):
            v.append({"signature": f"{cls} | too-small report (children minimums plus (n-1) paddings)",
                      "msg": f"children minimums {mins} with padding {pad_now!r} need {need}, available {avail}: "
                             f"returned {res[1]}; align={split.align}"})
    return v


def check_layout(name, split, case, vis):
    v = []
    x, y, w, h = case["wp"]
    horiz = case["dir"] == "h"
    avail = h if horiz else w

    def bad(cond, msg):
        v.append({"signature": f"{name} | {cond}", "msg": f"{msg}: case={case}"})

    r = guarded(lambda: real_divide(split, case, avail))
    if r[0] != "ok":
        return v  # reported by check_divide
    sizes = r[1]
    if not horiz and not split.children:
        if vis:
            bad("drawn without children", "VSplit without children drew something")
        return v
    if sizes is None:
        wp = vis.get(split.window_too_small)
        if w > 0 and h > 0 and (wp is None or (wp.xpos, wp.ypos, wp.width, wp.height) != (x, y, w, h)):
            bad("too-small window", "the too-small window must cover the whole region")
        if any(c in vis or getattr(c, "content", None) in vis for c in split._all_children):
            bad("children drawn when too small", "children drawn although the space is too small")
        return v
    pos = y if horiz else x
    regions = []
    for c, s in zip(split._all_children, sizes):
        shown = True
        while isinstance(c, ConditionalContainer):
            shown = shown and bool(c.filter())
            c = c.content
        wp = vis.get(c)
        if not shown:
            if wp is not None:
                bad("hidden child drawn", "a ConditionalContainer child whose filter is off was drawn")
            pos += s
            continue
        cross = w if horiz else h
        if s > 0 and cross > 0:
            if wp is None:
                bad("child not drawn", "a child with a non-empty region was not drawn")
            else:
                start, size = (wp.ypos, wp.height) if horiz else (wp.xpos, wp.width)
                other = (wp.xpos, wp.width) if horiz else (wp.ypos, wp.height)
                if (start, size) != (pos, s):
                    bad("regions not adjacent in order", f"child region starts at {start} size {size}, expected {pos} {s}")
                if other != ((x, w) if horiz else (y, h)):
                    bad("cross axis", "child region does not span the cross axis of the split")
                regions.append((start, start + size))
        elif wp is not None:
            bad("empty child drawn", "a child with an empty region was recorded as drawn")
        pos += s
    for (a0, a1), (b0, b1) in zip(regions, regions[1:]):
        if a1 > b0:
            bad("regions overlap", "two children overlap")
    end = (y + h) if horiz else (x + w)
    if pos > end:
        bad("outside the split", "children extend beyond the write position")
    rem = vis.get(split._remaining_space_window)
    cross = w if horiz else h
    if end - pos > 0 and cross > 0:
        if rem is None or ((rem.ypos, rem.height) if horiz else (rem.xpos, rem.width)) != (pos, end - pos):
            bad("remaining space", "the remaining space is not given to the filler window")
    elif rem is not None:
        bad("remaining space", "filler window drawn without remaining space")
    return v


def check_current(name, ses, call, vis):
    """C12 for one render of a session, in terms of the children that are in `split.children` NOW:
    every session window that was drawn is a current (and not hidden) child, the drawn children
    stand in their CURRENT listed order without overlap, each is sized within its own CURRENT
    min..max, and a current child that needs room is not left out.  Windows are identified by the
    id under which the session created them - independent of `_all_children`."""
    v = []
    horiz = ses.dir == "h"
    x, y, w, h = call["wp"]
    split = ses.split

    def unwrap(c):
        while isinstance(c, ConditionalContainer):
            c = c.content
        return c

    def bad(cond, msg):
        v.append({"signature": f"{name} | {cond}", "msg": msg})

    tag = {unwrap(win): wid for wid, win in ses.wins.items()}
    hidden = set(call.get("hidden") or [])
    current = [wid for wid, _ in call["children"]]
    specs = {wid: sp for wid, sp in call["children"]}
    drawn = [(tag[win], wp) for win, wp in vis.items() if win in tag]
    ctx = (f"children now {current} (hidden {sorted(hidden)}), drawn "
           f"{[(wid, wp.xpos, wp.ypos, wp.width, wp.height) for wid, wp in drawn]}, region {call['wp']}")
    for wid, _wp in drawn:
        if wid not in current or wid in hidden:
            bad("a window that is not a current child was drawn", f"window {wid}: {ctx}")
            return v
    order = [wid for wid, _ in drawn]
    if order != [wid for wid in current if wid in order]:
        bad("children not drawn in their current listed order", ctx)
        return v
    pos = None
    for wid, wp in drawn:
        start, size = (wp.ypos, wp.height) if horiz else (wp.xpos, wp.width)
        if pos is not None and start < pos:
            bad("children not drawn in their current listed order", f"window {wid} starts at {start} < {pos}: {ctx}")
            return v
        pos = start + size
        mn, mx = specs[wid][0] or 0, specs[wid][1]
        if size < mn or (mx is not None and size > mx):
            bad("child sized outside its current min..max",
                f"window {wid} with Dimension(min={specs[wid][0]}, max={mx}) got {size}: {ctx}")
            return v
    if split.window_too_small not in vis and w > 0 and h > 0:
        for wid in current:
            if wid not in hidden and (specs[wid][0] or 0) > 0 and wid not in order:
                bad("a current child is not drawn", f"window {wid} with min {specs[wid][0]}: {ctx}")
                return v
    return v


def check_specs(vis):
    """C12 in terms of the USER's explicit dimensions: a window that is a direct child of a split
    which was given a visible region and is not 'too small' gets, along the axis of that split, a
    size within the min..max of its own explicit width=/height= (a hidden ConditionalContainer
    child gets nothing).  Independent of what preferred_width/preferred_height report."""
    v = []
    for split, wp in list(SPLIT_REGIONS.items()):
        if wp.width <= 0 or wp.height <= 0 or split.window_too_small in vis:
            continue
        horiz = isinstance(split, HSplit)
        for child in split.children:
            on = True
            c = child
            while isinstance(c, (ConditionalContainer, DynamicContainer)):
                if isinstance(c, DynamicContainer):
                    c = c.get_container()
                    continue
                on = on and bool(c.filter())
                c = c.content
            node = NODE_OF.get(c)
            if node is None or node[0] not in "WXS":
                continue
            if node[0] == "S":
                # a split constructed with an explicit height= / width=
                spec = node[2] if horiz else node[1]
                wpc = SPLIT_REGIONS.get(c)
                if spec is None or wpc is None:
                    continue
            else:
                spec = node[3] if horiz else node[2]
                wpc = vis.get(c)
            mn, mx = spec[0] or 0, spec[1]
            size = 0 if wpc is None else (wpc.height if horiz else wpc.width)
            if not on:
                if wpc is not None:
                    v.append({"signature": "ConditionalContainer | hidden child drawn", "msg": str(node)})
                continue
            if wpc is None and node[0] == "X" and (node[6] or node[7]):
                continue    # dont_extend may have reduced the other axis to nothing: not drawn at all
            if size < mn or (mx is not None and size > mx):
                v.append({"signature": f"{type(split).__name__}.write_to_screen | child drawn outside its explicit min..max",
                          "msg": f"window {node} got {size} along the axis of its {type(split).__name__} "
                                 f"(region {wp.width}x{wp.height}), explicit min {mn} max {mx}"})
    return v


def oracle(case):
    k = case["kind"]
    v = []
    if hang_established() and k != "dim":
        return v
    if k == "dim":
        for s in case["specs"]:
            for val in [x for x in s if x is not None]:
                for value in (val, lambda val=val: val, lambda val=val: (lambda: val)):
                    t = to_dimension(value)
                    if not (t.min == t.preferred == t.max == val):
                        v.append({"signature": "to_dimension | an int is not an exact dimension",
                                  "msg": f"to_dimension({val}) = {enc_dim(t)}"})
            try:
                d = mkD(s)
            except ValueError:
                if not (s[0] is not None and (s[1] if s[1] is not None else 10 ** 40) < s[0]):
                    v.append({"signature": "Dimension.__init__ | unexpected ValueError", "msg": str(s)})
                continue
            if not (d.min <= d.preferred <= d.max):
                v.append({"signature": "Dimension.__init__ | preferred outside min..max", "msg": str(s)})
            if to_dimension(d) is not d or to_dimension(lambda d=d: d) is not d:
                v.append({"signature": "to_dimension | a Dimension is not returned as it is", "msg": str(s)})
            for c, de in merge_variants(case, 0):
                try:
                    m = Window._merge_dimensions(d, lambda c=c: c, bool(de))
                except ValueError:
                    v.append({"signature": "Window._merge_dimensions | raises ValueError", "msg": f"{s} {c} {de}"})
                    continue
                lo = s[0] or 0
                hi = s[1]
                if not (lo <= m.min <= m.preferred <= m.max) or (hi is not None and m.max > hi) or \
                        (de and (c is not None or s[3] is not None) and m.max != m.preferred):
                    v.append({"signature": "Window._merge_dimensions | reported dimension outside the explicit bounds",
                              "msg": f"Dimension{tuple(s)} content={c} dont_extend={de} -> {enc_dim(m)}"})
        return v
    if k == "take":
        ws = case["weights"]
        r = guarded(lambda: list(itertools.islice(take_using_weights(list(range(len(ws))), ws), case["k"])))
        if any(w > 0 for w in ws):
            if r[0] != "ok":
                v.append({"signature": "take_using_weights | does not yield", "msg": f"{ws} -> {r}"})
            elif any(ws[i] == 0 for i in r[1]):
                v.append({"signature": "take_using_weights | zero-weight item yielded", "msg": f"{ws} -> {r}"})
        return v
    if k == "slow":
        horiz = case["dir"] == "h"
        name = "HSplit._divide_heights" if horiz else "VSplit._divide_widths"
        with done_ctx(case["done"]):
            split = build(case)
            a = case["avail"]
            dims = real_dims(split, case, a)
            STEP_BUDGET[0] = SLOW_BUDGET
            try:
                res = guarded(lambda: real_divide(split, case, a))
            finally:
                STEP_BUDGET[0] = None
            if res == ("exc", "StepBudget"):
                need = sum(d.min for d in dims)
                return [{"signature": SLOW_SIGNATURE,
                         "msg": f"{name}: more than {SLOW_BUDGET} loop iterations and still not finished: "
                                f"dims={[enc_dim(d) for d in dims]} avail={a} (at most {max(a - need, 0)} cells to "
                                f"hand out; proved bound {step_bound(dims, a)} iterations, and "
                                f"Ptk.Props.C12Slow.slow_hangs: weights [1, M] need more than M)"}]
            return check_divide(name, dims, a, bool(case["done"]) and horiz, res, STEPS[0])
    if k == "reuse":
        horiz = case["dir"] == "h"
        name = "HSplit._divide_heights" if horiz else "VSplit._divide_widths"
        wname = "HSplit.write_to_screen" if horiz else "VSplit.write_to_screen"
        with done_ctx(False):
            ses = Session(case)
            for n, c in enumerate(case["calls"]):
                pc = ses.prepare(c)
                app().future = _DONE if c["done"] else None
                a = c["avail"]
                dims = real_dims(ses.split, pc, a)
                if horiz and not ses.split.children:
                    dims = []
                # the children's requirements as the USER gave them for this call (own copy of the
                # numbers), not as preferred_* reports them
                hid = set(c.get("hidden") or [])
                byobj = {}
                for wid, sp in c["children"]:
                    w_ = ses.wins[wid]
                    byobj[id(w_)] = None if wid in hid else mkD(sp)
                if len(dims) == len(ses.split._all_children):
                    dims = [byobj.get(id(ch)) or d for ch, d in zip(ses.split._all_children, dims)]
                res = guarded(lambda: real_divide(ses.split, pc, a))
                found = check_divide(name, dims, a, bool(c["done"]) and horiz, res, STEPS[0])
                found += mutated_given(ses)
                if res[0] == "hang":
                    v += found
                    break
                found += check_structure(name.split(".")[0], ses.split, horiz, a, res,
                                         [ZERO_SPEC if wid in (c.get("hidden") or []) else sp
                                          for wid, sp in c["children"]],
                                         padding=c["pad"] if case.get("padcall") else "attr")
                if c.get("wp"):
                    r, vis = draw(ses.split, pc)
                    if r[0] == "ok":
                        found += check_layout(wname, ses.split, pc, vis)
                        found += check_current(wname, ses, c, vis)
                        found += mutated_given(ses)
                    else:
                        found.append({"signature": f"{wname} | {'does not terminate' if r[0] == 'hang' else 'raises ' + str(r[1])}",
                                      "msg": str(case)})
                for f in found:
                    # the failing region: the result depends on what the same object divided before
                    f["signature"] += " | reused split object" if n else ""
                    f["msg"] = f"call {n} of a session on one {name.split('.')[0]}: " + f["msg"]
                v += found
        seen, out = set(), []
        for x in v:
            if x["signature"] not in seen:
                seen.add(x["signature"])
                out.append(x)
        return out
    if k == "tree":
        with done_ctx(False):
            r, items, _root = real_tree(case)
        if r[0] == "hang":
            return [{"signature": "nested write_to_screen | does not terminate", "msg": str(case)}]
        if r[0] == "exc":
            return [{"signature": f"nested write_to_screen | raises {r[1]}", "msg": str(case)}]
        x, y, w, h = case["wp"]
        sv = check_specs(real_tree.screen.visible_windows_to_write_positions)
        if sv:
            sv[0]["msg"] += f": {case}"
            return sv[:1]
        # every cell that was written lies inside the root region, and the text of a window inside
        # the write position recorded for that window (Window.write_to_screen never draws outside
        # the position it was handed)
        letters = {}
        for (t, a, b, c, d) in items:
            if t.startswith("u") and t[1:].isdigit():
                letters.setdefault(win_letter(int(t[1:])), []).append((a, b, c, d))
        for yy, row in real_tree.screen.data_buffer.items():
            for xx, ch in row.items():
                if not (x <= xx < x + w and y <= yy < y + h):
                    return [{"signature": "nested write_to_screen | cell written outside the region",
                             "msg": f"cell ({xx},{yy}) {ch.char!r} outside {case['wp']}: {case}"}]
                if ch.char in letters and not any(a <= xx < a + c and b <= yy < b + d
                                                  for a, b, c, d in letters[ch.char]):
                    return [{"signature": "Window.write_to_screen | content drawn outside the window's write position",
                             "msg": f"cell ({xx},{yy}) {ch.char!r}, window positions {letters[ch.char]}: {case}"}]
        # mouse handlers: every drawn window registers ONE handler on exactly its write position;
        # nothing is registered outside the root region
        groups = {}
        for yy, row in real_tree.mouse.mouse_handlers.items():
            for xx, hnd in row.items():
                groups.setdefault(id(hnd), set()).add((xx, yy))
        rects = [frozenset((xx, yy) for xx in range(a, a + c) for yy in range(b, b + d))
                 for (_t, a, b, c, d) in items]
        if len(groups) != len(rects) or {frozenset(g) for g in groups.values()} != set(rects):
            return [{"signature": "nested write_to_screen | mouse handler regions differ from the windows' write positions",
                     "msg": f"handler regions {sorted(sorted(g)[:1] + sorted(g)[-1:] for g in groups.values())} vs windows {items}: {case}"}]
        for (t, a, b, c, d) in items:
            if not (x <= a and a + c <= x + w and y <= b and b + d <= y + h):
                v.append({"signature": "nested write_to_screen | window outside the region",
                          "msg": f"{t} at {(a, b, c, d)} outside {case['wp']}: {case}"})
                break
        for i in range(len(items)):
            for j in range(i + 1, len(items)):
                _, a, b, c, d = items[i]
                _, a2, b2, c2, d2 = items[j]
                if a < a2 + c2 and a2 < a + c and b < b2 + d2 and b2 < b + d:
                    v.append({"signature": "nested write_to_screen | windows overlap",
                              "msg": f"{items[i]} overlaps {items[j]}: {case}"})
                    return v
        return v
    name = "HSplit._divide_heights" if case["dir"] == "h" else "VSplit._divide_widths"
    wname = "HSplit.write_to_screen" if case["dir"] == "h" else "VSplit.write_to_screen"
    with done_ctx(case["done"]):
        split = build(case)
        for a in case["avails"]:
            dims = real_dims(split, case, a)
            if case["dir"] == "h" and not split.children:
                dims = []
            res = guarded(lambda: real_divide(split, case, a))
            v += check_divide(name, dims, a, bool(case["done"]) and case["dir"] == "h", res, STEPS[0])
            if res[0] == "hang":
                return v
            v += check_structure(name.split(".")[0], split, case["dir"] == "h", a, res, case["children"])
        if case.get("wp"):
            r, vis = draw(split, case)
            if r[0] == "hang":
                v.append({"signature": f"{wname} | does not terminate", "msg": str(case)})
            elif r[0] == "exc":
                v.append({"signature": f"{wname} | raises {r[1]}", "msg": str(case)})
            else:
                v += check_layout(wname, split, case, vis)
    seen, out = set(), []
    for x in v:
        if x["signature"] not in seen:
            seen.add(x["signature"])
            out.append(x)
    return out


# ------------------------------------------------------------------ generators
def child_alphabet(mins, maxpref, weights):
    """all valid explicit specs: min<=pref<=max over the value set, max also unbounded"""
    out = []
    for mn in mins:
        for pr in range(mn, maxpref + 1):
            for mx in list(range(pr, maxpref + 1)) + [None]:
                for w in weights:
                    out.append([mn, mx, w, pr])
    return out


def rand_spec(rng, big=False):
    hi = 30 if big else 6
    mn = rng.choice([None, None, 0, 1, 2, rng.randrange(0, hi)])
    mx = rng.choice([None, None, 0, 1, 3, rng.randrange(0, 2 * hi)])
    if mn is not None and mx is not None and mx < mn:
        mx = mn
    pr = rng.choice([None, 0, 1, 2, 5, rng.randrange(0, 2 * hi)])
    w = rng.choice([None, 0, 0, 1, 1, 2, 3, rng.randrange(0, 12)])
    return [mn, mx, w, pr]


def rand_pad(rng):
    r = rng.randrange(6)
    if r < 3:
        return rng.choice([0, 0, 1, 2])
    s = rand_spec(rng)
    return s


def cases(tier, rng):
    quick = tier == "quick"
    # --- direct: Dimension / Window merge / sum / max
    vals = [None, 0, 1, 3]
    for mn, mx, pr in itertools.product(vals, vals, vals):
        yield {"kind": "dim", "specs": [[mn, mx, w, pr] for w in (None, 0, 2)]}
    for _ in range(300 if quick else 3000):
        n = rng.randrange(0, 5)
        specs = []
        for _ in range(n):
            s = rand_spec(rng)
            if rng.randrange(12) == 0 and s[0] is not None:
                s[1] = max(0, s[0] - 1)  # invalid: max < min
            if rng.randrange(3) == 0:
                s[3] = 0
            specs.append(s)
        yield {"kind": "dim", "specs": specs}
    # --- direct: the weighted stream
    wvals = [0, 1, 2, 3, 5]
    for n in (1, 2, 3):
        for ws in itertools.product(wvals, repeat=n):
            yield {"kind": "take", "k": 24, "weights": list(ws)}
    for _ in range(200 if quick else 3000):
        n = rng.randrange(1, 7)
        ws = [rng.choice([0, 1, 1, 2, 3, 7, 10, rng.randrange(0, 40)]) for _ in range(n)]
        yield {"kind": "take", "k": rng.choice([10, 40, 120]), "weights": ws}
    # --- exhaustive small scope on the real splits
    tiny = child_alphabet([0, 1], 1, [0, 1, 2])
    mid = child_alphabet([0, 1], 2, [0, 1, 2])
    if quick:
        lists = ([[a] for a in mid] + [[a, b] for a in mid for b in mid]
                 + [[a, b, c] for a in tiny for b in tiny for c in tiny])
        avails = list(range(0, 9))
    else:
        big = child_alphabet([0, 1, 2], 3, [0, 1, 2, 3])
        tiny2 = child_alphabet([0, 1], 1, [0, 1])
        lists = ([[a] for a in big] + [[a, b] for a in big for b in big]
                 + [[a, b, c] for a in mid for b in mid for c in mid]
                 + [list(t) for t in itertools.product(tiny2, repeat=4)])
        avails = list(range(0, 11))
    yield {"kind": "split", "dir": "h", "align": 3, "pad": 0, "children": [], "avails": avails, "done": 0,
           "wp": [1, 2, 4, 5]}
    for al in range(4):
        yield {"kind": "split", "dir": "v", "align": al, "pad": 0, "children": [], "avails": avails, "done": 0,
               "wp": [1, 2, 4, 5]}
        yield {"kind": "split", "dir": "h", "align": al, "pad": 1, "children": [], "avails": avails, "done": 0,
               "wp": [1, 2, 4, 5]}
    for i, ch in enumerate(lists):
        # up to 2 children: both split directions; longer lists alternate (the seeded variant below
        # picks its direction independently)
        for d in (("h", "v") if len(ch) <= 2 else ("hv"[i % 2],)):
            yield {"kind": "split", "dir": d, "align": 3, "pad": 0, "children": ch, "avails": avails, "done": 0,
                   "wp": None}
        # one seeded variant: alignment, padding, is_done, write position
        d = rng.choice("hv")
        a = rng.choice(avails)
        yield {"kind": "split", "dir": d, "align": rng.randrange(4), "pad": rand_pad(rng), "children": ch,
               "avails": [a, rng.choice(avails)], "done": rng.randrange(2) if d == "h" else 0,
               "wp": [rng.randrange(3), rng.randrange(3), a if d == "v" else rng.randrange(0, 4),
                      a if d == "h" else rng.randrange(0, 4)]}
    # --- huge weights: the bound n*(maxW+1) per cell is attained up to the factor n (known finding);
    #     the real loops run under an iteration budget, the model only prints the proved bound
    for M in (10 ** 6, 10 ** 9, 10 ** 12):
        for d in "hv":
            yield {"kind": "slow", "dir": d, "align": 3, "pad": 0, "done": 0, "avail": 2,
                   "children": [[None, 2, 1, None], [None, 0, M, None]]}
        yield {"kind": "slow", "dir": "hv"[M % 7 % 2], "align": 0, "pad": 1, "done": 0, "avail": 12,
               "children": [[None, None, 1, None], [1, 3, M, 2], [None, None, 2, None]]}
    # --- ONE split object reused: the requirements of its children change between the calls
    #     exhaustive: every pair of single-child requirements, same object, same available size
    for a in mid:
        for b in mid:
            d = "hv"[(mid.index(a) + mid.index(b)) % 2]
            yield {"kind": "reuse", "dir": d, "calls": [
                {"align": 3, "pad": 0, "children": [[1, x]], "avail": 2, "done": 0} for x in (a, b, a)]}
    #     exhaustive: two children, then the SAME list object edited in place (swapped; first child
    #     replaced by a new window), same available size, every render drawn
    for i, a in enumerate(tiny):
        for j, b in enumerate(tiny):
            d = "hv"[(i + j) % 2]
            c3 = tiny[(i * 7 + j * 3 + 1) % len(tiny)]
            wp = [1, 2, 4, 3] if d == "h" else [1, 2, 3, 4]
            mk = lambda kids, inplace: {"align": 3, "pad": 0, "children": kids, "hidden": [], "avail": 3,  # noqa: E731
                                        "done": 0, "inplace": inplace, "wp": wp}
            yield {"kind": "reuse", "dir": d, "cond": 0, "calls": [
                mk([[1, a], [2, b]], 0), mk([[2, b], [1, a]], 1), mk([[3, c3], [1, a]], 1), mk([[1, a], [3, c3]], 1)]}
    #     a CALLABLE padding whose value changes between the renders (0 at construction)
    for d in "hv":
        for seq in ([0, 2, 1], [1, 0, 3], [[0, 1, None, None], 2, [1, 3, 0, 2]]):
            for al in range(4):
                kids = [[1, [6, 6, None, 6]], [2, [2, 2, None, 2]], [3, NOSPEC]]
                yield {"kind": "reuse", "dir": d, "cond": 0, "padcall": 1, "calls": [
                    {"align": al, "pad": p, "children": kids, "hidden": [], "avail": 20, "done": 0, "inplace": 0,
                     "wp": [0, 0, 20, 2] if d == "v" else [0, 0, 2, 20]} for p in seq]}
    #     windows built from ONE Dimension object each, the available size changes (small, large, ...)
    yield {"kind": "reuse", "dir": "h", "cond": 0, "shared": 1, "calls": [
        {"align": 3, "pad": 0, "children": [[1, [0, 20, None, 8]], [2, [0, 20, None, 2]]], "hidden": [],
         "avail": a, "done": 0, "inplace": 0, "wp": [0, 0, 3, a]} for a in (4, 12, 4, 30)]}
    for i, a in enumerate(mid):
        for j, b in enumerate(mid):
            if (i + j) % 3:
                continue
            d = "hv"[(i + j) % 2]
            yield {"kind": "reuse", "dir": d, "cond": 0, "shared": 1, "calls": [
                {"align": 3, "pad": 0, "children": [[1, a], [2, b]], "hidden": [], "avail": av, "done": 0,
                 "inplace": 0, "wp": None} for av in (1, 6, 0, 3)]}
    for _ in range(2500 if quick else 30000):
        d = rng.choice("hv")
        al = rng.randrange(4)
        pad = rand_pad(rng)
        ids = [1, 2, 3]
        chosen = ids[:rng.choice([1, 2, 2, 3])]
        inplace_session = rng.randrange(3) == 0   # the children list object is edited in place
        padcall = rng.randrange(4) == 0           # padding is a callable whose value changes
        shared = rng.randrange(4) == 0            # windows built from ONE Dimension object each
        fixed = {i: rand_spec(rng, rng.randrange(3) == 0) for i in (1, 2, 3, 4, 5)}
        avail = rng.choice([0, 3, 6, 10, 20, rng.randrange(0, 40)])
        calls = []
        cond = rng.randrange(3) == 0   # children are ConditionalContainers that come and go
        for _c in range(rng.choice([2, 3, 4])):
            r = rng.randrange(10)
            inplace = 0
            if inplace_session and _c and chosen:
                # in-place edit of equal length: swap two entries / reverse / replace one entry
                e = rng.randrange(4)
                chosen = list(chosen)
                if e == 0 and len(chosen) >= 2:
                    i, j = rng.sample(range(len(chosen)), 2)
                    chosen[i], chosen[j] = chosen[j], chosen[i]
                    inplace = 1
                elif e == 1 and len(chosen) >= 2:
                    chosen.reverse()
                    inplace = 1
                elif e == 2:
                    chosen[rng.randrange(len(chosen))] = rng.choice([i for i in (1, 2, 3, 4, 5) if i not in chosen])
                    inplace = 1
            if r == 0 and not inplace:      # edit the children list (object identities change -> _children_cache miss)
                chosen = rng.sample(ids, rng.choice([0, 1, 2, 3]))
            if r == 1 or shared:      # a different available size (shared objects: at every call)
                avail = rng.choice([0, 1, 3, rng.randrange(0, 40), rng.randrange(20, 60)])
            if padcall and _c:
                pad = rand_pad(rng)
            if r == 2:      # reassign `align` while the children tuple may stay cached (as the code is)
                al = rng.randrange(4)
            big = rng.randrange(3) == 0
            a = avail
            calls.append({"align": al, "pad": pad,
                          "children": [[i, fixed[i] if shared else rand_spec(rng, big)] for i in chosen],
                          "hidden": [i for i in chosen if cond and rng.randrange(3) == 0],
                          "inplace": inplace,
                          "avail": a, "done": 1 if (d == "h" and rng.randrange(6) == 0) else 0,
                          "wp": [rng.randrange(3), rng.randrange(3), a if d == "v" else rng.randrange(0, 5),
                                 a if d == "h" else rng.randrange(0, 5)]
                          if (inplace_session or rng.randrange(3) == 0) else None})
        yield {"kind": "reuse", "dir": d, "cond": int(cond), "padcall": int(padcall), "shared": int(shared),
               "calls": calls}
    # --- nested containers (random trees of depth <= 3, <= 3 children per split)
    for _ in range(1500 if quick else 20000):
        t = rand_tree(rng, rng.choice([1, 2, 3]), [0], True, rng.randrange(2) == 1)
        yield {"kind": "tree", "tree": t,
               "wp": [rng.randrange(3), rng.randrange(3), rng.choice([0, 1, 5, rng.randrange(0, 40)]),
                      rng.choice([0, 1, 4, rng.randrange(0, 25)])]}
    # --- random larger
    for _ in range(2500 if quick else 40000):
        n = rng.choice([0, 1, 2, 3, 4, 5, 8])
        big = rng.randrange(4) == 0
        ch = [rand_spec(rng, big) for _ in range(n)]
        d = rng.choice("hv")
        top = 120 if big else 24
        avs = sorted({rng.randrange(0, top) for _ in range(3)} | {0})
        a = rng.choice(avs)
        yield {"kind": "split", "dir": d, "align": rng.randrange(4), "pad": rand_pad(rng), "children": ch,
               "avails": avs, "done": 1 if (d == "h" and rng.randrange(4) == 0) else 0,
               "wp": [rng.randrange(4), rng.randrange(4), a if d == "v" else rng.randrange(0, 5),
                      a if d == "h" else rng.randrange(0, 5)] if rng.randrange(2) else None}


def sample_view(case):
    return case


def nontrivial(case):
    if case["kind"] == "reuse":
        return len(case["calls"]) > 1 and any(c["children"] for c in case["calls"])
    if case["kind"] == "tree":
        return tree_size(case["tree"]) > 1 and case["wp"][2] > 0 and case["wp"][3] > 0
    if case["kind"] == "slow":
        return True
    if case["kind"] != "split":
        return case["kind"] == "take" and any(case["weights"])
    return len(case["children"]) > 0 and max(case["avails"]) > 0


def distribution(cases):
    d = {"kind": {}, "children": {}, "dir": {}, "align": {}, "zero_weight_lists": 0, "with_layout": 0,
         "done": 0, "max_avail": 0, "tree_nodes": {}}
    for c in cases:
        d["kind"][c["kind"]] = d["kind"].get(c["kind"], 0) + 1
        if c["kind"] == "reuse":
            same = sum(1 for x, y in zip(c["calls"], c["calls"][1:]) if x["avail"] == y["avail"])
            d["reuse_same_avail_steps"] = d.get("reuse_same_avail_steps", 0) + same
            continue
        if c["kind"] == "tree":
            n = tree_size(c["tree"])
            key = str(n) if n < 8 else "8+"
            d["tree_nodes"][key] = d["tree_nodes"].get(key, 0) + 1
        if c["kind"] != "split":
            continue
        n = str(len(c["children"]))
        d["children"][n] = d["children"].get(n, 0) + 1
        d["dir"][c["dir"]] = d["dir"].get(c["dir"], 0) + 1
        d["align"][str(c["align"])] = d["align"].get(str(c["align"]), 0) + 1
        if any(s[2] == 0 for s in c["children"]):
            d["zero_weight_lists"] += 1
        if c.get("wp"):
            d["with_layout"] += 1
        if c["done"]:
            d["done"] += 1
        d["max_avail"] = max(d["max_avail"], max(c["avails"]))
    return d


if __name__ == "__main__":
    sys.exit(core.main(sys.modules[__name__]))
